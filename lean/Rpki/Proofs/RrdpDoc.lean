/-
  The three RRDP writers (`Rpki.Model.Rrdp`) are instances of the generic document writer
  (`Rpki.Model.XmlDoc`), the trees they write are well-formed, hence the reference reader returns
  exactly the tree of the fields of the file.
-/
import Rpki.Model.Rrdp
import Rpki.Proofs.XmlDocLemmas
import Rpki.Proofs.XmlLemmas
import Std.Data.String.ToNat
namespace Rpki.Rrdp
set_option autoImplicit false
open Rpki.Xml Rpki.XmlDoc

/-! ### the trees -/

/-- attributes as written: every value escaped -/
def escAttrs (attrs : List (Bytes × Bytes)) : List (Bytes × Bytes) :=
  attrs.map fun (n, v) => (n, escapeAttr v)

def snapshotRefTree (n : Notification) : Node :=
  .elem sSnapshot (escAttrs [(sUri, n.snapshotUri), (sHash, hexOf n.snapshotHash)]) none

def deltaRefTree (d : DeltaRef) : Node :=
  .elem sDelta (escAttrs [(sSerial, decimal d.serial), (sUri, d.uri), (sHash, hexOf d.hash)]) none

/-- `<notification xmlns version session_id serial>` with the self-closing `<snapshot/>` and `<delta/>` -/
def notificationTree (n : Notification) : Node :=
  .elem sNotification (escAttrs (headAttrs n.session n.serial))
    (some (Nodes.ofList (snapshotRefTree n :: n.deltas.map deltaRefTree)))

/-- the children of a `<publish>`: one Base64 text line; none for an object of length zero (the
writer emits an empty line there, which the reader drops) -/
def dataKids (data : Bytes) : Nodes :=
  if data = [] then .nil else .cons (.text (b64Encode data)) .nil

def elemTree : Elem → Node
  | .publish uri data => .elem sPublish (escAttrs [(sUri, uri)]) (some (dataKids data))
  | .update uri hash data => .elem sPublish (escAttrs [(sUri, uri), (sHash, hexOf hash)]) (some (dataKids data))
  | .withdraw uri hash => .elem sWithdraw (escAttrs [(sUri, uri), (sHash, hexOf hash)]) none

def fileTree (root session : Bytes) (serial : Nat) (elems : List Elem) : Node :=
  .elem root (escAttrs (headAttrs session serial)) (some (Nodes.ofList (elems.map elemTree)))

/-- the objects of an element are not empty -/
def Elem.NonEmpty : Elem → Prop
  | .publish _ d => d ≠ []
  | .update _ _ d => d ≠ []
  | .withdraw _ _ => True

/-! ### `Xml.element` is `XmlDoc.writeNode` -/

theorem head_eq (name : Bytes) (attrs : List (Bytes × Bytes)) :
    [60] ++ name ++ (attrs.map fun (n, v) => attrBytes n v).flatten = headOf name (escAttrs attrs) := by
  unfold headOf escAttrs
  rw [List.map_map]
  rfl

theorem element_empty (level : Nat) (name : Bytes) (attrs : List (Bytes × Bytes)) :
    element level name attrs .empty = writeNode level (.elem name (escAttrs attrs) none) := by
  rw [writeNode_elem_none, ← head_eq]
  rfl

theorem element_text (level : Nat) (name : Bytes) (attrs : List (Bytes × Bytes)) (t : Bytes) :
    element level name attrs (.text t) =
      writeNode level (.elem name (escAttrs attrs) (some (.cons (.text t) .nil))) := by
  rw [writeNode_elem_some, writeKids_cons, writeKids_nil, writeNode_text, ← head_eq]
  simp [element]

theorem writeKids_ofList (level : Nat) (kids : List Node) :
    writeKids level (Nodes.ofList kids) =
      (kids.map fun k => [10] ++ indentOf level ++ writeNode level k).flatten := by
  induction kids with
  | nil => rw [Nodes.ofList, writeKids_nil]; rfl
  | cons k ks ih =>
    rw [Nodes.ofList, writeKids_cons, ih]
    simp

theorem element_children (level : Nat) (name : Bytes) (attrs : List (Bytes × Bytes)) (kids : List Node) :
    element level name attrs (.children (kids.map (writeNode (level + 1)))) =
      writeNode level (.elem name (escAttrs attrs) (some (Nodes.ofList kids))) := by
  rw [writeNode_elem_some, writeKids_ofList, ← head_eq]
  simp [element, List.map_map, Function.comp_def]

/-! ### the writers are instances of the generic writer -/

theorem writeNotification_eq (n : Notification) : writeNotification n = writeDoc (notificationTree n) := by
  unfold writeNotification writeDoc notificationTree
  rw [← element_children]
  simp only [List.map_cons, List.map_map, snapshotRefTree, deltaRefTree, Function.comp_def, ← element_empty]

theorem writeElem_eq (e : Elem) (h : e.NonEmpty) : writeElem e = writeNode 1 (elemTree e) := by
  cases e with
  | publish uri d =>
    have hd : d ≠ [] := h
    simp only [writeElem, elemTree, dataKids, if_neg hd, element_text]
  | update uri hash d =>
    have hd : d ≠ [] := h
    simp only [writeElem, elemTree, dataKids, if_neg hd, element_text]
  | withdraw uri hash => simp only [writeElem, elemTree, element_empty]

theorem writeFile_eq' (root session : Bytes) (serial : Nat) (elems : List Elem)
    (hne : ∀ e ∈ elems, e.NonEmpty) :
    writeFile root session serial elems = writeDoc (fileTree root session serial elems) := by
  unfold writeFile writeDoc fileTree
  rw [← element_children, List.map_map]
  congr 2
  apply List.map_congr_left
  intro e he
  exact writeElem_eq e (hne e he)

theorem writeFile_eq (root session : Bytes) (serial : Nat) (elems : List Elem)
    (hne : ∀ e ∈ elems, match e with | .publish _ d => d ≠ [] | .update _ _ d => d ≠ [] | .withdraw _ _ => True) :
    writeFile root session serial elems = writeDoc (fileTree root session serial elems) :=
  writeFile_eq' root session serial elems (fun e he => by
    have := hne e he
    cases e <;> exact this)

/-! ### the trees are well-formed -/

theorem nameOk_sNotification : NameOk sNotification := by unfold NameOk; decide
theorem nameOk_sSnapshot : NameOk sSnapshot := by unfold NameOk; decide
theorem nameOk_sDelta : NameOk sDelta := by unfold NameOk; decide
theorem nameOk_sPublish : NameOk sPublish := by unfold NameOk; decide
theorem nameOk_sWithdraw : NameOk sWithdraw := by unfold NameOk; decide
theorem nameOk_sXmlns : NameOk sXmlns := by unfold NameOk; decide
theorem nameOk_sVersion : NameOk sVersion := by unfold NameOk; decide
theorem nameOk_sSessionId : NameOk sSessionId := by unfold NameOk; decide
theorem nameOk_sSerial : NameOk sSerial := by unfold NameOk; decide
theorem nameOk_sUri : NameOk sUri := by unfold NameOk; decide
theorem nameOk_sHash : NameOk sHash := by unfold NameOk; decide

theorem valueOk_escapeAttr (v : Bytes) : ValueOk (escapeAttr v) := escapeAttr_safe v

/-- escaped attributes are admissible whenever the names are -/
theorem escAttrs_ok (attrs : List (Bytes × Bytes)) (h : ∀ a ∈ attrs, NameOk a.1) :
    ∀ a ∈ escAttrs attrs, NameOk a.1 ∧ ValueOk a.2 := by
  intro a ha
  unfold escAttrs at ha
  rw [List.mem_map] at ha
  obtain ⟨b, hb, rfl⟩ := ha
  exact ⟨h b hb, valueOk_escapeAttr b.2⟩

theorem headAttrs_names (session : Bytes) (serial : Nat) : ∀ a ∈ headAttrs session serial, NameOk a.1 := by
  intro a ha
  simp only [headAttrs, List.mem_cons, List.not_mem_nil, or_false] at ha
  rcases ha with rfl | rfl | rfl | rfl
  · exact nameOk_sXmlns
  · exact nameOk_sVersion
  · exact nameOk_sSessionId
  · exact nameOk_sSerial

theorem uriHash_names (u h : Bytes) : ∀ a ∈ [(sUri, u), (sHash, h)], NameOk a.1 := by
  intro a ha
  simp only [List.mem_cons, List.not_mem_nil, or_false] at ha
  rcases ha with rfl | rfl
  · exact nameOk_sUri
  · exact nameOk_sHash

theorem snapshotRefTree_wf (n : Notification) : (snapshotRefTree n).WF := by
  unfold snapshotRefTree
  rw [Node.WF_elem]
  exact ⟨nameOk_sSnapshot, escAttrs_ok _ (uriHash_names _ _), trivial⟩

theorem deltaRefTree_wf (d : DeltaRef) : (deltaRefTree d).WF := by
  unfold deltaRefTree
  rw [Node.WF_elem]
  refine ⟨nameOk_sDelta, escAttrs_ok _ ?_, trivial⟩
  intro a ha
  simp only [List.mem_cons, List.not_mem_nil, or_false] at ha
  rcases ha with rfl | rfl | rfl
  · exact nameOk_sSerial
  · exact nameOk_sUri
  · exact nameOk_sHash

def _root_.Rpki.XmlDoc.Node.IsElem (n : Node) : Prop := ∃ name attrs body, n = .elem name attrs body

/-- a list of well-formed elements (no text lines) is a well-formed child list -/
theorem wf_ofList_elems : ∀ (l : List Node), (∀ k ∈ l, k.WF ∧ k.IsElem) → (Nodes.ofList l).WF
  | [], _ => by rw [Nodes.ofList, Nodes.WF]; trivial
  | k :: ks, h => by
    obtain ⟨hk, name, attrs, body, rfl⟩ := h k List.mem_cons_self
    rw [Nodes.ofList, Nodes.WF_cons]
    exact ⟨hk, wf_ofList_elems ks (fun x hx => h x (List.mem_cons_of_mem _ hx)), trivial⟩

theorem notificationTree_wf (n : Notification) : (notificationTree n).WF := by
  unfold notificationTree
  rw [Node.WF_elem]
  refine ⟨nameOk_sNotification, escAttrs_ok _ (headAttrs_names _ _), ?_⟩
  apply wf_ofList_elems
  intro k hk
  rcases List.mem_cons.mp hk with rfl | hk
  · exact ⟨snapshotRefTree_wf n, _, _, _, rfl⟩
  · rw [List.mem_map] at hk
    obtain ⟨d, _, rfl⟩ := hk
    exact ⟨deltaRefTree_wf d, _, _, _, rfl⟩

/-- every octet of Base64 text is a character of the alphabet or the padding `=` -/
theorem mem_b64Encode_char : ∀ (d : Bytes) (c : Nat), c ∈ b64Encode d → (∃ v, c = b64Char v) ∨ c = 61 := by
  intro d
  induction d using b64Encode.induct with
  | case1 => intro c hc; simp [b64Encode] at hc
  | case2 a =>
    intro c hc; simp only [b64Encode, List.mem_cons, List.not_mem_nil, or_false] at hc
    rcases hc with h | h | h | h
    · exact Or.inl ⟨_, h⟩
    · exact Or.inl ⟨_, h⟩
    · exact Or.inr h
    · exact Or.inr h
  | case3 a b =>
    intro c hc; simp only [b64Encode, List.mem_cons, List.not_mem_nil, or_false] at hc
    rcases hc with h | h | h | h
    · exact Or.inl ⟨_, h⟩
    · exact Or.inl ⟨_, h⟩
    · exact Or.inl ⟨_, h⟩
    · exact Or.inr h
  | case4 a b c' rest ih =>
    intro c hc; simp only [b64Encode, List.mem_cons] at hc
    rcases hc with h | h | h | h | h
    · exact Or.inl ⟨_, h⟩
    · exact Or.inl ⟨_, h⟩
    · exact Or.inl ⟨_, h⟩
    · exact Or.inl ⟨_, h⟩
    · exact ih c h

theorem b64Encode_eq_nil (d : Bytes) : b64Encode d = [] ↔ d = [] := by
  constructor
  · intro h
    cases d with
    | nil => rfl
    | cons a t =>
      cases t with
      | nil => simp [b64Encode] at h
      | cons b t2 => cases t2 <;> simp [b64Encode] at h
  · rintro rfl; rfl

/-- the Base64 text of a non-empty object is an admissible text line (whatever the octets) -/
theorem textOk_b64Encode (d : Bytes) (hne : d ≠ []) : TextOk (b64Encode d) := by
  have hr := mem_b64Encode_range d
  have hnil : b64Encode d ≠ [] := fun h => hne ((b64Encode_eq_nil d).mp h)
  have nows : ∀ c ∈ b64Encode d, isWs c = false := by
    intro c hc
    have := hr c hc
    unfold isWs
    simp only [Bool.or_eq_false_iff, decide_eq_false_iff_not]
    omega
  refine ⟨hnil, ?_, ?_, ?_⟩
  · intro h60
    rcases mem_b64Encode_char d 60 h60 with ⟨v, hv⟩ | h
    · have : b64Char v ≠ 60 := by
        unfold b64Char; repeat' split
        all_goals omega
      exact this hv.symm
    · omega
  · intro c hc
    exact nows c (List.mem_of_head? hc)
  · intro c hc
    exact nows c (List.mem_of_getLast? hc)

theorem dataKids_wf (d : Bytes) : (dataKids d).WF := by
  unfold dataKids
  split
  · rw [Nodes.WF]; trivial
  · rename_i hd
    rw [Nodes.WF_cons, Node.WF_text]
    refine ⟨textOk_b64Encode d hd, by rw [Nodes.WF]; trivial, ?_⟩
    simp only [Nodes.startsText, not_false_eq_true]

theorem elemTree_isElem (e : Elem) : (elemTree e).IsElem := by
  cases e <;> exact ⟨_, _, _, rfl⟩

theorem elemTree_wf (e : Elem) : (elemTree e).WF := by
  cases e with
  | publish uri d =>
    unfold elemTree
    rw [Node.WF_elem]
    refine ⟨nameOk_sPublish, escAttrs_ok _ ?_, dataKids_wf d⟩
    intro a ha
    simp only [List.mem_cons, List.not_mem_nil, or_false] at ha
    subst ha; exact nameOk_sUri
  | update uri hash d =>
    unfold elemTree
    rw [Node.WF_elem]
    exact ⟨nameOk_sPublish, escAttrs_ok _ (uriHash_names _ _), dataKids_wf d⟩
  | withdraw uri hash =>
    unfold elemTree
    rw [Node.WF_elem]
    exact ⟨nameOk_sWithdraw, escAttrs_ok _ (uriHash_names _ _), trivial⟩

theorem fileTree_wf (root session : Bytes) (serial : Nat) (elems : List Elem) (hroot : NameOk root) :
    (fileTree root session serial elems).WF := by
  unfold fileTree
  rw [Node.WF_elem]
  refine ⟨hroot, escAttrs_ok _ (headAttrs_names _ _), ?_⟩
  apply wf_ofList_elems
  intro k hk
  rw [List.mem_map] at hk
  obtain ⟨e, _, rfl⟩ := hk
  exact ⟨elemTree_wf e, elemTree_isElem e⟩

/-! ### read-back -/

/-- a written notification file is read back as exactly the tree of its fields -/
theorem notification_read_back (n : Notification) :
    parseDoc (writeNotification n) = some (notificationTree n) := by
  rw [writeNotification_eq]
  exact parse_write _ (notificationTree_wf n) ⟨_, _, _, rfl⟩

/-- a written snapshot or delta file whose objects are not empty is read back as exactly the tree of
its fields -/
theorem file_read_back (root session : Bytes) (serial : Nat) (elems : List Elem) (hroot : NameOk root)
    (hd : ∀ e ∈ elems, e.NonEmpty) :
    parseDoc (writeFile root session serial elems) = some (fileTree root session serial elems) := by
  rw [writeFile_eq' root session serial elems hd]
  exact parse_write _ (fileTree_wf root session serial elems hroot) ⟨_, _, _, rfl⟩

/-! ### objects of length zero

`writeFile_eq` needs non-empty objects: for an object of length zero the writer emits an empty text
line, i.e. it writes the tree with the child `.text []`, which is not a well-formed text line
(the reader drops it).  The read-back theorem holds nevertheless (`file_read_back_all`): the lexer
is followed through the file directly. -/

/-- what the writer emits for an empty object, as a tree (not well-formed: `TextOk []` is false) -/
theorem writeElem_empty_eq (uri : Bytes) :
    writeElem (.publish uri []) =
      writeNode 1 (.elem sPublish (escAttrs [(sUri, uri)]) (some (.cons (.text []) .nil))) ∧
    ¬ TextOk [] := by
  refine ⟨?_, fun h => h.1 rfl⟩
  simp only [writeElem, b64Encode, element_text]

/-- and it is not the generic rendering of the tree that is read back -/
theorem writeElem_empty_ne : writeElem (.publish [] []) ≠ writeNode 1 (elemTree (.publish [] [])) := by
  decide

/-- an element whose object is empty: `<publish …>`, an empty line, `</publish>` -/
theorem element_text_nil (level : Nat) (name : Bytes) (attrs : List (Bytes × Bytes)) :
    element level name attrs (.text []) =
      headOf name (escAttrs attrs) ++ 62 :: ((10 :: indentOf (level + 1) ++ 10 :: indentOf level) ++ [] ++ [] ++
        60 :: 47 :: (name ++ 62 :: [])) := by
  rw [← head_eq]
  simp [element]

/-- the lexer on such an element: the white space between the tags yields no token -/
theorem lexF_element_text_nil (level : Nat) (name : Bytes) (attrs : List (Bytes × Bytes)) (r : Bytes)
    (acc : List Tok) (hn : NameOk name) (ha : ∀ a ∈ escAttrs attrs, NameOk a.1 ∧ ValueOk a.2) :
    lexF (element level name attrs (.text []) ++ r) acc =
      lexF r ((toks (.elem name (escAttrs attrs) (some .nil))).reverse ++ acc) := by
  have hshape : element level name attrs (.text []) ++ r =
      headOf name (escAttrs attrs) ++ 62 :: ((10 :: indentOf (level + 1) ++ 10 :: indentOf level) ++ [] ++ [] ++
        60 :: 47 :: (name ++ 62 :: r)) := by
    rw [element_text_nil]; simp
  rw [hshape, lexF_open name _ _ _ hn ha,
    lexF_pad _ [] [] _ _ (allWs_append (allWs_nl_indent _) (allWs_nl_indent _)) allWs_nil (Or.inl rfl),
    lexF_close name r _ hn, toks_elem_some, toksKids_nil]
  simp [pend]

theorem lexF_writeElem (e : Elem) (r : Bytes) (acc : List Tok) :
    lexF (writeElem e ++ r) acc = lexF r ((toks (elemTree e)).reverse ++ acc) := by
  by_cases hne : e.NonEmpty
  · rw [writeElem_eq e hne]
    have hwf := elemTree_wf e
    obtain ⟨name, attrs, body, h⟩ := elemTree_isElem e
    rw [h] at hwf ⊢
    exact lexF_elem name attrs body 1 r acc hwf
  · cases e with
    | publish uri d =>
      have hd : d = [] := Classical.not_not.mp hne
      subst hd
      have hwf := elemTree_wf (.publish uri [])
      rw [elemTree, Node.WF_elem] at hwf
      exact lexF_element_text_nil 1 sPublish _ r acc hwf.1 hwf.2.1
    | update uri hash d =>
      have hd : d = [] := Classical.not_not.mp hne
      subst hd
      have hwf := elemTree_wf (.update uri hash [])
      rw [elemTree, Node.WF_elem] at hwf
      exact lexF_element_text_nil 1 sPublish _ r acc hwf.1 hwf.2.1
    | withdraw uri hash => exact absurd trivial hne

theorem writeElem_head (e : Elem) : ∃ h, writeElem e = 60 :: h := by
  cases e <;> exact ⟨_, rfl⟩

theorem lexF_writeElems (level : Nat) : ∀ (es : List Elem) (r : Bytes) (acc : List Tok),
    lexF ((es.map fun e => [10] ++ indentOf 1 ++ writeElem e).flatten ++ 10 :: indentOf level ++ 60 :: r) acc =
      lexF (60 :: r) ((toksKids (Nodes.ofList (es.map elemTree))).reverse ++ acc)
  | [], r, acc => by
    have := lexF_pad (10 :: indentOf level) [] [] r acc (allWs_nl_indent level) allWs_nil (Or.inl rfl)
    simpa [Nodes.ofList, toksKids_nil, pend] using this
  | e :: es, r, acc => by
    obtain ⟨h, hh⟩ := writeElem_head e
    have hshape : (((e :: es).map fun e => [10] ++ indentOf 1 ++ writeElem e).flatten ++
          10 :: indentOf level ++ 60 :: r) =
        (10 :: indentOf 1) ++ [] ++ [] ++ 60 :: (h ++ ((es.map fun e => [10] ++ indentOf 1 ++ writeElem e).flatten ++
          10 :: indentOf level ++ 60 :: r)) := by
      rw [List.map_cons, List.flatten_cons, hh]; simp
    have hback : 60 :: (h ++ ((es.map fun e => [10] ++ indentOf 1 ++ writeElem e).flatten ++
          10 :: indentOf level ++ 60 :: r)) =
        writeElem e ++ ((es.map fun e => [10] ++ indentOf 1 ++ writeElem e).flatten ++
          10 :: indentOf level ++ 60 :: r) := by
      rw [hh]; rfl
    rw [hshape, lexF_pad _ [] [] _ acc (allWs_nl_indent 1) allWs_nil (Or.inl rfl), hback,
      lexF_writeElem, lexF_writeElems level es, List.map_cons, Nodes.ofList, toksKids_cons]
    simp [pend]

/-- lexer level, empty objects included -/
theorem lexF_writeFile (root session : Bytes) (serial : Nat) (elems : List Elem) (hroot : NameOk root) :
    lexF (writeFile root session serial elems) [] = some (toks (fileTree root session serial elems)) := by
  have hshape : writeFile root session serial elems =
      headOf root (escAttrs (headAttrs session serial)) ++ 62 ::
        ((elems.map fun e => [10] ++ indentOf 1 ++ writeElem e).flatten ++ 10 :: indentOf 0 ++
          60 :: 47 :: (root ++ 62 :: [])) := by
    unfold writeFile
    rw [← head_eq]
    simp [element, List.map_map, Function.comp_def]
  rw [hshape, lexF_open root _ _ _ hroot (escAttrs_ok _ (headAttrs_names _ _)), lexF_writeElems 0,
    lexF_close root [] _ hroot, lexF_nil, fileTree, toks_elem_some]
  simp

/-- a written snapshot or delta file is read back as exactly the tree of its fields; an object of length
zero gives a `<publish>` element without children -/
theorem file_read_back_all (root session : Bytes) (serial : Nat) (elems : List Elem) (hroot : NameOk root) :
    parseDoc (writeFile root session serial elems) = some (fileTree root session serial elems) := by
  have h := lexF_writeFile root session serial elems hroot
  unfold lexF at h
  unfold parseDoc
  rw [h]
  exact build_toks _ _ _


/-! ### injectivity -/

theorem byteArray_toList_loop (bs : ByteArray) : ∀ (k i : Nat) (r : List UInt8), bs.size - i = k →
    ByteArray.toList.loop bs i r = r.reverse ++ bs.data.toList.drop i := by
  intro k
  induction k with
  | zero =>
    intro i r h
    unfold ByteArray.toList.loop
    have hs : bs.size = bs.data.size := rfl
    rw [if_neg (by omega), List.drop_eq_nil_of_le (by simp; omega)]
    simp
  | succ k ih =>
    intro i r h
    unfold ByteArray.toList.loop
    have hs : bs.size = bs.data.size := rfl
    have hi : i < bs.data.size := by omega
    rw [if_pos (by omega), ih (i + 1) _ (by omega)]
    have hg : bs.get! i = bs.data[i] := by
      cases bs with | mk d => simp [ByteArray.get!, hi]
    rw [hg, List.reverse_cons, List.append_assoc]
    congr 1
    have hl : i < bs.data.toList.length := by simpa using hi
    rw [List.drop_eq_getElem_cons hl]
    simp

theorem byteArray_toList (bs : ByteArray) : bs.toList = bs.data.toList := by
  unfold ByteArray.toList
  rw [byteArray_toList_loop bs _ 0 [] rfl]
  simp

theorem decimal_inj (a b : Nat) (h : decimal a = decimal b) : a = b := by
  unfold decimal at h
  have h1 := (List.map_inj_right (fun x y hxy => UInt8.toNat_inj.mp hxy)).mp h
  rw [byteArray_toList, byteArray_toList] at h1
  have h2 : (toString a).toUTF8 = (toString b).toUTF8 := by
    cases ha : (toString a).toUTF8 with | mk da =>
    cases hb : (toString b).toUTF8 with | mk db =>
    rw [ha, hb] at h1
    simp only at h1
    rw [Array.toList_inj.mp h1]
  simp only [String.toUTF8_eq_toByteArray, String.toByteArray_inj] at h2
  exact Nat.repr_injective h2



theorem escapeAttr_inj (a b : Bytes) (h : escapeAttr a = escapeAttr b) : a = b := by
  have := unescape_escapeAttr a
  rw [h, unescape_escapeAttr b] at this
  exact (Option.some.inj this).symm

theorem b64Encode_inj (a b : Bytes) (ha : ∀ x ∈ a, x < 256) (hb : ∀ x ∈ b, x < 256)
    (h : b64Encode a = b64Encode b) : a = b := by
  have := b64Decode_b64Encode a ha
  rw [h, b64Decode_b64Encode b hb] at this
  exact (Option.some.inj this).symm

theorem hexDigit_inj (a b : Nat) (h : hexDigit a = hexDigit b) : a = b := by
  unfold hexDigit at h
  split at h <;> split at h <;> omega

theorem hexOf_cons (x : Nat) (xs : Bytes) :
    hexOf (x :: xs) = hexDigit (x / 16) :: hexDigit (x % 16) :: hexOf xs := rfl

theorem hexOf_inj : ∀ (a b : Bytes), hexOf a = hexOf b → a = b
  | [], [], _ => rfl
  | [], y :: ys, h => by rw [hexOf_cons] at h; cases h
  | x :: xs, [], h => by rw [hexOf_cons] at h; cases h
  | x :: xs, y :: ys, h => by
    rw [hexOf_cons, hexOf_cons] at h
    injection h with h1 h
    injection h with h2 h
    have := hexDigit_inj _ _ h1
    have := hexDigit_inj _ _ h2
    rw [hexOf_inj xs ys h]
    congr 1
    omega

theorem Nodes.toList_ofList : ∀ l : List Node, (Nodes.ofList l).toList = l
  | [] => by rw [Nodes.ofList, Nodes.toList]
  | k :: ks => by rw [Nodes.ofList, Nodes.toList, Nodes.toList_ofList ks]

theorem Nodes.ofList_inj (a b : List Node) (h : Nodes.ofList a = Nodes.ofList b) : a = b := by
  rw [← Nodes.toList_ofList a, h, Nodes.toList_ofList]

theorem map_inj_on {α β : Type} (f : α → β) (P : α → Prop)
    (hf : ∀ x y, P x → P y → f x = f y → x = y) :
    ∀ (a b : List α), (∀ x ∈ a, P x) → (∀ x ∈ b, P x) → a.map f = b.map f → a = b
  | [], [], _, _, _ => rfl
  | [], _ :: _, _, _, h => by cases h
  | _ :: _, [], _, _, h => by cases h
  | x :: xs, y :: ys, ha, hb, h => by
    rw [List.map_cons, List.map_cons] at h
    injection h with h1 h2
    rw [hf x y (ha x List.mem_cons_self) (hb y List.mem_cons_self) h1,
      map_inj_on f P hf xs ys (fun z hz => ha z (List.mem_cons_of_mem _ hz))
        (fun z hz => hb z (List.mem_cons_of_mem _ hz)) h2]

/-- the octets of the objects of an element are octets -/
def Elem.Octets : Elem → Prop
  | .publish _ d => ∀ x ∈ d, x < 256
  | .update _ _ d => ∀ x ∈ d, x < 256
  | .withdraw _ _ => True

theorem dataKids_inj (a b : Bytes) (ha : ∀ x ∈ a, x < 256) (hb : ∀ x ∈ b, x < 256)
    (h : dataKids a = dataKids b) : a = b := by
  unfold dataKids at h
  split at h <;> split at h
  · rename_i h1 h2; rw [h1, h2]
  · cases h
  · cases h
  · injection h with h _
    injection h with h
    exact b64Encode_inj a b ha hb h

theorem elemTree_inj (a b : Elem) (ha : a.Octets) (hb : b.Octets) (h : elemTree a = elemTree b) : a = b := by
  cases a with
  | publish u d =>
    cases b with
    | publish u' d' =>
      simp only [elemTree, escAttrs, List.map_cons, List.map_nil, Node.elem.injEq, List.cons.injEq,
        Prod.mk.injEq, Option.some.injEq, true_and, and_true] at h
      rw [escapeAttr_inj _ _ h.1, dataKids_inj _ _ ha hb h.2]
    | update u' g' d' =>
      simp only [elemTree, escAttrs, List.map_cons, List.map_nil, Node.elem.injEq, List.cons.injEq,
        reduceCtorEq, and_false, false_and] at h
    | withdraw u' g' =>
      simp only [elemTree, Node.elem.injEq, reduceCtorEq, and_false] at h
  | update u g d =>
    cases b with
    | publish u' d' =>
      simp only [elemTree, escAttrs, List.map_cons, List.map_nil, Node.elem.injEq, List.cons.injEq,
        reduceCtorEq, and_false, false_and] at h
    | update u' g' d' =>
      simp only [elemTree, escAttrs, List.map_cons, List.map_nil, Node.elem.injEq, List.cons.injEq,
        Prod.mk.injEq, Option.some.injEq, true_and, and_true] at h
      rw [escapeAttr_inj _ _ h.1.1, hexOf_inj _ _ (escapeAttr_inj _ _ h.1.2), dataKids_inj _ _ ha hb h.2]
    | withdraw u' g' =>
      simp only [elemTree, Node.elem.injEq, reduceCtorEq, and_false] at h
  | withdraw u g =>
    cases b with
    | publish u' d' => simp only [elemTree, Node.elem.injEq, reduceCtorEq, and_false] at h
    | update u' g' d' => simp only [elemTree, Node.elem.injEq, reduceCtorEq, and_false] at h
    | withdraw u' g' =>
      simp only [elemTree, escAttrs, List.map_cons, List.map_nil, Node.elem.injEq, List.cons.injEq,
        Prod.mk.injEq, true_and, and_true] at h
      rw [escapeAttr_inj _ _ h.1, hexOf_inj _ _ (escapeAttr_inj _ _ h.2)]

theorem headAttrs_inj (s s' : Bytes) (n n' : Nat)
    (h : escAttrs (headAttrs s n) = escAttrs (headAttrs s' n')) : s = s' ∧ n = n' := by
  simp only [headAttrs, escAttrs, List.map_cons, List.map_nil, List.cons.injEq, Prod.mk.injEq, true_and,
    and_true] at h
  exact ⟨escapeAttr_inj _ _ h.1, decimal_inj _ _ (escapeAttr_inj _ _ h.2)⟩

theorem fileTree_inj (root root' session session' : Bytes) (serial serial' : Nat) (elems elems' : List Elem)
    (ho : ∀ e ∈ elems, e.Octets) (ho' : ∀ e ∈ elems', e.Octets)
    (h : fileTree root session serial elems = fileTree root' session' serial' elems') :
    root = root' ∧ session = session' ∧ serial = serial' ∧ elems = elems' := by
  simp only [fileTree, Node.elem.injEq, Option.some.injEq] at h
  obtain ⟨h1, h2, h3⟩ := h
  obtain ⟨h4, h5⟩ := headAttrs_inj _ _ _ _ h2
  exact ⟨h1, h4, h5, map_inj_on elemTree Elem.Octets elemTree_inj _ _ ho ho' (Nodes.ofList_inj _ _ h3)⟩

theorem deltaRefTree_inj (a b : DeltaRef) (h : deltaRefTree a = deltaRefTree b) : a = b := by
  cases a with | mk n u g =>
  cases b with | mk n' u' g' =>
  simp only [deltaRefTree, escAttrs, List.map_cons, List.map_nil, Node.elem.injEq, List.cons.injEq,
    Prod.mk.injEq, true_and, and_true] at h
  rw [decimal_inj _ _ (escapeAttr_inj _ _ h.1), escapeAttr_inj _ _ h.2.1, hexOf_inj _ _ (escapeAttr_inj _ _ h.2.2)]

theorem notificationTree_inj (a b : Notification) (h : notificationTree a = notificationTree b) : a = b := by
  cases a with | mk s n u g ds =>
  cases b with | mk s' n' u' g' ds' =>
  simp only [notificationTree, Node.elem.injEq, Option.some.injEq, true_and] at h
  obtain ⟨h1, h2⟩ := h
  obtain ⟨h3, h4⟩ := headAttrs_inj _ _ _ _ h1
  have h5 := Nodes.ofList_inj _ _ h2
  simp only [snapshotRefTree, escAttrs, List.map_cons, List.map_nil, List.cons.injEq, Node.elem.injEq,
    Prod.mk.injEq, true_and, and_true] at h5
  obtain ⟨⟨h6, h7⟩, h8⟩ := h5
  have h9 := map_inj_on deltaRefTree (fun _ => True) (fun x y _ _ => deltaRefTree_inj x y) _ _
    (fun _ _ => trivial) (fun _ _ => trivial) h8
  rw [h3, h4, escapeAttr_inj _ _ h6, hexOf_inj _ _ (escapeAttr_inj _ _ h7), h9]

/-- distinct notification files are written differently -/
theorem writeNotification_injective (a b : Notification) (h : writeNotification a = writeNotification b) :
    a = b := by
  have h1 := notification_read_back a
  rw [h, notification_read_back b] at h1
  exact (notificationTree_inj _ _ (Option.some.inj h1)).symm


/-- distinct snapshot or delta files are written differently (objects being octet strings) -/
theorem writeFile_injective (root root' session session' : Bytes) (serial serial' : Nat)
    (elems elems' : List Elem) (hroot : NameOk root) (hroot' : NameOk root')
    (ho : ∀ e ∈ elems, e.Octets) (ho' : ∀ e ∈ elems', e.Octets)
    (h : writeFile root session serial elems = writeFile root' session' serial' elems') :
    root = root' ∧ session = session' ∧ serial = serial' ∧ elems = elems' := by
  have h1 := file_read_back_all root session serial elems hroot
  rw [h, file_read_back_all root' session' serial' elems' hroot'] at h1
  obtain ⟨a, b, c, d⟩ := fileTree_inj _ _ _ _ _ _ _ _ ho' ho (Option.some.inj h1)
  exact ⟨a.symm, b.symm, c.symm, d.symm⟩

/-! ### the fields are recoverable from the tree -/

theorem escapeAttr_id : ∀ (b : Bytes), (∀ c ∈ b, replAttr c = none) → escapeAttr b = b
  | [], _ => rfl
  | c :: rest, h => by
    have hc := h c List.mem_cons_self
    have ih := escapeAttr_id rest (fun x hx => h x (List.mem_cons_of_mem _ hx))
    unfold escapeAttr at ih ⊢
    rw [escapeWith, hc, ih]
    rfl

theorem replAttr_none (c : Nat) (h : c ≠ 60 ∧ c ≠ 62 ∧ c ≠ 34 ∧ c ≠ 39 ∧ c ≠ 38) : replAttr c = none := by
  unfold replAttr
  rw [if_neg h.1, if_neg h.2.1, if_neg h.2.2.1, if_neg h.2.2.2.1, if_neg h.2.2.2.2]

theorem replAttr_hexDigit (n : Nat) : replAttr (hexDigit n) = none := by
  apply replAttr_none
  unfold hexDigit
  split <;> omega

/-- hexadecimal text is written as it is -/
theorem escapeAttr_hexOf (h : Bytes) : escapeAttr (hexOf h) = hexOf h := by
  apply escapeAttr_id
  intro c hc
  unfold hexOf at hc
  rw [List.mem_flatMap] at hc
  obtain ⟨x, _, hx⟩ := hc
  simp only [List.mem_cons, List.not_mem_nil, or_false] at hx
  rcases hx with rfl | rfl <;> exact replAttr_hexDigit _

theorem xmlB64Decode_b64Encode (d : Bytes) (hd : ∀ x ∈ d, x < 256) : xmlB64Decode (b64Encode d) = some d :=
  xmlB64Decode_of_skipWs _ d hd (b64Encode_no_ws d hd)

/-- `<publish uri>` of a new object: the attribute un-escapes to the URI, the text decodes to the object -/
theorem elemTree_publish_fields (uri d : Bytes) (hne : d ≠ []) (hd : ∀ x ∈ d, x < 256) :
    elemTree (.publish uri d) =
        .elem sPublish [(sUri, escapeAttr uri)] (some (.cons (.text (b64Encode d)) .nil)) ∧
      unescapeAll (escapeAttr uri) = some uri ∧ xmlB64Decode (b64Encode d) = some d := by
  refine ⟨?_, unescape_escapeAttr uri, xmlB64Decode_b64Encode d hd⟩
  simp only [elemTree, escAttrs, dataKids, if_neg hne, List.map_cons, List.map_nil]

/-- `<publish uri hash>` of a replaced object -/
theorem elemTree_update_fields (uri hash d : Bytes) (hne : d ≠ []) (hd : ∀ x ∈ d, x < 256) :
    elemTree (.update uri hash d) =
        .elem sPublish [(sUri, escapeAttr uri), (sHash, hexOf hash)] (some (.cons (.text (b64Encode d)) .nil)) ∧
      unescapeAll (escapeAttr uri) = some uri ∧ xmlB64Decode (b64Encode d) = some d ∧
      (∀ hash', hexOf hash' = hexOf hash → hash' = hash) := by
  refine ⟨?_, unescape_escapeAttr uri, xmlB64Decode_b64Encode d hd, fun _ h => hexOf_inj _ _ h⟩
  simp only [elemTree, escAttrs, dataKids, if_neg hne, List.map_cons, List.map_nil, escapeAttr_hexOf]

/-- `<withdraw uri hash/>` -/
theorem elemTree_withdraw_fields (uri hash : Bytes) :
    elemTree (.withdraw uri hash) = .elem sWithdraw [(sUri, escapeAttr uri), (sHash, hexOf hash)] none ∧
      unescapeAll (escapeAttr uri) = some uri ∧ (∀ hash', hexOf hash' = hexOf hash → hash' = hash) := by
  refine ⟨?_, unescape_escapeAttr uri, fun _ h => hexOf_inj _ _ h⟩
  simp only [elemTree, escAttrs, List.map_cons, List.map_nil, escapeAttr_hexOf]

/-- an object of length zero: `<publish …>` without children -/
theorem elemTree_empty_fields (uri hash : Bytes) :
    elemTree (.publish uri []) = .elem sPublish [(sUri, escapeAttr uri)] (some .nil) ∧
    elemTree (.update uri hash []) = .elem sPublish [(sUri, escapeAttr uri), (sHash, hexOf hash)] (some .nil) := by
  constructor
  · simp only [elemTree, escAttrs, dataKids, if_true, List.map_cons, List.map_nil]
  · simp only [elemTree, escAttrs, dataKids, if_true, List.map_cons, List.map_nil, escapeAttr_hexOf]

/-- the head attributes of all three files; the name space and the version are written as they are -/
theorem headAttrs_fields (session : Bytes) (serial : Nat) :
    escAttrs (headAttrs session serial) =
        [(sXmlns, ns), (sVersion, [49]), (sSessionId, escapeAttr session), (sSerial, escapeAttr (decimal serial))] ∧
      unescapeAll (escapeAttr session) = some session ∧
      unescapeAll (escapeAttr (decimal serial)) = some (decimal serial) ∧
      (∀ serial', decimal serial' = decimal serial → serial' = serial) := by
  refine ⟨?_, unescape_escapeAttr _, unescape_escapeAttr _, fun _ h => decimal_inj _ _ h⟩
  have h1 : escapeAttr ns = ns := by decide
  have h2 : escapeAttr [49] = [49] := by decide
  simp only [headAttrs, escAttrs, List.map_cons, List.map_nil, h1, h2]

/-- the children of `<notification>` -/
theorem notificationTree_fields (n : Notification) :
    notificationTree n = .elem sNotification (escAttrs (headAttrs n.session n.serial))
      (some (Nodes.ofList (
        .elem sSnapshot [(sUri, escapeAttr n.snapshotUri), (sHash, hexOf n.snapshotHash)] none ::
        n.deltas.map fun d =>
          .elem sDelta [(sSerial, escapeAttr (decimal d.serial)), (sUri, escapeAttr d.uri), (sHash, hexOf d.hash)]
            none))) := by
  have hd : deltaRefTree = fun d => Node.elem sDelta
      [(sSerial, escapeAttr (decimal d.serial)), (sUri, escapeAttr d.uri), (sHash, hexOf d.hash)] none := by
    funext d
    simp only [deltaRefTree, escAttrs, List.map_cons, List.map_nil, escapeAttr_hexOf]
  simp only [notificationTree, snapshotRefTree, escAttrs, List.map_cons, List.map_nil, escapeAttr_hexOf, hd]

end Rpki.Rrdp
