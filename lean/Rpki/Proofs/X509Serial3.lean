import Rpki.Proofs.X509Serial2
namespace Rpki.X509

/-! ### `from_slice` -/

theorem fromArray_ok_iff (a : Bytes) (ha : AllBytes a) (hne : a ≠ []) :
    fromArray a = .ok a ↔ toNatBE a * 2 < 256 ^ a.length := by
  unfold fromArray
  rw [← headD_lt_iff a ha hne]
  by_cases h : a.headD 0 / 128 % 2 = 0
  · simp [h]
  · simp [h]

theorem fromArray_cases (a : Bytes) : fromArray a = .ok a ∨ fromArray a = .error .long := by
  unfold fromArray; split <;> simp

/-- `from_slice` accepts exactly the non-empty slices of at most 20 octets whose value is below
2^159, and yields the left-padded array of the same value. -/
theorem fromSlice_spec (s : Bytes) (hs : AllBytes s) :
    (∀ a, fromSlice s = .ok a → s ≠ [] ∧ s.length ≤ 20 ∧ a = List.replicate (20 - s.length) 0 ++ s ∧
      toNatBE a = toNatBE s ∧ VS a) ∧
    (s ≠ [] → s.length ≤ 20 → toNatBE s * 2 < 256 ^ 20 → fromSlice s = .ok (List.replicate (20 - s.length) 0 ++ s)) := by
  have hpad : AllBytes (List.replicate (20 - s.length) 0 ++ s) := allBytes_append.2 ⟨allBytes_replicate _, hs⟩
  constructor
  · intro a h
    unfold fromSlice at h
    by_cases h1 : s = []
    · simp [h1] at h
    · by_cases h2 : s.length > 20
      · simp [h1, h2] at h
      · simp only [h1, h2, if_false] at h
        have hne : List.replicate (20 - s.length) 0 ++ s ≠ [] := by simp [h1]
        rcases fromArray_cases (List.replicate (20 - s.length) 0 ++ s) with e | e
        · rw [e] at h; injection h with h; subst h
          have hlen : (List.replicate (20 - s.length) 0 ++ s).length = 20 := by simp; omega
          have := (fromArray_ok_iff _ hpad hne).1 e
          rw [hlen] at this
          exact ⟨h1, by omega, rfl, toNatBE_pad _ _, hlen, hpad, this⟩
        · rw [e] at h; cases h
  · intro h1 h2 h3
    unfold fromSlice
    have : ¬ s.length > 20 := by omega
    simp only [h1, this, if_false]
    have hne : List.replicate (20 - s.length) 0 ++ s ≠ [] := by simp [h1]
    have hlen : (List.replicate (20 - s.length) 0 ++ s).length = 20 := by simp; omega
    exact (fromArray_ok_iff _ hpad hne).2 (by rw [hlen, toNatBE_pad]; exact h3)

/-! ### the minimal DER integer -/

theorem fnz_zeros : ∀ (pre rest : Bytes) (i : Nat), (∀ b ∈ pre, b = 0) →
    firstNonZero (pre ++ rest) i = firstNonZero rest (i + pre.length) := by
  intro pre
  induction pre with
  | nil => intro rest i _; rfl
  | cons x xs ih =>
    intro rest i h
    have hx : x = 0 := h x (by simp)
    subst hx
    simp only [List.cons_append, firstNonZero, if_true, List.length_cons]
    rw [ih rest (i + 1) (fun b hb => h b (by simp [hb]))]
    congr 1; omega

theorem fnz_allzero (a : Bytes) (i : Nat) (h : ∀ b ∈ a, b = 0) : firstNonZero a i = 19 := by
  have := fnz_zeros a [] i h
  simpa [firstNonZero] using this

/-- any byte string is all zero or `zeros ++ x :: rest` with `x ≠ 0` -/
theorem zeros_decomp (a : Bytes) : (∀ b ∈ a, b = 0) ∨
    ∃ pre x rest, a = pre ++ x :: rest ∧ (∀ b ∈ pre, b = 0) ∧ x ≠ 0 := by
  induction a with
  | nil => left; simp
  | cons y ys ih =>
    by_cases hy : y = 0
    · rcases ih with h | ⟨pre, x, rest, e, hp, hx⟩
      · left; intro b hb; rcases List.mem_cons.1 hb with e | e
        · rw [e]; exact hy
        · exact h b e
      · right; exact ⟨y :: pre, x, rest, by simp [e], by
          intro b hb; rcases List.mem_cons.1 hb with e | e
          · rw [e]; exact hy
          · exact hp b e, hx⟩
    · right; exact ⟨[], y, ys, rfl, by simp, hy⟩

theorem zeros_eq_replicate (pre : Bytes) (h : ∀ b ∈ pre, b = 0) : pre = List.replicate pre.length 0 := by
  induction pre with
  | nil => rfl
  | cons x xs ih =>
    have hx : x = 0 := h x (by simp)
    subst hx
    simp only [List.length_cons, List.replicate_succ]
    congr 1
    exact ih (fun b hb => h b (by simp [hb]))

/-- The DER content produced for a serial decodes back to that serial, and is the minimal
non-negative two's-complement form: no redundant leading zero octet, top bit clear. -/
theorem der_roundtrip' (a : Bytes) (ha : VS a) :
    decodeSerialContent (encodeContent a) = some a ∧
    toNatBE (encodeContent a) = toNatBE a ∧ (encodeContent a).headD 0 < 128 ∧ encodeContent a ≠ [] ∧
    ¬ ((encodeContent a).length ≥ 2 ∧ (encodeContent a).headD 0 = 0 ∧ (encodeContent a).getD 1 0 < 128) := by
  obtain ⟨hlen, hbytes, hval⟩ := ha
  have hane : a ≠ [] := by intro e; rw [e] at hlen; simp at hlen
  rcases zeros_decomp a with hz | ⟨pre, x, rest, e, hp, hx⟩
  · -- zero
    have : a = List.replicate 20 0 := by rw [zeros_eq_replicate a hz, hlen]
    subst this
    decide
  · have hpre := zeros_eq_replicate pre hp
    have hxb : x < 256 := hbytes x (by rw [e]; simp)
    have hrest : AllBytes rest := fun b hb => hbytes b (by rw [e]; simp [hb])
    have hl : pre.length + 1 + rest.length = 20 := by rw [e] at hlen; simp at hlen; omega
    have hst : firstNonZero a 0 = pre.length := by
      rw [e, fnz_zeros pre _ 0 hp]; simp [firstNonZero, hx]
    have hget : a.getD pre.length 0 = x := by rw [e]; simp [List.getD]
    have hstart : start a = if x / 128 % 2 ≠ 0 then pre.length - 1 else pre.length := by
      unfold start; simp only [hst, hget]
    unfold encodeContent
    rw [hstart]
    have hfs := fromSlice_spec
    by_cases hbig : x / 128 % 2 ≠ 0
    · -- leading octet has its top bit set: keep one zero octet in front
      rw [if_pos hbig]
      have hx128 : 128 ≤ x := by omega
      have hj : 1 ≤ pre.length := by
        rcases Nat.eq_zero_or_pos pre.length with h0 | h0
        · exfalso
          have hp0 : pre = [] := List.length_eq_zero_iff.1 h0
          rw [hp0] at e
          have hh := (headD_lt_iff a hbytes hane).2 (by rw [hlen]; exact hval)
          rw [e] at hh; simp at hh; omega
        · exact h0
      have hdrop : a.drop (pre.length - 1) = 0 :: x :: rest := by
        rw [e]
        have hp1 : pre = List.replicate (pre.length - 1) 0 ++ [0] := by
          conv => lhs; rw [hpre]
          have : pre.length = (pre.length - 1) + 1 := by omega
          conv => lhs; rw [this, List.replicate_succ']
        conv => lhs; rw [hp1]
        rw [List.append_assoc, List.drop_left' (by simp)]
        rfl
      rw [hdrop]
      have hcb : AllBytes (0 :: x :: rest) := by
        rw [AllBytes.cons, AllBytes.cons]; exact ⟨by omega, hxb, hrest⟩
      have hv : toNatBE (0 :: x :: rest) = toNatBE a := by
        rw [e, toNatBE_append]
        have : toNatBE pre = 0 := by rw [hpre, toNatBE_replicate_zero]
        rw [this]; simp [toNatBE]
      refine ⟨?_, hv, by simp, by simp, by simp; omega⟩
      unfold decodeSerialContent
      have h1 : ¬ (0:Nat) ≥ 128 := by omega
      have h2 : ¬ ((0:Nat) = 0 ∧ x < 128) := by omega
      simp only [h1, if_false, h2]
      have := (hfs (0 :: x :: rest) hcb).2 (by simp) (by simp; omega) (by rw [hv]; exact hval)
      rw [this]
      simp only [Except.toOption]
      congr 1
      rw [e]
      have : 20 - (0 :: x :: rest).length = pre.length - 1 := by simp; omega
      rw [this]
      conv => rhs; rw [hpre]
      have : pre.length = (pre.length - 1) + 1 := by omega
      conv => rhs; rw [this, List.replicate_succ']
      simp <;> omega
    · rw [if_neg hbig]
      have hx128 : x < 128 := by omega
      have hdrop : a.drop pre.length = x :: rest := by rw [e]; exact List.drop_left
      rw [hdrop]
      have hcb : AllBytes (x :: rest) := by rw [AllBytes.cons]; exact ⟨hxb, hrest⟩
      have hv : toNatBE (x :: rest) = toNatBE a := by
        rw [e, toNatBE_append]
        have : toNatBE pre = 0 := by rw [hpre, toNatBE_replicate_zero]
        rw [this]; simp
      refine ⟨?_, hv, by simpa using hx128, by simp, by simp; intro _ h0; exact absurd h0 hx⟩
      unfold decodeSerialContent
      have h1 : ¬ x ≥ 128 := by omega
      simp only [h1, if_false]
      have hres : (fromSlice (x :: rest)).toOption = some a := by
        have := (hfs (x :: rest) hcb).2 (by simp) (by simp; omega) (by rw [hv]; exact hval)
        rw [this]
        simp only [Except.toOption]
        congr 1
        rw [e]
        have : 20 - (x :: rest).length = pre.length := by simp; omega
        rw [this, ← hpre]
      cases rest with
      | nil => exact hres
      | cons b1 r2 =>
        have h2 : ¬ (x = 0 ∧ b1 < 128) := fun h => hx h.1
        simp only [h2, if_false]
        exact hres

/-! ### order -/

/-- Serial order is numeric order. -/
theorem lexCmp_eq_compare : ∀ (a b : Bytes), a.length = b.length → AllBytes a → AllBytes b →
    lexCmp a b = compare (toNatBE a) (toNatBE b) := by
  intro a
  induction a with
  | nil => intro b hl _ _; cases b <;> simp_all [lexCmp, toNatBE]
  | cons x xs ih =>
    intro b hl ha hb
    cases b with
    | nil => simp at hl
    | cons y ys =>
      rw [AllBytes.cons] at ha hb
      simp only [List.length_cons, Nat.add_right_cancel_iff] at hl
      have h1 := toNatBE_lt xs ha.2
      have h2 := toNatBE_lt ys hb.2
      rw [hl] at h1
      have hp : 0 < 256 ^ ys.length := Nat.pow_pos (by decide)
      simp only [lexCmp, toNatBE, hl]
      rw [Nat.compare_eq_ite_lt]
      by_cases c1 : x < y
      · have : (x + 1) * 256 ^ ys.length ≤ y * 256 ^ ys.length := Nat.mul_le_mul_right _ c1
        have : x * 256 ^ ys.length + toNatBE xs < y * 256 ^ ys.length + toNatBE ys := by nlinarith
        simp [c1, this]
      · by_cases c2 : y < x
        · have : (y + 1) * 256 ^ ys.length ≤ x * 256 ^ ys.length := Nat.mul_le_mul_right _ c2
          have h3 : y * 256 ^ ys.length + toNatBE ys < x * 256 ^ ys.length + toNatBE xs := by nlinarith
          have h4 : ¬ (x * 256 ^ ys.length + toNatBE xs < y * 256 ^ ys.length + toNatBE ys) := by omega
          simp [c1, c2, h3, h4]
        · have hxy : x = y := by omega
          subst hxy
          simp only [c1, if_false]
          rw [ih ys hl ha.2 hb.2, Nat.compare_eq_ite_lt]
          by_cases c3 : toNatBE xs < toNatBE ys
          · simp [c3]
          · by_cases c4 : toNatBE ys < toNatBE xs
            · simp [c3, c4]
            · simp [c3, c4]

end Rpki.X509
