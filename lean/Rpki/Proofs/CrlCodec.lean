/-
  CRL revocation list codec: whatever `RevokedCertificates::from_iter` / `CrlEntry::encode` write,
  the counting pass, the iterator and the lookup read back; and on arbitrary captured octets the
  lookup and the iterator agree.
-/
import Rpki.Model.Crl
import Rpki.Proofs.DerLemmas
import Rpki.Proofs.ManifestCodec
import Rpki.Props.C17
import Rpki.Proofs.DerLemmas
namespace Rpki.Crl
open Rpki.Der

/-- an entry as the builder may be given it: a serial number value and a calendar date -/
def EntryOk (e : Entry) : Prop := X509.VS e.serial ∧ X509.validCivil e.date = true ∧ e.date.y ≤ 9999

/-! ### the time value -/

/-- the identifier octet `encode_varied` writes -/
def timeTag (t : X509.TimeTag) : Nat := match t with | .utc => tagUtcTime | .generalized => tagGenTime

theorem takeTime_encodeVaried (c : X509.Civil) (rest : Bytes) (hv : X509.validCivil c = true)
    (hy : c.y ≤ 9999) :
    Manifest.takeTime (tlv (timeTag (X509.encodeVaried c).1) (X509.encodeVaried c).2 ++ rest)
      = some (c, rest) := by
  have hrt := C17.time_roundtrip c hv hy
  have hw := C17.encode_tag_width c
  cases ht : (X509.encodeVaried c).1 with
  | utc =>
    rw [ht] at hrt
    have hl := hw.2.1 ht
    unfold Manifest.takeTime
    simp only [timeTag]
    rw [takeOptPrim_tlv tagUtcTime _ _ (by decide) (by decide) (by rw [hl]; decide)]
    simp only [hrt, Option.map_some]
  | generalized =>
    rw [ht] at hrt
    have hl := hw.2.2 ht
    unfold Manifest.takeTime
    simp only [timeTag]
    rw [takeOptPrim_other tagUtcTime tagGenTime _ _ (by decide) (by decide)]
    simp only
    rw [takeOptPrim_tlv tagGenTime _ _ (by decide) (by decide) (by rw [hl]; decide)]
    simp only [hrt, Option.map_some]

theorem timeContent_length (c : X509.Civil) : (X509.encodeVaried c).2.length ≤ 15 := by
  have hw := C17.encode_tag_width c
  cases ht : (X509.encodeVaried c).1 with
  | utc => have := hw.2.1 ht; omega
  | generalized => have := hw.2.2 ht; omega

/-! ### one entry -/

theorem encodeEntry_eq (e : Entry) :
    encodeEntry e = tlv tagSeq (tlv tagInt (X509.encodeContent e.serial) ++
      tlv (timeTag (X509.encodeVaried e.date).1) (X509.encodeVaried e.date).2) := rfl

theorem takeOptEntry_encode (e : Entry) (he : EntryOk e) (rest : Bytes) :
    takeOptEntry (encodeEntry e ++ rest) = .ok e rest := by
  obtain ⟨hs, hv, hy⟩ := he
  have hsl := Manifest.serialContent_length e.serial hs
  have hser := (C17.serial_der_roundtrip e.serial hs).1
  have htl := timeContent_length e.date
  have l1 := Manifest.tlv_length tagInt (X509.encodeContent e.serial)
  have l2 := Manifest.tlv_length (timeTag (X509.encodeVaried e.date).1) (X509.encodeVaried e.date).2
  have htime := takeTime_encodeVaried e.date [] hv hy
  rw [List.append_nil] at htime
  rw [encodeEntry_eq]
  unfold takeOptEntry
  rw [takeOptCons_tlv tagSeq _ rest (by decide) (by decide)
    (by simp only [List.length_append]; omega)]
  simp only
  rw [takePrim_tlv tagInt _ _ (by decide) (by decide) (by omega)]
  simp only [hser, htime, if_true]

theorem takeOptEntry_nil : takeOptEntry [] = .absent := rfl

theorem encodeEntry_length (e : Entry) : 2 ≤ (encodeEntry e).length := by
  have := Manifest.tlv_length tagSeq (tlv tagInt (X509.encodeContent e.serial) ++
      tlv (timeTag (X509.encodeVaried e.date).1) (X509.encodeVaried e.date).2)
  rw [encodeEntry_eq]; omega

/-! ### the list: more fuel than entries suffices -/

theorem encodeList_nil : encodeList [] = [] := rfl

theorem encodeList_cons (e : Entry) (es : List Entry) :
    encodeList (e :: es) = encodeEntry e ++ encodeList es := by
  simp [encodeList]

/-- every entry takes octets, so the octet count bounds the entry count (the loops' fuel) -/
theorem length_le_encodeList (es : List Entry) : es.length ≤ (encodeList es).length := by
  induction es with
  | nil => simp
  | cons e es ih =>
    have := encodeEntry_length e
    rw [encodeList_cons, List.length_append, List.length_cons]
    omega

theorem iteratePass_encode : ∀ (es : List Entry) (fuel : Nat), es.length ≤ fuel →
    (∀ e ∈ es, EntryOk e) → iteratePass takeOptEntry fuel (encodeList es) = some es := by
  intro es
  induction es with
  | nil =>
    intro fuel _ _
    cases fuel with
    | zero => simp [iteratePass]
    | succ f => simp [iteratePass, encodeList_nil, takeOptEntry_nil]
  | cons e es ih =>
    intro fuel hf hv
    cases fuel with
    | zero => simp at hf
    | succ f =>
      rw [encodeList_cons, iteratePass, takeOptEntry_encode e (hv e (List.mem_cons_self ..))]
      simp only
      rw [ih f (by simpa using hf) (fun x hx => hv x (List.mem_cons_of_mem _ hx))]
      rfl

theorem capturePass_encode : ∀ (es : List Entry) (fuel n : Nat), es.length ≤ fuel →
    (∀ e ∈ es, EntryOk e) →
    capturePass takeOptEntry (fun _ => true) fuel (encodeList es) n = some (n + es.length) := by
  intro es
  induction es with
  | nil =>
    intro fuel n _ _
    cases fuel with
    | zero => simp [capturePass, encodeList_nil]
    | succ f => simp [capturePass, encodeList_nil, takeOptEntry_nil]
  | cons e es ih =>
    intro fuel n hf hv
    cases fuel with
    | zero => simp at hf
    | succ f =>
      rw [encodeList_cons, capturePass, takeOptEntry_encode e (hv e (List.mem_cons_self ..))]
      simp only [if_true]
      rw [ih f (n + 1) (by simpa using hf) (fun x hx => hv x (List.mem_cons_of_mem _ hx))]
      simp only [List.length_cons]
      congr 1; omega

theorem containsLoop_encode (s : Bytes) : ∀ (es : List Entry) (fuel : Nat), es.length ≤ fuel →
    (∀ e ∈ es, EntryOk e) →
    containsLoop fuel (encodeList es) s = some (decide (∃ e ∈ es, e.serial = s)) := by
  intro es
  induction es with
  | nil =>
    intro fuel _ _
    cases fuel with
    | zero => simp [containsLoop]
    | succ f => simp [containsLoop, encodeList_nil, takeOptEntry_nil]
  | cons e es ih =>
    intro fuel hf hv
    cases fuel with
    | zero => simp at hf
    | succ f =>
      rw [encodeList_cons, containsLoop, takeOptEntry_encode e (hv e (List.mem_cons_self ..))]
      simp only
      by_cases hs : e.serial = s
      · simp [hs]
      · rw [if_neg hs, ih f (by simpa using hf) (fun x hx => hv x (List.mem_cons_of_mem _ hx))]
        simp [hs]

/-! ### the three passes over the encoded list

No size bound is needed: an encoded entry has at most 51 octets (serial content ≤ 20, time content
≤ 15), so every length the reader meets is far below 2^32 whatever the length of the list. -/

/-- **Iterate ∘ encode.** The iterator yields exactly the entries that were encoded. -/
theorem entries_encode (es : List Entry) (h : ∀ e ∈ es, EntryOk e) :
    entries (encodeList es) = some es :=
  iteratePass_encode es _ (length_le_encodeList es) h

/-- **Capture ∘ encode.** The counting pass accepts the encoded list and counts its entries. -/
theorem capture_encode (es : List Entry) (h : ∀ e ∈ es, EntryOk e) :
    capture (encodeList es) = some es.length := by
  have := capturePass_encode es (encodeList es).length 0 (length_le_encodeList es) h
  rw [Nat.zero_add] at this
  exact this

/-- the lookup answers membership of the serial number, and never fails -/
theorem contains_encode (es : List Entry) (h : ∀ e ∈ es, EntryOk e) (s : Bytes) :
    contains (encodeList es) s = some (decide (∃ e ∈ es, e.serial = s)) :=
  containsLoop_encode s es _ (length_le_encodeList es) h

/-! ### arbitrary captured octets: the lookup and the iterator walk the same reader -/

theorem containsLoop_iff_listed (s : Bytes) : ∀ (fuel : Nat) (b : Bytes) (es : List Entry),
    iteratePass takeOptEntry fuel b = some es →
    (containsLoop fuel b s = some true ↔ ∃ e ∈ es, e.serial = s) := by
  intro fuel
  induction fuel with
  | zero =>
    intro b es h
    simp only [iteratePass, Option.some.injEq] at h
    subst h
    simp [containsLoop]
  | succ f ih =>
    intro b es h
    rw [iteratePass] at h
    rw [containsLoop]
    cases ht : takeOptEntry b with
    | absent =>
      simp only [ht, Option.some.injEq] at h
      subst h
      simp
    | bad => simp [ht] at h
    | ok e rest =>
      simp only [ht] at h
      cases hr : iteratePass takeOptEntry f rest with
      | none => simp [hr] at h
      | some es' =>
        simp only [hr, Option.map_some, Option.some.injEq] at h
        subst h
        have := ih rest es' hr
        by_cases hs : e.serial = s
        · simp [hs]
        · simp only [if_neg hs, this]
          simp [hs]

/-- the lookup never fails where the iterator does not -/
theorem containsLoop_total (s : Bytes) : ∀ (fuel : Nat) (b : Bytes) (es : List Entry),
    iteratePass takeOptEntry fuel b = some es →
    containsLoop fuel b s = some (decide (∃ e ∈ es, e.serial = s)) := by
  intro fuel
  induction fuel with
  | zero =>
    intro b es h
    simp only [iteratePass, Option.some.injEq] at h
    subst h
    simp [containsLoop]
  | succ f ih =>
    intro b es h
    rw [iteratePass] at h
    rw [containsLoop]
    cases ht : takeOptEntry b with
    | absent =>
      simp only [ht, Option.some.injEq] at h
      subst h
      simp
    | bad => simp [ht] at h
    | ok e rest =>
      simp only [ht] at h
      cases hr : iteratePass takeOptEntry f rest with
      | none => simp [hr] at h
      | some es' =>
        simp only [hr, Option.map_some, Option.some.injEq] at h
        subst h
        have := ih rest es' hr
        by_cases hs : e.serial = s
        · simp [hs]
        · simp only [if_neg hs, this]
          simp [hs]

/-- the list is the same whether read entry by entry or looked up: a serial is reported revoked
iff it is listed (arbitrary captured octets that iterate cleanly; no encoder involved) -/
theorem contains_iff_listed (b : Bytes) (es : List Entry) (h : entries b = some es) (s : Bytes) :
    contains b s = some true ↔ ∃ e ∈ es, e.serial = s :=
  containsLoop_iff_listed s b.length b es h

/-- … and the lookup's `unwrap()`s cannot fail there: it answers exactly membership -/
theorem contains_eq_listed (b : Bytes) (es : List Entry) (h : entries b = some es) (s : Bytes) :
    contains b s = some (decide (∃ e ∈ es, e.serial = s)) :=
  containsLoop_total s b.length b es h

/-- an accepted capture iterates cleanly, so after `take_from` succeeded `contains` cannot panic
and answers membership in what `iter` yields -/
theorem contains_after_capture (b : Bytes) (n : Nat) (h : capture b = some n) (s : Bytes) :
    ∃ es, entries b = some es ∧ es.length = n ∧
      contains b s = some (decide (∃ e ∈ es, e.serial = s)) := by
  obtain ⟨es, h1, h2, _⟩ := Der.capture_iterate_parity takeOptEntry (fun _ => true) b.length b 0 n h
  exact ⟨es, h1, by simpa using h2, contains_eq_listed b es h1 s⟩

/-! ### non-vacuity -/

example : ∃ es : List Entry, (∀ e ∈ es, EntryOk e) ∧ (encodeList es).length < 2 ^ 32 ∧ es.length = 2 := by
  refine ⟨[⟨List.replicate 19 0 ++ [128], ⟨2024, 2, 29, 23, 59, 59⟩⟩,
    ⟨List.replicate 19 0 ++ [7], ⟨2050, 1, 1, 0, 0, 0⟩⟩], ?_, by decide, rfl⟩
  intro e he
  simp only [List.mem_cons, List.mem_nil_iff, or_false] at he
  rcases he with h | h <;> subst h <;> refine ⟨⟨by decide, ?_, by decide⟩, by decide, by decide⟩ <;>
    (intro b hb; simp at hb; rcases hb with h | h <;> omega)

end Rpki.Crl
