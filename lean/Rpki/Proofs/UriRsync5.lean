import Rpki.Proofs.UriRsync4
namespace Rpki.Uri
open Rpki.Consts

theorem Rsync.bytes_split (u : Rsync) : u.bytes = u.bytes.take u.pathStart ++ u.path :=
  (List.take_append_drop _ _).symm

theorem Rsync.Inv.module_ends {u : Rsync} (h : u.Inv) :
    endsWithSlash (u.bytes.take u.pathStart) = true ∧ (u.bytes.take u.pathStart).length = u.pathStart := by
  obtain ⟨auth, md, path, hb, _, _, _, _, _, _, _, h1, h2, _, h8⟩ := h.parts
  have hl := h.ms_le.2.2
  refine ⟨?_, by simp; omega⟩
  have e : u.bytes = (u.bytes.take 8 ++ auth ++ [slash] ++ md ++ [slash]) ++ path := by
    conv => lhs; rw [hb]
    simp
  have hlen : (u.bytes.take 8 ++ auth ++ [slash] ++ md ++ [slash]).length = u.pathStart := by
    simp [h8]; omega
  rw [e, List.take_left' hlen]
  unfold endsWithSlash
  simp only [beq_iff_eq, decide_eq_true_eq]
  exact congrArg _ rfl |>.trans (by rw [List.getLast?_concat])

theorem endsWithSlash_append_of_ne {a b : Bytes} (hb : b ≠ []) : endsWithSlash (a ++ b) = endsWithSlash b := by
  unfold endsWithSlash
  rw [List.getLast?_append]
  cases h : b.getLast? with
  | none => simp [List.getLast?_eq_none_iff] at h; exact absurd h hb
  | some x => simp

theorem strip_decomp (op : Bytes) (hne : op ≠ []) :
    (endsWithSlash op = true → op = op.take (op.length - 1) ++ [slash]) := by
  intro h
  rcases List.eq_nil_or_concat op with e | ⟨q, c, e⟩
  · exact absurd e hne
  · rw [List.concat_eq_append] at e
    subst e
    simp [endsWithSlash] at h
    subst h
    simp

/-- Whenever `relative_to` reports a non-empty path, joining that path to the other URI gives back
(a URI equal to) the original. -/
theorem Rsync.relativeTo_join' (u o : Rsync) (hu : u.Inv) (ho : o.Inv) (p : Bytes)
    (h : u.relativeTo o = some p) (hp : p ≠ []) : ∃ v, o.join p = .ok v ∧ v.eq u = true := by
  have hflag : rsyncModuleCaseInsensitive = false := rfl
  unfold Rsync.relativeTo at h
  have hm : u.eqModule o = true := by
    by_cases hm : u.eqModule o = true
    · exact hm
    · simp [hm] at h
  simp only [hm, Bool.not_true, Bool.false_eq_true, if_false] at h
  unfold Rsync.eqModule at hm
  simp only [hflag, Bool.false_eq_true, if_false, Bool.and_eq_true, beq_iff_eq, eqIgnoreCase_iff] at hm
  obtain ⟨⟨⟨hps, hms⟩, hA⟩, hS⟩ := hm
  have hule := hu.ms_le
  have hole := ho.ms_le
  have ⟨hoend, holen⟩ := ho.module_ends
  -- decomposition of u.path relative to o.path
  have hdec : (o.path = [] ∧ p = u.path) ∨
      (∃ op', o.path ≠ [] ∧ op' = (if endsWithSlash o.path then o.path.take (o.path.length - 1) else o.path) ∧
        u.path = op' ++ slash :: p) := by
    by_cases hop : o.path = []
    · simp only [hop, if_true] at h
      injection h with h
      exact Or.inl ⟨hop, h.symm⟩
    · simp only [hop, if_false] at h
      right
      generalize hop' : (if endsWithSlash o.path = true then List.take (o.path.length - 1) o.path else o.path) = op' at h
      refine ⟨op', hop, rfl, ?_⟩
      have hsw : startsWith u.path op' = true := by
        by_cases hsw : startsWith u.path op' = true
        · exact hsw
        · simp [hsw] at h
      simp only [hsw, Bool.not_true, Bool.false_eq_true, if_false] at h
      by_cases hl : u.path.length = op'.length
      · simp only [hl, if_true] at h
        injection h with h; exact absurd h.symm hp
      · simp only [hl, if_false] at h
        by_cases hsl : u.path[op'.length]? = some slash
        · simp only [hsl, ne_eq, not_true_eq_false, if_false] at h
          injection h with h
          unfold startsWith at hsw
          simp only [beq_iff_eq] at hsw
          have hlt : op'.length < u.path.length := by
            rcases Nat.lt_or_ge op'.length u.path.length with h | h
            · exact h
            · rw [List.getElem?_eq_none h] at hsl; cases hsl
          have hd : u.path.drop op'.length = slash :: u.path.drop (op'.length + 1) := by
            rw [List.drop_eq_getElem_cons hlt]
            congr
            exact (List.getElem?_eq_some_iff.1 hsl).2
          have := List.take_append_drop op'.length u.path
          rw [hsw, hd, h] at this
          exact this.symm
        · simp [hsl] at h
  -- the path p is legal
  have hchars : checkUriAscii p = true := by
    have hc := hu.1
    unfold checkUriAscii at *
    rcases hdec with ⟨_, e⟩ | ⟨op', _, _, e⟩
    · rw [e]; exact all_drop _ hc
    · have : (u.path).all isUriAscii = true := all_drop _ hc
      rw [e, List.all_append] at this
      simp only [Bool.and_eq_true, List.all_cons] at this
      exact this.2.2
  obtain ⟨_, _, pth, _, _, _, hpa, _, _, _, _, _, _, hpp, _⟩ := hu.parts
  have hcheck : checkPath p = .ok () := by
    unfold checkPath
    rcases hdec with ⟨_, e⟩ | ⟨op', _, _, e⟩
    · rw [e, hpa]; exact hpp
    · rw [hpa] at e
      rw [e, split_append] at hpp
      exact (checkItems_append_ok _ _ (split_ne_nil _) hpp).2
  -- the joined bytes
  have hbase : (if endsWithSlash o.bytes = true then o.bytes else o.bytes ++ [slash]) ++ p
      = o.bytes.take o.pathStart ++ u.path := by
    rcases hdec with ⟨e1, e2⟩ | ⟨op', hne, hop', e⟩
    · have : o.bytes = o.bytes.take o.pathStart := by
        conv => lhs; rw [o.bytes_split, e1]
        simp
      have hob : endsWithSlash o.bytes = true := by rw [this]; exact hoend
      simp only [hob, if_true, e2]
      rw [← this]
    · by_cases hes : endsWithSlash o.path = true
      · have hob : endsWithSlash o.bytes = true := by
          rw [o.bytes_split, endsWithSlash_append_of_ne hne]; exact hes
        simp only [hob, if_true]
        simp only [hes, if_true] at hop'
        conv => lhs; rw [o.bytes_split, strip_decomp _ hne hes, ← hop']
        rw [e]; simp
      · have hob : ¬ endsWithSlash o.bytes = true := by
          rw [o.bytes_split, endsWithSlash_append_of_ne hne]; exact hes
        simp only [hob, if_false]
        simp only [hes, if_false, Bool.false_eq_true] at hop'
        conv => lhs; rw [o.bytes_split, ← hop']
        rw [e]; simp
  refine ⟨{ o with bytes := o.bytes.take o.pathStart ++ u.path }, ?_, ?_⟩
  · unfold Rsync.join
    simp only [hp, if_false, hchars, Bool.not_true, Bool.false_eq_true, hcheck]
    rw [hbase]
  · unfold Rsync.eq
    simp only
    have hl : ¬ (o.bytes.take o.pathStart ++ u.path).length ≠ u.bytes.length := by
      have : u.bytes.length = u.pathStart + u.path.length := by
        unfold Rsync.path; simp; omega
      simp only [List.length_append, holen, this, hps, ne_eq, Classical.not_not]
    simp only [hl, if_false, Bool.and_eq_true, eqIgnoreCase_iff, beq_iff_eq]
    rw [hms] at hA
    unfold slice at hS
    rw [hms, hps] at hS
    constructor
    · rw [List.take_append_of_le_length (by rw [holen]; omega), List.take_take,
        Nat.min_eq_left (by omega)]
      exact hA.symm
    · rw [List.drop_append_of_le_length (by rw [holen]; omega), ← hS]
      have hb := u.bytes_split
      rw [hps] at hb
      conv => rhs; rw [hb]
      rw [List.drop_append_of_le_length (by simp; omega)]

end Rpki.Uri
