/-
  The octets the mode-parametrized readers hand on are octets of their input (the BER counterparts of
  `AsDer.readTlv_sub` … `AsDer.takeCons_sub`, under the names the lemma converter of `tools/gen_ber_model.py` looks for).
-/
import Rpki.Gen.BerLemmas
namespace Rpki.AsDer
open Rpki.Der Rpki.CertDer

theorem mem_of_suffix {a b : Bytes} (h : a <:+ b) : ∀ x ∈ a, x ∈ b := by
  obtain ⟨p, hp⟩ := h
  intro x hx
  rw [← hp]
  exact List.mem_append_right _ hx

theorem readLenXM_sub (ber : Bool) (r : Bytes) (len : Len) (r' : Bytes) (h : readLenXM ber r = some (len, r')) :
    ∀ x ∈ r', x ∈ r :=
  mem_of_suffix (CertDer.readLenX_suffixM ber r len r' h).1

theorem indefBodyM_sub (ber : Bool) : ∀ (fuel : Nat) (cur c rest : Bytes), indefBodyM ber fuel cur = some (c, rest) →
    (∀ x ∈ c, x ∈ cur) ∧ (∀ x ∈ rest, x ∈ cur) := by
  intro fuel
  induction fuel with
  | zero => intro cur c rest h; simp [indefBodyM] at h
  | succ n ih =>
    intro cur c rest h
    unfold indefBodyM at h
    split at h
    · cases h
    · rename_i r
      split at h
      · rename_i r' hl
        injection h with h
        simp only [Prod.mk.injEq] at h
        obtain ⟨rfl, rfl⟩ := h
        exact ⟨(fun x hx => by cases hx), fun x hx => List.mem_cons_of_mem _ (readLenXM_sub ber r _ _ hl x hx)⟩
      · cases h
    · cases hs : skipOneM ber cur with
      | none => simp [hs] at h
      | some rest' =>
        simp only [hs] at h
        cases hb : indefBodyM ber n rest' with
        | none => simp [hb] at h
        | some q =>
          obtain ⟨c1, rest1⟩ := q
          simp only [hb, Option.map_some, Option.some.injEq, Prod.mk.injEq] at h
          obtain ⟨rfl, rfl⟩ := h
          obtain ⟨i1, i2⟩ := ih rest' c1 rest1 hb
          have hsuf := mem_of_suffix (CertDer.skipOne_suffixM ber cur rest' hs).1
          refine ⟨?_, fun x hx => hsuf x (i2 x hx)⟩
          intro x hx
          rcases List.mem_append.mp hx with h1 | h1
          · exact List.mem_of_mem_take h1
          · exact hsuf x (i1 x h1)

theorem readTlvIM_sub (ber : Bool) (b : Bytes) (t : Nat) (c rest : Bytes) (i : Bool)
    (h : readTlvIM ber b = some (t, c, rest, i)) : (∀ x ∈ c, x ∈ b) ∧ (∀ x ∈ rest, x ∈ b) := by
  unfold readTlvIM at h
  cases b with
  | nil => cases h
  | cons t0 r =>
    simp only at h
    split at h
    · cases h
    · cases hl : readLenXM ber r with
      | none => simp [hl] at h
      | some q =>
        obtain ⟨len, r'⟩ := q
        have hs := readLenXM_sub ber r len r' hl
        simp only [hl] at h
        cases len with
        | definite l =>
          simp only at h
          split at h
          · cases h
          · injection h with h
            simp only [Prod.mk.injEq] at h
            obtain ⟨_, rfl, rfl, _⟩ := h
            exact ⟨fun x hx => List.mem_cons_of_mem _ (hs x (List.mem_of_mem_take hx)),
              fun x hx => List.mem_cons_of_mem _ (hs x (List.mem_of_mem_drop hx))⟩
        | indefinite =>
          simp only at h
          split at h
          · cases h
          · cases hb : indefBodyM ber (r'.length + 1) r' with
            | none => simp [hb] at h
            | some q2 =>
              obtain ⟨c1, rest1⟩ := q2
              simp only [hb, Option.map_some, Option.some.injEq, Prod.mk.injEq] at h
              obtain ⟨_, rfl, rfl, _⟩ := h
              obtain ⟨i1, i2⟩ := indefBodyM_sub ber _ r' c1 rest1 hb
              exact ⟨fun x hx => List.mem_cons_of_mem _ (hs x (i1 x hx)),
                fun x hx => List.mem_cons_of_mem _ (hs x (i2 x hx))⟩

theorem readTlv_subM (ber : Bool) (b : Bytes) (t : Nat) (c rest : Bytes) (h : readTlvM ber b = some (t, c, rest)) :
    (∀ x ∈ c, x ∈ b) ∧ (∀ x ∈ rest, x ∈ b) := by
  unfold readTlvM at h
  cases hi : readTlvIM ber b with
  | none => simp [hi] at h
  | some q =>
    obtain ⟨t1, c1, r1, i⟩ := q
    simp only [hi, Option.map_some, Option.some.injEq, Prod.mk.injEq] at h
    obtain ⟨_, rfl, rfl⟩ := h
    exact readTlvIM_sub ber b t1 c1 r1 i hi

theorem octetLeavesM_sub (ber : Bool) : ∀ (fuel : Nat) (b v : Bytes), octetLeavesM ber fuel b = some v → ∀ x ∈ v, x ∈ b := by
  intro fuel
  induction fuel with
  | zero =>
    intro b v h
    simp only [octetLeavesM] at h
    split at h
    · injection h with h; subst h; intro x hx; cases hx
    · cases h
  | succ n ih =>
    intro b v h
    unfold octetLeavesM at h
    split at h
    · injection h with h; subst h; intro x hx; cases hx
    · rename_i t r
      split at h
      · cases h
      · split at h
        · cases h
        · cases hr : readTlvM ber (t :: r) with
          | none => simp [hr] at h
          | some q =>
            obtain ⟨t1, c, rest⟩ := q
            obtain ⟨s1, s2⟩ := readTlv_subM ber _ _ _ _ hr
            simp only [hr] at h
            split at h
            · rename_i a rr ha hrr
              injection h with h
              subst h
              intro x hx
              rcases List.mem_append.mp hx with h1 | h1
              · by_cases hc : isCons t = true
                · simp only [hc, if_true] at ha
                  exact s1 x (ih c a ha x h1)
                · simp only [hc, Bool.false_eq_true, if_false, Option.some.injEq] at ha
                  subst ha
                  exact s1 x h1
              · exact s2 x (ih rest rr hrr x h1)
            · cases h

theorem takeOptCons_subM (ber : Bool) (tag : Nat) (b c rest : Bytes) (h : takeOptConsM ber tag b = .ok c rest) :
    (∀ x ∈ c, x ∈ b) ∧ (∀ x ∈ rest, x ∈ b) := by
  unfold takeOptConsM at h
  cases hi : takeOptConsIM ber tag b with
  | absent => simp [hi] at h
  | bad => simp [hi] at h
  | ok ci r1 =>
    obtain ⟨c1, i⟩ := ci
    simp only [hi, Take.ok.injEq] at h
    obtain ⟨rfl, rfl⟩ := h
    unfold takeOptConsIM at hi
    cases b with
    | nil => cases hi
    | cons t0 r =>
      simp only at hi
      split at hi
      · cases hi
      · split at hi
        · cases hi
        · split at hi
          · cases hi
          · cases hr : readTlvIM ber (t0 :: r) with
            | none => simp [hr] at hi
            | some q =>
              obtain ⟨t1, c2, r2, i2⟩ := q
              simp only [hr, Take.ok.injEq, Prod.mk.injEq] at hi
              obtain ⟨⟨rfl, _⟩, rfl⟩ := hi
              exact readTlvIM_sub ber _ _ _ _ _ hr

theorem takeOptPrim_subM (ber : Bool) (tag : Nat) (b c rest : Bytes) (h : takeOptPrimM ber tag b = .ok c rest) :
    (∀ x ∈ c, x ∈ b) ∧ (∀ x ∈ rest, x ∈ b) := by
  unfold takeOptPrimM at h
  cases b with
  | nil => cases h
  | cons t0 r =>
    simp only at h
    split at h
    · cases h
    · split at h
      · cases h
      · cases hr : readTlvM ber (t0 :: r) with
        | none => simp [hr] at h
        | some q =>
          obtain ⟨t1, c1, r1⟩ := q
          obtain ⟨s1, s2⟩ := readTlv_subM ber _ _ _ _ hr
          simp only [hr] at h
          split at h
          · split at h
            · cases hl : octetLeavesM ber c1.length c1 with
              | none => simp [hl] at h
              | some v =>
                simp only [hl, Take.ok.injEq] at h
                obtain ⟨rfl, rfl⟩ := h
                exact ⟨fun x hx => s1 x (octetLeavesM_sub ber _ c1 v hl x hx), s2⟩
            · cases h
          · simp only [Take.ok.injEq] at h
            obtain ⟨rfl, rfl⟩ := h
            exact ⟨s1, s2⟩

theorem takePrim_subM (ber : Bool) (tag : Nat) (b c rest : Bytes) (h : takePrimM ber tag b = some (c, rest)) :
    (∀ x ∈ c, x ∈ b) ∧ (∀ x ∈ rest, x ∈ b) := by
  unfold takePrimM at h
  cases ht : takeOptPrimM ber tag b with
  | absent => simp only [ht] at h; cases h
  | bad => simp only [ht] at h; cases h
  | ok c' r' =>
    simp only [ht, Option.some.injEq, Prod.mk.injEq] at h
    obtain ⟨h1, h2⟩ := h
    subst h1; subst h2
    exact takeOptPrim_subM ber tag b _ _ ht

theorem takeCons_subM (ber : Bool) (tag : Nat) (b c rest : Bytes) (h : takeConsM ber tag b = some (c, rest)) :
    (∀ x ∈ c, x ∈ b) ∧ (∀ x ∈ rest, x ∈ b) := by
  unfold takeConsM at h
  cases ht : takeOptConsM ber tag b with
  | absent => simp only [ht] at h; cases h
  | bad => simp only [ht] at h; cases h
  | ok c' r' =>
    simp only [ht, Option.some.injEq, Prod.mk.injEq] at h
    obtain ⟨h1, h2⟩ := h
    subst h1; subst h2
    exact takeOptCons_subM ber tag b _ _ ht

end Rpki.AsDer

namespace Rpki.CertDer
open Rpki.Der

theorem takeOptBool_subM (ber : Bool) (b : Bytes) (x : Bool) (r : Bytes) (h : takeOptBoolM ber b = .ok x r) :
    ∀ y ∈ r, y ∈ b := by
  unfold takeOptBoolM at h
  cases hp : takeOptPrimM ber tagBool b with
  | absent => simp [hp] at h
  | bad => simp [hp] at h
  | ok c rr =>
    have hs := (AsDer.takeOptPrim_subM ber _ _ _ _ hp).2
    simp only [hp] at h
    split at h
    · repeat' split at h
      all_goals first
        | (cases h; done)
        | (injection h with _ h2; subst h2; exact hs)
    · cases h

end Rpki.CertDer
