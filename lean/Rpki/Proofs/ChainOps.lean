import Rpki.Proofs.ChainEnc
import Rpki.Proofs.ChainTrim
import Rpki.Proofs.ChainDiff
import Rpki.Proofs.ChainFromIter
namespace Rpki.Chain
open Rpki.Consts

theorem canon_wf {M : Nat} {c : List Blk} (h : Canon M c) : ∀ b ∈ c, b.lo ≤ b.hi ∧ b.hi ≤ M := h.1

theorem mem_append_iff (a b : List Blk) (x : Nat) : mem (a ++ b) x ↔ mem a x ∨ mem b x := by
  unfold mem
  constructor
  · rintro ⟨y, hy, h⟩
    rcases List.mem_append.1 hy with e | e
    · exact Or.inl ⟨y, e, h⟩
    · exact Or.inr ⟨y, e, h⟩
  · rintro (⟨y, hy, h⟩ | ⟨y, hy, h⟩)
    · exact ⟨y, List.mem_append_left _ hy, h⟩
    · exact ⟨y, List.mem_append_right _ hy, h⟩

/-- union (collecting both chains) is canonical and denotes the union -/
theorem union_spec' (M : Nat) (a b : List Blk) (ha : Canon M a) (hb : Canon M b) :
    Canon M (union M a b) ∧ ∀ x, mem (union M a b) x ↔ (mem a x ∨ mem b x) := by
  unfold union
  have hw : ∀ y ∈ a ++ b, y.lo ≤ y.hi ∧ y.hi ≤ M := by
    intro y hy
    rcases List.mem_append.1 hy with e | e
    · exact ha.1 y e
    · exact hb.1 y e
  have ⟨h1, h2⟩ := fromIter_spec' M (a ++ b) hw
  refine ⟨h1, ?_⟩
  intro x
  rw [h2]
  exact mem_append_iff a b x

/-- intersection (`trim`, falling back to the chain itself) is canonical and denotes the intersection -/
theorem inter_spec' (M : Nat) (a b : List Blk) (ha : Canon M a) (hb : Canon M b) :
    Canon M (inter M a b) ∧ ∀ x, mem (inter M a b) x ↔ (mem a x ∧ mem b x) := by
  unfold inter
  have h := trim_spec' M a b ha hb
  cases ht : trim M a b with
  | ok u =>
    rw [ht] at h
    simp only at h ⊢
    exact ⟨ha, fun x => ⟨fun hx => ⟨hx, h x hx⟩, fun hx => hx.1⟩⟩
  | error r =>
    rw [ht] at h
    exact h

/-- `verify_issued`: every outcome is a subset of the issuer's set — exactly the claim when it is
covered under the refuse policy (and an error when it is not), the intersection under the trimming
policy, the issuer's own set for `inherit`, nothing for `missing`. -/
theorem verifyIssued_spec' (M : Nat) (issuer : List Blk) (hi : Canon M issuer) (claim : Claim) (trimMode : Bool)
    (hc : ∀ c, claim = .blocks c → Canon M c) :
    match verifyIssued M issuer claim trimMode with
    | some r =>
      Canon M r ∧ (∀ x, mem r x → mem issuer x) ∧
      (match claim with
       | .missing => r = []
       | .inherit => r = issuer
       | .blocks c => if trimMode then ∀ x, mem r x ↔ (mem c x ∧ mem issuer x)
                      else r = c ∧ ∀ x, mem c x → mem issuer x)
    | none => ∃ c, claim = .blocks c ∧ trimMode = false ∧ ¬ ∀ x, mem c x → mem issuer x := by
  cases claim with
  | missing => simp [verifyIssued, canon_nil, mem_nil]
  | inherit => simp [verifyIssued, hi]
  | blocks c =>
    have hcc := hc c rfl
    unfold verifyIssued
    cases trimMode with
    | true =>
      simp only [if_true]
      have ⟨h1, h2⟩ := inter_spec' M c issuer hcc hi
      unfold inter at h1 h2
      exact ⟨h1, fun x hx => ((h2 x).1 hx).2, h2⟩
    | false =>
      simp only [Bool.false_eq_true, if_false]
      have he := isEncompassed_iff' M c issuer hcc hi
      by_cases h : isEncompassed c issuer = true
      · rw [if_pos h]
        exact ⟨hcc, he.1 h, rfl, he.1 h⟩
      · rw [if_neg h]
        exact ⟨c, rfl, trivial, fun hx => h (he.2 hx)⟩

/-! ### single blocks against a chain -/

/-- in a canonical chain an interval whose every item is in the set lies inside one block -/
theorem interval_in_one_block (M : Nat) : ∀ (c : List Blk), Canon M c → ∀ (lo hi : Nat), lo ≤ hi →
    (∀ x, lo ≤ x → x ≤ hi → mem c x) → ∃ r ∈ c, r.lo ≤ lo ∧ hi ≤ r.hi := by
  intro c
  induction c with
  | nil => intro _ lo hi h hx; exact absurd (hx lo (Nat.le_refl _) h) (mem_nil lo)
  | cons b bs ih =>
    intro hc lo hi hle hx
    obtain ⟨h1, h2, h3⟩ := canon_cons.1 hc
    have hlo := hx lo (Nat.le_refl _) hle
    rcases mem_cons.1 hlo with hb | hb
    · -- lo is in the head block: then hi must be as well, else hi.. b.hi+1 is a gap element
      by_cases hhi : hi ≤ b.hi
      · exact ⟨b, by simp, hb.1, hhi⟩
      · exfalso
        have hg := hx (b.hi + 1) (by omega) (by omega)
        rcases mem_cons.1 hg with e | e
        · omega
        · have := canon_tail_above hc e; omega
    · -- lo is in the tail: everything is above the head block
      have hab := canon_tail_above hc hb
      have : ∀ x, lo ≤ x → x ≤ hi → mem bs x := by
        intro x h1' h2'
        rcases mem_cons.1 (hx x h1' h2') with e | e
        · omega
        · exact e
      obtain ⟨r, hr, hr2⟩ := ih h3 lo hi hle this
      exact ⟨r, by simp [hr], hr2⟩

theorem containsBlock_iff' (M : Nat) (c : List Blk) (hc : Canon M c) (b : Blk) (hb : b.lo ≤ b.hi) :
    containsBlock c b = true ↔ ∀ x, b.lo ≤ x → x ≤ b.hi → mem c x := by
  unfold containsBlock
  rw [List.any_eq_true]
  constructor
  · rintro ⟨r, hr, h⟩ x h1 h2
    simp only [Bool.and_eq_true, decide_eq_true_eq] at h
    exact ⟨r, hr, by omega, by omega⟩
  · intro h
    obtain ⟨r, hr, h1, h2⟩ := interval_in_one_block M c hc b.lo b.hi hb h
    exact ⟨r, hr, by simp [h1, h2]⟩

theorem intersectsBlock_iff' (c : List Blk) (hc : ∀ r ∈ c, r.lo ≤ r.hi) (b : Blk) (hb : b.lo ≤ b.hi) :
    intersectsBlock c b = true ↔ ∃ x, b.lo ≤ x ∧ x ≤ b.hi ∧ mem c x := by
  unfold intersectsBlock intersects
  rw [List.any_eq_true]
  constructor
  · rintro ⟨r, hr, h⟩
    simp only [Bool.and_eq_true, decide_eq_true_eq] at h
    have := hc r hr
    exact ⟨max r.lo b.lo, by omega, by omega, r, hr, by omega, by omega⟩
  · rintro ⟨x, h1, h2, r, hr, h3, h4⟩
    exact ⟨r, hr, by simp; omega⟩

/-! ### counting -/

def total (c : List Blk) : Nat := (c.map fun b => b.hi - b.lo + 1).foldl (· + ·) 0

theorem saturates : asnCountSaturates = true := rfl

theorem foldl_add_shift (l : List Nat) (a : Nat) : l.foldl (· + ·) a = a + l.foldl (· + ·) 0 := by
  induction l generalizing a with
  | nil => simp
  | cons x xs ih => simp only [List.foldl_cons]; rw [ih (a + x), ih (0 + x)]; omega

/-- `asn_count` never fails and, when the number of ASNs fits 32 bits, is exactly the sum of the
block sizes (the cardinality of the set, blocks being disjoint); otherwise it saturates. -/
theorem asnCount_spec' (c : List Blk) : asnCount c = some (min 4294967295 (total c)) := by
  unfold asnCount
  rw [if_pos saturates]
  congr 1
  unfold total
  suffices h : ∀ (l : List Blk) (acc : Nat), acc ≤ 4294967295 →
      l.foldl (fun acc b => min 4294967295 (acc + min 4294967295 (b.hi - b.lo + 1))) acc
        = min 4294967295 (acc + (l.map fun b => b.hi - b.lo + 1).foldl (· + ·) 0) by
    have := h c 0 (by omega); simpa using this
  intro l
  induction l with
  | nil => intro acc h; simp; omega
  | cons b bs ih =>
    intro acc h
    simp only [List.foldl_cons, List.map_cons]
    rw [ih _ (Nat.min_le_left _ _), foldl_add_shift _ (0 + (b.hi - b.lo + 1))]
    omega

/-! ### ranges and prefixes -/

/-- if `into_prefix` reports a prefix length, the range is exactly that aligned block -/
theorem intoPrefix_sound (W lo hi len : Nat) (h : intoPrefix W lo hi = some len) :
    lo % 2 ^ (W - len) = 0 ∧ hi = lo + 2 ^ (W - len) - 1 := by
  unfold intoPrefix at h
  simp only at h
  have hp : 0 < 2 ^ (W - leadingZeros W (Nat.xor lo hi)) := Nat.pow_pos (by decide)
  generalize hs : 2 ^ (W - leadingZeros W (Nat.xor lo hi)) = sz at h hp
  split at h
  · rename_i hc
    injection h with h; subst h
    rw [hs]
    have h1 := Nat.div_add_mod lo sz
    rw [Nat.mul_comm] at h1
    omega
  · cases h

theorem trailingZerosAux_dvd : ∀ (f x : Nat), x % 2 ^ trailingZerosAux f x = 0 := by
  intro f
  induction f with
  | zero => intro x; simp [trailingZerosAux, Nat.mod_one]
  | succ f ih =>
    intro x
    rw [trailingZerosAux]
    by_cases h : x % 2 = 1
    · simp [h, Nat.mod_one]
    · rw [if_neg h]
      have hd : 2 ^ trailingZerosAux f (x / 2) ∣ x / 2 := Nat.dvd_of_mod_eq_zero (ih (x / 2))
      obtain ⟨q, hq⟩ := hd
      apply Nat.mod_eq_zero_of_dvd
      refine ⟨q, ?_⟩
      have hx : x = 2 * (x / 2) := by omega
      rw [Nat.add_comm, Nat.pow_succ]
      calc x = 2 * (x / 2) := hx
        _ = 2 * (2 ^ trailingZerosAux f (x / 2) * q) := by rw [← hq]
        _ = 2 ^ trailingZerosAux f (x / 2) * 2 * q := by
            rw [Nat.mul_comm (2 ^ _) 2, Nat.mul_assoc]

theorem trailingZeros_dvd (W x : Nat) (hx : x < 2 ^ W) : x % 2 ^ trailingZeros W x = 0 := by
  unfold trailingZeros
  by_cases h : x = 0
  · simp [h]
  · rw [if_neg h]; exact trailingZerosAux_dvd W x

end Rpki.Chain
