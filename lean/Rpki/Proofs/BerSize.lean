/-
  Sizes.  What a reader hands on is shorter than what it was given, in either mode: content and rest together are at
  least two octets (identifier and length) shorter than the input.  Consequences: every loop over the values of a
  content (`foldCons`, `foldPrim` and their mode-parametrized forms) ends before its fuel does, so the fuel argument
  of the model — which the implementation does not have — never decides a verdict.
-/
import Rpki.Proofs.BerSub
namespace Rpki.AsDer
open Rpki.Der Rpki.CertDer

theorem indefBodyM_size (ber : Bool) : ∀ (fuel : Nat) (cur c rest : Bytes), indefBodyM ber fuel cur = some (c, rest) →
    c.length + rest.length + 2 ≤ cur.length := by
  intro fuel
  induction fuel with
  | zero => intro cur c rest h; simp [indefBodyM] at h
  | succ n ih =>
    intro cur c rest h
    unfold indefBodyM at h
    split at h
    · cases h
    · rename_i r
      split at h
      · rename_i r' hl
        injection h with h
        simp only [Prod.mk.injEq] at h
        obtain ⟨rfl, rfl⟩ := h
        have := (CertDer.readLenX_suffixM ber r _ _ hl).2
        simp only [List.length_nil, List.length_cons]
        omega
      · cases h
    · cases hs : skipOneM ber cur with
      | none => simp [hs] at h
      | some rest' =>
        simp only [hs] at h
        cases hb : indefBodyM ber n rest' with
        | none => simp [hb] at h
        | some q =>
          obtain ⟨c', rest2⟩ := q
          simp only [hb, Option.map_some, Option.some.injEq, Prod.mk.injEq] at h
          obtain ⟨rfl, rfl⟩ := h
          have h1 := ih rest' _ _ hb
          have h2 := (CertDer.skipOne_suffixM ber cur rest' hs).2
          simp only [List.length_append, List.length_take]
          omega

theorem readTlvIM_size (ber : Bool) (b : Bytes) (t : Nat) (c rest : Bytes) (i : Bool)
    (h : readTlvIM ber b = some (t, c, rest, i)) : c.length + rest.length + 2 ≤ b.length := by
  unfold readTlvIM at h
  cases b with
  | nil => cases h
  | cons t0 r =>
    simp only at h
    split at h
    · cases h
    · cases hl : readLenXM ber r with
      | none => simp [hl] at h
      | some q =>
        obtain ⟨len, r'⟩ := q
        have hs := (CertDer.readLenX_suffixM ber r len r' hl).2
        simp only [hl] at h
        cases len with
        | definite l =>
          simp only at h
          split at h
          · cases h
          · injection h with h
            simp only [Prod.mk.injEq] at h
            obtain ⟨_, rfl, rfl, _⟩ := h
            simp only [List.length_take, List.length_drop, List.length_cons]
            omega
        | indefinite =>
          simp only at h
          split at h
          · cases h
          · cases hb : indefBodyM ber (r'.length + 1) r' with
            | none => simp [hb] at h
            | some q2 =>
              obtain ⟨c1, rest1⟩ := q2
              simp only [hb, Option.map_some, Option.some.injEq, Prod.mk.injEq] at h
              obtain ⟨_, rfl, rfl, _⟩ := h
              have := indefBodyM_size ber _ r' _ _ hb
              simp only [List.length_cons]
              omega

theorem readTlvM_size (ber : Bool) (b : Bytes) (t : Nat) (c rest : Bytes) (h : readTlvM ber b = some (t, c, rest)) :
    c.length + rest.length + 2 ≤ b.length := by
  unfold readTlvM at h
  cases hi : readTlvIM ber b with
  | none => simp [hi] at h
  | some q =>
    obtain ⟨t1, c1, r1, i⟩ := q
    simp only [hi, Option.map_some, Option.some.injEq, Prod.mk.injEq] at h
    obtain ⟨_, rfl, rfl⟩ := h
    exact readTlvIM_size ber b t1 _ r1 i hi

theorem octetLeavesM_size (ber : Bool) : ∀ (fuel : Nat) (b v : Bytes), octetLeavesM ber fuel b = some v →
    v.length ≤ b.length := by
  intro fuel
  induction fuel with
  | zero =>
    intro b v h
    unfold octetLeavesM at h
    split at h
    · injection h with h; subst h; simp
    · cases h
  | succ n ih =>
    intro b v h
    unfold octetLeavesM at h
    split at h
    · injection h with h; subst h; simp
    · rename_i t0 r
      split at h
      · cases h
      · split at h
        · cases h
        · cases hr : readTlvM ber (t0 :: r) with
          | none => simp [hr] at h
          | some q =>
            obtain ⟨t1, c1, r1⟩ := q
            have hs := readTlvM_size ber _ _ _ _ hr
            simp only [hr] at h
            split at h
            · rename_i a r2 ha hr2
              injection h with h; subst h
              have e2 := ih r1 r2 hr2
              have e1 : a.length ≤ c1.length := by
                split at ha
                · exact ih c1 a ha
                · injection ha with ha; subst ha; exact Nat.le_refl _
              simp only [List.length_append]
              omega
            · cases h

theorem takeOptConsM_size (ber : Bool) (tag : Nat) (b c rest : Bytes) (h : takeOptConsM ber tag b = .ok c rest) :
    c.length + rest.length + 2 ≤ b.length := by
  unfold takeOptConsM at h
  cases hi : takeOptConsIM ber tag b with
  | absent => simp [hi] at h
  | bad => simp [hi] at h
  | ok ci r1 =>
    obtain ⟨c1, i⟩ := ci
    simp only [hi, Take.ok.injEq] at h
    obtain ⟨rfl, rfl⟩ := h
    unfold takeOptConsIM at hi
    cases b with
    | nil => cases hi
    | cons t0 r =>
      simp only at hi
      split at hi
      · cases hi
      · split at hi
        · cases hi
        · split at hi
          · cases hi
          · cases hr : readTlvIM ber (t0 :: r) with
            | none => simp [hr] at hi
            | some q =>
              obtain ⟨t1, c2, r2, i2⟩ := q
              simp only [hr, Take.ok.injEq, Prod.mk.injEq] at hi
              obtain ⟨⟨rfl, _⟩, rfl⟩ := hi
              exact readTlvIM_size ber _ _ _ _ _ hr

theorem takeOptPrimM_size (ber : Bool) (tag : Nat) (b c rest : Bytes) (h : takeOptPrimM ber tag b = .ok c rest) :
    c.length + rest.length + 2 ≤ b.length := by
  unfold takeOptPrimM at h
  cases b with
  | nil => cases h
  | cons t0 r =>
    simp only at h
    split at h
    · cases h
    · split at h
      · cases h
      · cases hr : readTlvM ber (t0 :: r) with
        | none => simp [hr] at h
        | some q =>
          obtain ⟨t1, c1, r1⟩ := q
          have hs := readTlvM_size ber _ _ _ _ hr
          simp only [hr] at h
          split at h
          · split at h
            · cases hl : octetLeavesM ber c1.length c1 with
              | none => simp [hl] at h
              | some v =>
                simp only [hl, Take.ok.injEq] at h
                obtain ⟨rfl, rfl⟩ := h
                have := octetLeavesM_size ber _ c1 _ hl
                omega
            · cases h
          · simp only [Take.ok.injEq] at h
            obtain ⟨rfl, rfl⟩ := h
            exact hs

end Rpki.AsDer

namespace Rpki.CertDer
open Rpki.Der Rpki.AsDer

/-- the loops over a content never use up their fuel: any two fuels above the length give the same result -/
theorem foldConsM_fuel (ber : Bool) {σ : Type} (tag : Nat) (f : σ → Bytes → Option σ) :
    ∀ (k1 k2 : Nat) (b : Bytes) (s : σ), b.length < k1 → b.length < k2 →
      foldConsM ber tag f k1 b s = foldConsM ber tag f k2 b s := by
  intro k1
  induction k1 with
  | zero => intro k2 b s h; omega
  | succ n ih =>
    intro k2 b s h1 h2
    cases k2 with
    | zero => omega
    | succ m =>
      unfold foldConsM
      cases ht : takeOptConsM ber tag b with
      | absent => rfl
      | bad => rfl
      | ok c rest =>
        have := takeOptConsM_size ber tag b c rest ht
        simp only
        cases f s c with
        | none => rfl
        | some s' => exact ih m rest s' (by omega) (by omega)

theorem foldPrimM_fuel (ber : Bool) {σ : Type} (tag : Nat) (f : σ → Bytes → Option σ) :
    ∀ (k1 k2 : Nat) (b : Bytes) (s : σ), b.length < k1 → b.length < k2 →
      foldPrimM ber tag f k1 b s = foldPrimM ber tag f k2 b s := by
  intro k1
  induction k1 with
  | zero => intro k2 b s h; omega
  | succ n ih =>
    intro k2 b s h1 h2
    cases k2 with
    | zero => omega
    | succ m =>
      unfold foldPrimM
      cases ht : takeOptPrimM ber tag b with
      | absent => rfl
      | bad => rfl
      | ok c rest =>
        have := takeOptPrimM_size ber tag b c rest ht
        simp only
        cases f s c with
        | none => rfl
        | some s' => exact ih m rest s' (by omega) (by omega)

/-- … and a loop that ends with `some` consumed its whole input: with less fuel than values it would have stopped
with octets left and failed — the fuel never turns a rejection into an acceptance or the reverse -/
theorem foldConsM_fuel_free (ber : Bool) {σ : Type} (tag : Nat) (f : σ → Bytes → Option σ) (b : Bytes) (s : σ) (k : Nat) :
    foldConsM ber tag f (b.length + 1 + k) b s = foldConsM ber tag f (b.length + 1) b s :=
  foldConsM_fuel ber tag f _ _ b s (by omega) (by omega)

theorem foldPrimM_fuel_free (ber : Bool) {σ : Type} (tag : Nat) (f : σ → Bytes → Option σ) (b : Bytes) (s : σ) (k : Nat) :
    foldPrimM ber tag f (b.length + 1 + k) b s = foldPrimM ber tag f (b.length + 1) b s :=
  foldPrimM_fuel ber tag f _ _ b s (by omega) (by omega)

theorem indefBodyM_fuel (ber : Bool) : ∀ (k1 k2 : Nat) (cur : Bytes), cur.length < k1 → cur.length < k2 →
    indefBodyM ber k1 cur = indefBodyM ber k2 cur := by
  intro k1
  induction k1 with
  | zero => intro k2 cur h; omega
  | succ n ih =>
    intro k2 cur h1 h2
    cases k2 with
    | zero => omega
    | succ m =>
      unfold indefBodyM
      split
      · rfl
      · rfl
      · cases hs : skipOneM ber cur with
        | none => rfl
        | some rest' =>
          have := (skipOne_suffixM ber cur rest' hs).2
          simp only
          rw [ih m rest' (by omega) (by omega)]

theorem octetLeavesM_fuel (ber : Bool) : ∀ (k1 k2 : Nat) (b : Bytes), b.length ≤ k1 → b.length ≤ k2 →
    octetLeavesM ber k1 b = octetLeavesM ber k2 b := by
  have base : ∀ (k : Nat), octetLeavesM ber k [] = some [] := by
    intro k; cases k <;> rfl
  intro k1
  induction k1 with
  | zero =>
    intro k2 b h1 _
    have : b = [] := List.eq_nil_of_length_eq_zero (by omega)
    subst this; rw [base, base]
  | succ n ih =>
    intro k2 b h1 h2
    cases k2 with
    | zero =>
      have : b = [] := List.eq_nil_of_length_eq_zero (by omega)
      subst this; rw [base, base]
    | succ m =>
      unfold octetLeavesM
      split
      · rfl
      · rename_i t0 r
        split
        · rfl
        · split
          · rfl
          · cases hr : readTlvM ber (t0 :: r) with
            | none => rfl
            | some q =>
              obtain ⟨t1, c1, r1⟩ := q
              have hs := AsDer.readTlvM_size ber _ _ _ _ hr
              simp only
              rw [ih m c1 (by omega) (by omega), ih m r1 (by omega) (by omega)]

theorem skipAllM_fuel (ber : Bool) : ∀ (k1 k2 : Nat) (b : Bytes), b.length ≤ k1 → b.length ≤ k2 →
    skipAllM ber k1 b = skipAllM ber k2 b := by
  have base : ∀ (k : Nat), skipAllM ber k [] = true := by
    intro k; cases k <;> simp [skipAllM]
  intro k1
  induction k1 with
  | zero =>
    intro k2 b h1 _
    have : b = [] := List.eq_nil_of_length_eq_zero (by omega)
    subst this; rw [base, base]
  | succ n ih =>
    intro k2 b h1 h2
    cases k2 with
    | zero =>
      have : b = [] := List.eq_nil_of_length_eq_zero (by omega)
      subst this; rw [base, base]
    | succ m =>
      unfold skipAllM
      split
      · rfl
      · cases hs : skipOneM ber b with
        | none => rfl
        | some rest =>
          have := (skipOne_suffixM ber b rest hs).2
          exact ih m rest (by omega) (by omega)

end Rpki.CertDer
