/-
  The whole certificate: `Cert::take_from` reads back what `Cert::to_captured` (= `SignedData::encode_ref`
  around `TbsCert::encode_ref`) writes.  The skip machine (`capture_one`) accepts the to-be-signed part
  because it is a well-formed forest.
-/
import Rpki.Proofs.CertEncLemmas
import Rpki.Proofs.SkipAccept
namespace Rpki.CertEnc
open Rpki.Der Rpki.CertDer Rpki.Chain Rpki.Consts

theorem forest_append {a b : Bytes} (ha : Forest a) (hb : Forest b) : Forest (a ++ b) := by
  induction ha with
  | nil => simpa using hb
  | prim t c rest ht hp h0 _ ih => rw [List.append_assoc]; exact Forest.prim t c _ ht hp h0 ih
  | cons t c rest ht hp hc _ _ ih => rw [List.append_assoc]; exact Forest.cons t c _ ht hp hc ih

theorem forest_prim1 (t : Nat) (c : Bytes) (ht : t % 32 ≠ 31) (hp : isCons t = false) (h0 : t ≠ 0) :
    Forest (tlv t c) := by
  have := Forest.prim t c [] ht hp h0 Forest.nil
  rwa [List.append_nil] at this

theorem forest_cons1 (t : Nat) (c : Bytes) (ht : t % 32 ≠ 31) (hp : isCons t = true) (hc : Forest c) :
    Forest (tlv t c) := by
  have := Forest.cons t c [] ht hp hc Forest.nil
  rwa [List.append_nil] at this

theorem forest_extBody (oid : Bytes) (crit : Bool) (v : Bytes) : Forest (extBody oid crit v) := by
  unfold extBody
  refine forest_append (forest_append (forest_prim1 tagOid oid (by decide) (by decide) (by decide)) ?_)
    (forest_prim1 tagOctetString v (by decide) (by decide) (by decide))
  cases crit with
  | true => exact forest_prim1 tagBool [255] (by decide) (by decide) (by decide)
  | false => exact Forest.nil

theorem forest_seqs (items : List Bytes) (h : ∀ x ∈ items, Forest x) : Forest (seqs items) := by
  induction items with
  | nil => exact Forest.nil
  | cons x xs ih =>
    unfold seqs
    rw [List.map_cons, List.flatten_cons]
    exact Forest.cons tagSeq x _ (by decide) (by decide) (h x (List.mem_cons_self ..))
      (ih (fun y hy => h y (List.mem_cons_of_mem _ hy)))

/-- every item `encode_ref` writes is the body of an extension -/
theorem extItems_forest (d : Decoded) : ∀ x ∈ extItems d, Forest x := by
  intro x hx
  unfold extItems at hx
  simp only [List.mem_append, List.mem_cons, List.mem_nil_iff, or_false, Option.mem_toList, Option.map_eq_some_iff,
    List.mem_ite_nil_right, List.mem_singleton] at hx
  rcases hx with ((((((((((⟨a, _, rfl⟩ | rfl) | ⟨a, _, rfl⟩) | rfl) | ⟨a, _, rfl⟩) | ⟨a, _, rfl⟩) | ⟨a, _, rfl⟩) |
      ⟨_, rfl⟩) | rfl) | ⟨_, rfl⟩) | ⟨_, rfl⟩)
  all_goals first
    | exact forest_extBody _ _ _
    | (unfold bcBody; exact forest_extBody _ _ _)
    | (unfold skiBody; exact forest_extBody _ _ _)
    | (unfold akiBody; exact forest_extBody _ _ _)
    | (unfold kuBody; exact forest_extBody _ _ _)
    | (unfold ekuBody; exact forest_extBody _ _ _)
    | (unfold crlBody; exact forest_extBody _ _ _)
    | (unfold aiaBody; exact forest_extBody _ _ _)
    | (unfold siaBody; exact forest_extBody _ _ _)
    | (unfold cpBody; exact forest_extBody _ _ _)
    | (unfold ipBody; exact forest_extBody _ _ _)
    | (unfold asBody; exact forest_extBody _ _ _)

theorem forest_timeTlv (c : X509.Civil) : Forest (timeTlv c) := by
  rw [timeTlv_eq]
  unfold Crl.timeTag
  cases (X509.encodeVaried c).1
  · exact forest_prim1 tagUtcTime _ (by decide) (by decide) (by decide)
  · exact forest_prim1 tagGenTime _ (by decide) (by decide) (by decide)

theorem forest_sigAlg : Forest sigAlgEnc := by
  unfold sigAlgEnc
  exact forest_cons1 tagSeq _ (by decide) (by decide)
    (forest_append (forest_prim1 tagOid _ (by decide) (by decide) (by decide))
      (forest_prim1 tagNull [] (by decide) (by decide) (by decide)))

theorem forest_publicKey (alg : KeyAlg) (u : Nat) (bits : Bytes) : Forest (publicKeyEnc alg u bits) := by
  unfold publicKeyEnc
  refine forest_cons1 tagSeq _ (by decide) (by decide) (forest_append ?_
    (forest_prim1 tagBitString _ (by decide) (by decide) (by decide)))
  cases alg with
  | rsa =>
    exact forest_cons1 tagSeq _ (by decide) (by decide)
      (forest_append (forest_prim1 tagOid _ (by decide) (by decide) (by decide))
        (forest_prim1 tagNull [] (by decide) (by decide) (by decide)))
  | ecP256 =>
    exact forest_cons1 tagSeq _ (by decide) (by decide)
      (forest_append (forest_prim1 tagOid _ (by decide) (by decide) (by decide))
        (forest_prim1 tagOid _ (by decide) (by decide) (by decide)))

/-- the to-be-signed part is one constructed value whose content is a forest -/
theorem encodeTbs_forest (d : Decoded) (hi : Forest d.issuer) (hs : Forest d.subject) :
    ∃ body, encodeTbs d = tlv tagSeq body ∧ Forest body := by
  refine ⟨_, rfl, ?_⟩
  refine forest_append (forest_append (forest_append (forest_append (forest_append (forest_append (forest_append ?_ ?_) ?_) ?_) ?_) ?_) ?_) ?_
  · exact forest_cons1 0xA0 _ (by decide) (by decide) (forest_prim1 tagInt [2] (by decide) (by decide) (by decide))
  · exact forest_prim1 tagInt _ (by decide) (by decide) (by decide)
  · exact forest_sigAlg
  · exact hi
  · exact forest_cons1 tagSeq _ (by decide) (by decide) (forest_append (forest_timeTlv _) (forest_timeTlv _))
  · exact hs
  · exact forest_publicKey _ _ _
  · exact forest_cons1 0xA3 _ (by decide) (by decide)
      (forest_cons1 tagSeq _ (by decide) (by decide) (forest_seqs _ (extItems_forest d)))

/-- **`Cert::take_from` reads back what `Cert::to_captured` writes**: for every certificate in the profile
whose names are well-formed values, every field and the signature come back and what follows the certificate
is left untouched. -/
theorem takeCert_encodeCert (d : Decoded) (h : WF d) (hi : Forest d.issuer) (hs : Forest d.subject)
    (signature rest : Bytes) :
    takeCert (encodeCert d signature ++ rest) = some (readBack d true signature, rest) := by
  obtain ⟨body, hb, hf⟩ := encodeTbs_forest d hi hs
  unfold takeCert certBody encodeCert
  rw [AsDer.takeCons_tlv' tagSeq _ rest (by decide) (by decide)]
  dsimp only
  have hne : encodeTbs d ++ sigAlgEnc ++ tlv tagBitString (0 :: signature) ≠ [] := by
    rw [hb]; simp [tlv]
  simp only [hne, if_false]
  have hskip : skipOne (encodeTbs d ++ sigAlgEnc ++ tlv tagBitString (0 :: signature)) =
      some (sigAlgEnc ++ tlv tagBitString (0 :: signature)) := by
    rw [List.append_assoc, hb]
    exact skipOne_cons tagSeq body _ (by decide) (by decide) hf
  rw [hskip]
  dsimp only
  have hraw : List.take ((encodeTbs d ++ sigAlgEnc ++ tlv tagBitString (0 :: signature)).length -
      (sigAlgEnc ++ tlv tagBitString (0 :: signature)).length)
      (encodeTbs d ++ sigAlgEnc ++ tlv tagBitString (0 :: signature)) = encodeTbs d := by
    rw [List.append_assoc, List.length_append, Nat.add_sub_cancel]
    exact List.take_left' rfl
  rw [hraw, takeSigAlg_enc]
  dsimp only
  have hbs := takeBitString_enc 0 signature [] (by simp [Manifest.bitStringTake])
  rw [List.append_nil] at hbs
  rw [hbs]
  dsimp only
  simp [decodeTbs_encodeTbs d h true signature]

end Rpki.CertEnc
