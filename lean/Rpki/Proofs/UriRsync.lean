import Rpki.Proofs.UriLemmas
namespace Rpki.Uri
open Rpki.Consts

theorem checkItems_cons_good {s : Bytes} (rest : List Bytes) (h : goodSeg s) :
    checkItems (s :: rest) = checkItems rest := by
  rw [checkItems]
  have h1 : ¬ s = [] := h.1
  have h2 : ¬ (s = [dot, dot] ∨ s = [dot]) := fun e => e.elim h.2.1 h.2.2
  simp [h1, h2]

theorem checkItems_cons_ok {s : Bytes} (rest : List Bytes) (hne : s ≠ [])
    (h : checkItems (s :: rest) = .ok ()) : goodSeg s ∧ checkItems rest = .ok () := by
  rw [checkItems] at h
  simp only [hne, if_false] at h
  by_cases hd : s = [dot, dot] ∨ s = [dot]
  · simp [hd] at h
  · simp only [hd, if_false] at h
    exact ⟨⟨hne, fun e => hd (Or.inl e), fun e => hd (Or.inr e)⟩, h⟩

/-- The representation invariant of `Rsync`: what `from_bytes` establishes and every operation keeps. -/
def Rsync.Inv (u : Rsync) : Prop :=
  checkUriAscii u.bytes = true ∧ startsWithIgnoreCase u.bytes rsyncScheme = true ∧
  ∃ auth md path, u.bytes.drop 8 = auth ++ slash :: (md ++ slash :: path) ∧
    goodSeg auth ∧ goodSeg md ∧ slash ∉ auth ∧ slash ∉ md ∧
    u.moduleStart = 9 + auth.length ∧ u.pathStart = 9 + auth.length + md.length + 1 ∧
    checkItems (split path) = .ok ()

theorem split_decomp (auth md path : Bytes) (ha : slash ∉ auth) (hm : slash ∉ md) :
    split (auth ++ slash :: (md ++ slash :: path)) = auth :: md :: split path := by
  rw [split_append, split_append, split_noslash _ ha, split_noslash _ hm]; rfl

/-- Re-parsing the text of a value satisfying the invariant gives back exactly that value. -/
theorem Rsync.fromBytes_of_inv (u : Rsync) (h : u.Inv) : Rsync.fromBytes u.bytes = .ok u := by
  obtain ⟨hc, hs, auth, md, path, hd, ga, gm, na, nm, h1, h2, hp⟩ := h
  unfold Rsync.fromBytes checkPath
  simp only [hc, hs, Bool.not_true, Bool.false_eq_true, if_false]
  rw [hd, split_decomp _ _ _ na nm, checkItems_cons_good _ ga, checkItems_cons_good _ gm, hp]
  simp only
  cases hsp : split path with
  | nil => exact absurd hsp (split_ne_nil path)
  | cons x rest =>
    simp only
    have : auth.length ≠ 0 := by have := ga.1; cases auth <;> simp_all
    have : md.length ≠ 0 := by have := gm.1; cases md <;> simp_all
    simp only [*, if_false]
    obtain ⟨b, ms, ps⟩ := u
    simp only at h1 h2
    subst h1; subst h2
    simp [Nat.add_assoc]

/-- Everything `from_bytes` accepts keeps its text and satisfies the invariant. -/
theorem Rsync.inv_of_fromBytes (b : Bytes) (u : Rsync) (h : Rsync.fromBytes b = .ok u) :
    u.bytes = b ∧ u.Inv := by
  unfold Rsync.fromBytes at h
  have hc : checkUriAscii b = true := by
    by_cases hc : checkUriAscii b = true
    · exact hc
    · simp [hc] at h
  have hs : startsWithIgnoreCase b rsyncScheme = true := by
    by_cases hs : startsWithIgnoreCase b rsyncScheme = true
    · exact hs
    · simp [hc, hs] at h
  simp only [hc, hs, Bool.not_true, Bool.false_eq_true, if_false] at h
  cases hcp : checkPath (b.drop 8) with
  | error e => simp [hcp] at h
  | ok x =>
    simp only [hcp] at h
    unfold checkPath at hcp
    cases hsp : split (b.drop 8) with
    | nil => exact absurd hsp (split_ne_nil _)
    | cons auth t1 =>
      rw [hsp] at h hcp
      cases t1 with
      | nil => simp at h
      | cons md t2 =>
        cases t2 with
        | nil => simp only at h; split at h <;> simp at h
        | cons x rest =>
          simp only at h
          by_cases ha : auth.length = 0
          · simp [ha] at h
          by_cases hm : md.length = 0
          · simp [ha, hm] at h
          simp only [ha, hm, if_false] at h
          injection h with h
          subst h
          have hane : auth ≠ [] := by intro e; subst e; simp at ha
          have hmne : md ≠ [] := by intro e; subst e; simp at hm
          have ⟨ga, hcp2⟩ := checkItems_cons_ok _ hane hcp
          have ⟨gm, hcp3⟩ := checkItems_cons_ok _ hmne hcp2
          have ⟨na, d1⟩ := split_cons _ _ _ hsp
          rcases d1 with ⟨e, _⟩ | ⟨r1, e1, s1⟩
          · simp at e
          have ⟨nm, d2⟩ := split_cons _ _ _ s1
          rcases d2 with ⟨e, _⟩ | ⟨r2, e2, s2⟩
          · simp at e
          refine ⟨rfl, hc, hs, auth, md, r2, ?_, ga, gm, na, nm, rfl, by simp only [Nat.add_assoc], ?_⟩
          · simp only; rw [e1, e2]
          · rw [s2]; exact hcp3

/-- `from_bytes b = ok u` exactly when `u` carries the text `b` and satisfies the invariant. -/
theorem Rsync.fromBytes_ok_iff (b : Bytes) (u : Rsync) :
    Rsync.fromBytes b = .ok u ↔ u.bytes = b ∧ u.Inv :=
  ⟨Rsync.inv_of_fromBytes b u, fun ⟨e, h⟩ => e ▸ Rsync.fromBytes_of_inv u h⟩

end Rpki.Uri
