import Rpki.Model.AsnSet
namespace Rpki.AsnSet

theorem mem_insertSorted (x y : Nat) (l : List Nat) : y ∈ insertSorted x l ↔ y = x ∨ y ∈ l := by
  induction l with
  | nil => simp [insertSorted]
  | cons z zs ih =>
    unfold insertSorted
    split <;> simp [ih] <;> grind

theorem mem_sort (y : Nat) (l : List Nat) : y ∈ sort l ↔ y ∈ l := by
  induction l with
  | nil => simp [sort]
  | cons z zs ih => simp [sort, mem_insertSorted, ih]

def Sorted (l : List Nat) : Prop := l.Pairwise (· ≤ ·)

theorem sorted_insertSorted (x : Nat) (l : List Nat) (h : Sorted l) : Sorted (insertSorted x l) := by
  induction l with
  | nil => simp [insertSorted, Sorted]
  | cons z zs ih =>
    unfold Sorted at *
    unfold insertSorted
    split
    · simp only [List.pairwise_cons] at *
      grind
    · simp only [List.pairwise_cons] at *
      refine ⟨?_, ih h.2⟩
      intro a ha
      rw [mem_insertSorted] at ha
      grind

theorem sorted_sort (l : List Nat) : Sorted (sort l) := by
  induction l with
  | nil => simp [sort, Sorted]
  | cons z zs ih => exact sorted_insertSorted z _ ih

theorem mem_dedup (y : Nat) (l : List Nat) : y ∈ dedup l ↔ y ∈ l := by
  fun_induction dedup l <;> grind

theorem dedup_head (x : Nat) (l : List Nat) : ∀ y ∈ dedup (x :: l), y ∈ x :: l := by
  intro y hy; exact (mem_dedup y _).1 hy

theorem strictSorted_dedup (l : List Nat) (h : Sorted l) : StrictSorted (dedup l) := by
  fun_induction dedup l with
  | case1 => simp [StrictSorted]
  | case2 x => simp [StrictSorted]
  | case3 x rest ih =>
    unfold Sorted at h; simp only [List.pairwise_cons] at h
    exact ih (by unfold Sorted; simp only [List.pairwise_cons]; exact h.2)
  | case4 x y rest hxy ih =>
    unfold Sorted at h; simp only [List.pairwise_cons] at h
    have ih' := ih (by unfold Sorted; simp only [List.pairwise_cons]; exact h.2)
    unfold StrictSorted at *
    simp only [List.pairwise_cons]
    refine ⟨?_, ih'⟩
    intro a ha
    have := (mem_dedup a _).1 ha
    have hx := h.1 a this
    have hy := h.1 y (by simp)
    rcases List.mem_cons.1 this with h1 | h1
    · subst h1; omega
    · have := h.2.1 a h1; omega

end Rpki.AsnSet

namespace Rpki.AsnSet

theorem ss_cons {a : Nat} {l : List Nat} : StrictSorted (a :: l) ↔ (∀ x ∈ l, a < x) ∧ StrictSorted l := by
  unfold StrictSorted; simp [List.pairwise_cons]

theorem union_spec (l r : List Nat) (hl : StrictSorted l) (hr : StrictSorted r) :
    StrictSorted (union l r) ∧ ∀ x, x ∈ union l r ↔ x ∈ l ∨ x ∈ r := by
  fun_induction union l r with
  | case1 r => simp [hr]
  | case2 a l => simp [hl]
  | case3 a l b r hab ih =>
    rw [ss_cons] at hl
    have ⟨h1, h2⟩ := ih hl.2 hr
    rw [ss_cons] at hr
    refine ⟨ss_cons.2 ⟨?_, h1⟩, ?_⟩
    · intro x hx; rw [h2] at hx
      rcases hx with hx | hx
      · exact hl.1 x hx
      · rcases List.mem_cons.1 hx with e | e
        · omega
        · have := hr.1 x e; omega
    · intro x; simp only [List.mem_cons, h2]; grind
  | case4 a l r hnab ih =>
    rw [ss_cons] at hl hr
    have ⟨h1, h2⟩ := ih hl.2 hr.2
    refine ⟨ss_cons.2 ⟨?_, h1⟩, ?_⟩
    · intro x hx; rw [h2] at hx
      rcases hx with hx | hx
      · exact hl.1 x hx
      · exact hr.1 x hx
    · intro x; simp only [List.mem_cons, h2]; grind
  | case5 a l b r hnab hne ih =>
    have hl' := hl
    rw [ss_cons] at hr hl'
    have ⟨h1, h2⟩ := ih hl hr.2
    refine ⟨ss_cons.2 ⟨?_, h1⟩, ?_⟩
    · intro x hx; rw [h2] at hx
      rcases hx with hx | hx
      · rcases List.mem_cons.1 hx with e | e
        · omega
        · have := hl'.1 x e; omega
      · exact hr.1 x hx
    · intro x; simp only [List.mem_cons, h2]; grind

theorem inter_spec (l r : List Nat) (hl : StrictSorted l) (hr : StrictSorted r) :
    StrictSorted (inter l r) ∧ ∀ x, x ∈ inter l r ↔ x ∈ l ∧ x ∈ r := by
  fun_induction inter l r with
  | case1 r => simp [StrictSorted]
  | case2 a l => simp [StrictSorted]
  | case3 a l r ih =>
    rw [ss_cons] at hl hr
    have ⟨h1, h2⟩ := ih hl.2 hr.2
    refine ⟨ss_cons.2 ⟨?_, h1⟩, ?_⟩
    · intro x hx; rw [h2] at hx; exact hl.1 x hx.1
    · intro x; simp only [List.mem_cons, h2]
      constructor
      · grind
      · rintro ⟨h3 | h3, h4 | h4⟩
        · left; exact h3
        · left; exact h3
        · left; exact h4
        · right; exact ⟨h3, h4⟩
  | case4 a l b r hne hlt ih =>
    have hr' := hr
    rw [ss_cons] at hl hr'
    have ⟨h1, h2⟩ := ih hl.2 hr
    refine ⟨h1, ?_⟩
    intro x; simp only [h2, List.mem_cons]
    constructor
    · grind
    · rintro ⟨h3 | h3, h4⟩
      · subst h3
        rcases h4 with h4 | h4
        · omega
        · have := hr'.1 x h4; omega
      · exact ⟨h3, h4⟩
  | case5 a l b r hne hnlt ih =>
    have hl' := hl
    rw [ss_cons] at hr hl'
    have ⟨h1, h2⟩ := ih hl hr.2
    refine ⟨h1, ?_⟩
    intro x; simp only [h2, List.mem_cons]
    constructor
    · grind
    · rintro ⟨h3, h4 | h4⟩
      · subst h4
        rcases h3 with h3 | h3
        · omega
        · have := hl'.1 x h3; omega
      · exact ⟨h3, h4⟩

theorem diff_spec (l r : List Nat) (hl : StrictSorted l) (hr : StrictSorted r) :
    StrictSorted (diff l r) ∧ ∀ x, x ∈ diff l r ↔ x ∈ l ∧ x ∉ r := by
  fun_induction diff l r with
  | case1 r => simp [StrictSorted]
  | case2 a l => simp [hl]
  | case3 a l b r hab ih =>
    have hr' := hr
    rw [ss_cons] at hl hr'
    have ⟨h1, h2⟩ := ih hl.2 hr
    refine ⟨ss_cons.2 ⟨?_, h1⟩, ?_⟩
    · intro x hx; rw [h2] at hx; exact hl.1 x hx.1
    · intro x; simp only [List.mem_cons, h2, not_or]
      constructor
      · rintro (h3 | ⟨h3, h4, h5⟩)
        · subst h3
          refine ⟨Or.inl rfl, by omega, ?_⟩
          intro h6; have := hr'.1 x h6; omega
        · exact ⟨Or.inr h3, h4, h5⟩
      · rintro ⟨h3 | h3, h4, h5⟩
        · left; exact h3
        · right; exact ⟨h3, h4, h5⟩
  | case4 a l r hnab ih =>
    rw [ss_cons] at hl hr
    have ⟨h1, h2⟩ := ih hl.2 hr.2
    refine ⟨h1, ?_⟩
    intro x; simp only [List.mem_cons, h2, not_or]
    constructor
    · rintro ⟨h3, h4⟩
      refine ⟨Or.inr h3, ?_, h4⟩
      have := hl.1 x h3; omega
    · rintro ⟨h3 | h3, h4, h5⟩
      · exact absurd h3 h4
      · exact ⟨h3, h5⟩
  | case5 a l b r hnab hne ih =>
    have hl' := hl
    rw [ss_cons] at hr hl'
    have ⟨h1, h2⟩ := ih hl hr.2
    refine ⟨h1, ?_⟩
    intro x; simp only [h2, List.mem_cons, not_or]
    constructor
    · rintro ⟨h3, h4⟩
      refine ⟨h3, ?_, h4⟩
      rcases h3 with h3 | h3
      · omega
      · have := hl'.1 x h3; omega
    · rintro ⟨h3, _, h5⟩; exact ⟨h3, h5⟩

theorem symDiff_spec (l r : List Nat) (hl : StrictSorted l) (hr : StrictSorted r) :
    StrictSorted (symDiff l r) ∧ ∀ x, x ∈ symDiff l r ↔ (x ∈ l ∧ x ∉ r) ∨ (x ∈ r ∧ x ∉ l) := by
  fun_induction symDiff l r with
  | case1 r => simp [hr]
  | case2 a l => simp [hl]
  | case3 a l r ih =>
    rw [ss_cons] at hl hr
    have ⟨h1, h2⟩ := ih hl.2 hr.2
    refine ⟨h1, ?_⟩
    intro x; simp only [List.mem_cons, h2, not_or]
    constructor
    · rintro (⟨h3, h4⟩ | ⟨h3, h4⟩)
      · left; exact ⟨Or.inr h3, by have := hl.1 x h3; omega, h4⟩
      · right; exact ⟨Or.inr h3, by have := hr.1 x h3; omega, h4⟩
    · rintro (⟨h3 | h3, h4, h5⟩ | ⟨h3 | h3, h4, h5⟩)
      · exact absurd h3 h4
      · left; exact ⟨h3, h5⟩
      · exact absurd h3 h4
      · right; exact ⟨h3, h5⟩
  | case4 a l b r hne hlt ih =>
    have hr' := hr
    rw [ss_cons] at hl hr'
    have ⟨h1, h2⟩ := ih hl.2 hr
    refine ⟨ss_cons.2 ⟨?_, h1⟩, ?_⟩
    · intro x hx; rw [h2] at hx
      rcases hx with ⟨h3, _⟩ | ⟨h3, _⟩
      · exact hl.1 x h3
      · rcases List.mem_cons.1 h3 with e | e
        · omega
        · have := hr'.1 x e; omega
    · intro x; simp only [List.mem_cons, h2, not_or]
      constructor
      · rintro (h3 | ⟨h3, h4, h5⟩ | ⟨h3 | h3, h4⟩)
        · subst h3; left
          refine ⟨Or.inl rfl, by omega, ?_⟩
          intro h6; have := hr'.1 x h6; omega
        · left; exact ⟨Or.inr h3, h4, h5⟩
        · right; subst h3; exact ⟨Or.inl rfl, by omega, h4⟩
        · right; exact ⟨Or.inr h3, by have := hr'.1 x h3; omega, h4⟩
      · rintro (⟨h3 | h3, h4, h5⟩ | ⟨h3 | h3, h4, h5⟩)
        · left; exact h3
        · right; left; exact ⟨h3, h4, h5⟩
        · right; right; exact ⟨Or.inl h3, h5⟩
        · right; right; exact ⟨Or.inr h3, h5⟩
  | case5 a l b r hne hnlt ih =>
    have hl' := hl
    rw [ss_cons] at hr hl'
    have ⟨h1, h2⟩ := ih hl hr.2
    refine ⟨ss_cons.2 ⟨?_, h1⟩, ?_⟩
    · intro x hx; rw [h2] at hx
      rcases hx with ⟨h3, _⟩ | ⟨h3, _⟩
      · rcases List.mem_cons.1 h3 with e | e
        · omega
        · have := hl'.1 x e; omega
      · exact hr.1 x h3
    · intro x; simp only [List.mem_cons, h2, not_or]
      constructor
      · rintro (h3 | ⟨h3 | h3, h4⟩ | ⟨h3, h4, h5⟩)
        · subst h3; right
          refine ⟨Or.inl rfl, by omega, ?_⟩
          intro h6; have := hl'.1 x h6; omega
        · left; subst h3; exact ⟨Or.inl rfl, by omega, h4⟩
        · left; exact ⟨Or.inr h3, by have := hl'.1 x h3; omega, h4⟩
        · right; exact ⟨Or.inr h3, h4, h5⟩
      · rintro (⟨h3 | h3, h4, h5⟩ | ⟨h3 | h3, h4, h5⟩)
        · right; left; exact ⟨Or.inl h3, h5⟩
        · right; left; exact ⟨Or.inr h3, h5⟩
        · left; exact h3
        · right; right; exact ⟨h3, h4, h5⟩

end Rpki.AsnSet
