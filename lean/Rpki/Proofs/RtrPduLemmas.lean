import Rpki.Model.RtrPdu
namespace Rpki.Rtr
open Rpki.Consts

def AllBytes (l : Bytes) : Prop := ∀ b ∈ l, b < 256

theorem be_length (w n : Nat) : (be w n).length = w := by
  induction w with
  | zero => rfl
  | succ w ih => simp [be, ih]

theorem be_bytes (w n : Nat) : AllBytes (be w n) := by
  induction w with
  | zero => intro b hb; simp [be] at hb
  | succ w ih =>
    intro b hb
    simp only [be, List.mem_cons] at hb
    rcases hb with h | h
    · rw [h]; exact Nat.mod_lt _ (by decide)
    · exact ih b h

theorem unbe_be (w n : Nat) : unbe (be w n) = n % 256 ^ w := by
  induction w with
  | zero => simp [be, unbe, Nat.mod_one]
  | succ w ih =>
    simp only [be, unbe, be_length, ih]
    rw [Nat.pow_succ, Nat.mod_mul, Nat.mul_comm]
    omega

theorem unbe_be_lt (w n : Nat) (h : n < 256 ^ w) : unbe (be w n) = n := by
  rw [unbe_be, Nat.mod_eq_of_lt h]

theorem readExact_append (a rest : Bytes) (n : Nat) (h : a.length = n) :
    readExact n (a ++ rest) = .ok (a, rest) := by
  unfold readExact
  have : ¬ (a ++ rest).length < n := by simp; omega
  simp only [this, if_false]
  rw [List.take_left' h, List.drop_left' h]

theorem readExact_short (s : Bytes) (n : Nat) (h : s.length < n) : readExact n s = .error .eof := by
  unfold readExact; simp [h]

theorem readExact_ok_iff (s : Bytes) (n : Nat) (a rest : Bytes) :
    readExact n s = .ok (a, rest) ↔ s = a ++ rest ∧ a.length = n := by
  unfold readExact
  by_cases h : s.length < n
  · simp only [h, if_true]
    constructor
    · intro e; cases e
    · rintro ⟨e, hl⟩; rw [e] at h; simp at h; omega
  · simp only [h, if_false]
    constructor
    · intro e
      injection e with e; injection e with e1 e2
      subst e1; subst e2
      exact ⟨(List.take_append_drop n s).symm, by simp; omega⟩
    · rintro ⟨e, hl⟩
      subst e
      rw [List.take_left' hl, List.drop_left' hl]

/-- header fields are in range -/
def Hdr.WF (h : Hdr) : Prop := h.version < 256 ∧ h.pdu < 256 ∧ h.session < 65536 ∧ h.length < 4294967296

theorem encHdr_length (h : Hdr) : (encHdr h).length = 8 := by
  simp [encHdr, be_length]

theorem decHdr_encHdr (h : Hdr) (hw : h.WF) : decHdr (encHdr h) = h := by
  obtain ⟨h1, h2, h3, h4⟩ := hw
  obtain ⟨v, p, s, l⟩ := h
  simp only at h1 h2 h3 h4
  unfold decHdr encHdr
  simp only [be, unbe, List.cons_append, List.nil_append, List.getD_cons_zero, List.getD_cons_succ,
    List.drop_succ_cons, List.drop_zero, List.take_succ_cons, List.take_zero, List.length_cons, List.length_nil]
  congr 1 <;> omega

theorem readHdr_encHdr (h : Hdr) (hw : h.WF) (rest : Bytes) :
    readHdr (encHdr h ++ rest) = .ok (h, rest) := by
  unfold readHdr
  have hs : sizeHeader = 8 := rfl
  rw [hs, readExact_append _ _ _ (encHdr_length h)]
  simp [decHdr_encHdr h hw]

theorem readHdr_short (s : Bytes) (h : s.length < 8) : readHdr s = .error .eof := by
  unfold readHdr
  have hs : sizeHeader = 8 := rfl
  rw [hs, readExact_short _ _ h]

end Rpki.Rtr
