/-
  `CrlDer.decodeTbsCrl` reads back what `CrlEnc.encodeTbsCrl` writes (`TbsCertList::encode_ref` /
  `TbsCertList::take_from`).
-/
import Rpki.Model.CrlEnc
import Rpki.Proofs.CertEncLemmas
import Rpki.Proofs.CertEncCert
import Rpki.Proofs.CrlCodec
namespace Rpki.CrlEnc
open Rpki.Der Rpki.CertDer Rpki.CrlDer Rpki.CertEnc Rpki.Consts

/-- the reader of one CRL extension on what `encode_extension(oid, false, value)` writes -/
theorem crlExtension_aki (e : CrlExts) (k : Bytes) (hk : k.length = 20) (he : e.aki = none) :
    crlExtension e (akiBody k) = some { e with aki := some k } := by
  unfold crlExtension crlExtValue akiBody extBody
  rw [List.append_assoc, takeOid_tlv oidAuthorityKeyId _ (by decide)]
  have hb : takeOptBool (tlv tagOctetString (tlv tagSeq (tlv 0x80 k))) = .absent := by
    unfold takeOptBool
    have := takeOptPrim_other tagBool tagOctetString (tlv tagSeq (tlv 0x80 k)) [] (by decide) (by decide)
    rw [List.append_nil] at this
    rw [this]
  simp only [Bool.false_eq_true, if_false, List.nil_append, hb,
    takePrim_tlv_nil tagOctetString _ (by decide) (by decide)]
  simp [he, takeCons_tlv_nil tagSeq _ (by decide) (by decide), takePrim_tlv_nil 0x80 k (by decide) (by decide),
    keyIdOk, hk]

theorem crlExtension_number (e : CrlExts) (n : Bytes) (hn : X509.VS n) (he : e.number = none) :
    crlExtension e (numberBody n) = some { e with number := some n } := by
  unfold crlExtension crlExtValue numberBody extBody
  rw [List.append_assoc, takeOid_tlv oidCrlNumber _ (by decide)]
  have hb : takeOptBool (tlv tagOctetString (tlv tagInt (X509.encodeContent n))) = .absent := by
    unfold takeOptBool
    have := takeOptPrim_other tagBool tagOctetString (tlv tagInt (X509.encodeContent n)) [] (by decide) (by decide)
    rw [List.append_nil] at this
    rw [this]
  have hne : ¬ oidCrlNumber = oidAuthorityKeyId := by decide
  simp only [Bool.false_eq_true, if_false, List.nil_append, hb,
    takePrim_tlv_nil tagOctetString _ (by decide) (by decide)]
  simp [he, hne, takePrim_tlv_nil tagInt _ (by decide) (by decide), (C17.serial_der_roundtrip n hn).1]

/-- the fields of a CRL are in the profile -/
structure WF (d : CrlD) : Prop where
  issuer : NameOk d.issuer
  this : X509.validCivil d.thisUpdate = true ∧ d.thisUpdate.y ≤ 9999
  next : X509.validCivil d.nextUpdate = true ∧ d.nextUpdate.y ≤ 9999
  revoked : ∃ es, d.revoked = Crl.encodeList es ∧ ∀ e ∈ es, Crl.EntryOk e
  aki : d.aki.length = 20
  number : X509.VS d.number

theorem takeRevoked_enc (cap rest : Bytes) (h : ∃ es, cap = Crl.encodeList es ∧ ∀ e ∈ es, Crl.EntryOk e) :
    takeRevoked (revokedEnc cap ++ tlv 0xA0 rest) = some (cap, tlv 0xA0 rest) := by
  unfold takeRevoked revokedEnc
  by_cases hc : cap = []
  · subst hc
    have := takeOptCons_other tagSeq 0xA0 rest [] (by decide) (by decide)
    rw [List.append_nil] at this
    simp [this]
  · obtain ⟨es, he, hok⟩ := h
    simp only [hc, if_false]
    rw [takeOptCons_tlv' tagSeq cap _ (by decide) (by decide)]
    simp only
    rw [he, Crl.capture_encode es hok]

theorem takeTime_timeTlv (c : X509.Civil) (rest : Bytes) (h : X509.validCivil c = true ∧ c.y ≤ 9999) :
    Manifest.takeTime (timeTlv c ++ rest) = some (c, rest) := by
  rw [timeTlv_eq c]; exact Crl.takeTime_encodeVaried c rest h.1 h.2

/-- **`TbsCertList::take_from` reads back what `TbsCertList::encode_ref` writes.** -/
theorem decodeTbsCrl_encodeTbsCrl (d : CrlD) (h : WF d) :
    decodeTbsCrl (encodeTbsCrl d) = some (true, { d with tbs := encodeTbsCrl d, signature := [] }) := by
  unfold decodeTbsCrl
  have e0 : encodeTbsCrl d = tlv tagSeq (tlv tagInt [1] ++ (sigAlgEnc ++ (d.issuer ++ (timeTlv d.thisUpdate ++ (timeTlv d.nextUpdate ++ (revokedEnc d.revoked ++ tlv 0xA0 (tlv tagSeq (seqs [akiBody d.aki, numberBody d.number])))))))) := by
    unfold encodeTbsCrl; simp only [List.append_assoc]
  rw [e0, takeCons_tlv_nil tagSeq _ (by decide) (by decide)]
  dsimp only
  rw [IpDer.takePrim_tlv' tagInt [1] _ (by decide) (by decide)]
  dsimp only
  simp only [ne_eq, not_true_eq_false, if_false]
  rw [takeSigAlg_enc]
  dsimp only
  rw [h.issuer]
  dsimp only
  rw [takeTime_timeTlv d.thisUpdate _ h.this]
  dsimp only
  rw [takeTime_timeTlv d.nextUpdate _ h.next]
  dsimp only
  rw [takeRevoked_enc d.revoked _ h.revoked]
  dsimp only
  rw [takeCons_tlv_nil 0xA0 _ (by decide) (by decide)]
  dsimp only
  simp only [not_true_eq_false, if_false]
  rw [takeCons_tlv_nil tagSeq _ (by decide) (by decide)]
  dsimp only
  simp only [not_true_eq_false, if_false]
  unfold seqs
  rw [foldCons_items' tagSeq (by decide) (by decide) crlExtension _ {}]
  simp only [List.foldlM_cons, List.foldlM_nil, crlExtension_aki {} d.aki h.aki rfl, Option.bind_eq_bind,
    Option.bind_some, crlExtension_number { aki := some d.aki } d.number h.number rfl, pure]

end Rpki.CrlEnc

namespace Rpki.CrlEnc
open Rpki.Der Rpki.CertDer Rpki.CrlDer Rpki.CertEnc Rpki.Consts

theorem forest_entry (e : Crl.Entry) : Forest (Crl.encodeEntry e) := by
  rw [Crl.encodeEntry_eq]
  refine forest_cons1 tagSeq _ (by decide) (by decide) (forest_append
    (forest_prim1 tagInt _ (by decide) (by decide) (by decide)) ?_)
  unfold Crl.timeTag
  cases (X509.encodeVaried e.date).1
  · exact forest_prim1 tagUtcTime _ (by decide) (by decide) (by decide)
  · exact forest_prim1 tagGenTime _ (by decide) (by decide) (by decide)

theorem forest_encodeList (es : List Crl.Entry) : Forest (Crl.encodeList es) := by
  induction es with
  | nil => exact Forest.nil
  | cons e es ih => rw [Crl.encodeList_cons]; exact forest_append (forest_entry e) ih

/-- **`Crl::take_from` reads back what `Crl::to_captured` writes.** -/
theorem takeCrl_encodeCrl (d : CrlD) (h : WF d) (hi : Forest d.issuer) (signature rest : Bytes) :
    takeCrl (encodeCrl d signature ++ rest) =
      some ({ d with tbs := encodeTbsCrl d, signature := signature }, rest) := by
  obtain ⟨es, hes, _⟩ := h.revoked
  have hbody : ∃ body, encodeTbsCrl d = tlv tagSeq body ∧ Forest body := by
    refine ⟨_, rfl, ?_⟩
    refine forest_append (forest_append (forest_append (forest_append (forest_append (forest_append ?_ ?_) ?_) ?_) ?_) ?_) ?_
    · exact forest_prim1 tagInt [1] (by decide) (by decide) (by decide)
    · exact forest_sigAlg
    · exact hi
    · exact forest_timeTlv _
    · exact forest_timeTlv _
    · unfold revokedEnc
      split
      · exact Forest.nil
      · rw [hes]; exact forest_cons1 tagSeq _ (by decide) (by decide) (forest_encodeList es)
    · exact forest_cons1 0xA0 _ (by decide) (by decide)
        (forest_cons1 tagSeq _ (by decide) (by decide)
          (forest_seqs _ (by
            intro x hx
            simp only [List.mem_cons, List.mem_nil_iff, or_false] at hx
            rcases hx with rfl | rfl
            · unfold akiBody; exact forest_extBody _ _ _
            · unfold numberBody; exact forest_extBody _ _ _)))
  obtain ⟨body, hb, hf⟩ := hbody
  unfold takeCrl crlInner encodeCrl
  rw [AsDer.takeCons_tlv' tagSeq _ rest (by decide) (by decide)]
  dsimp only
  have hne : encodeTbsCrl d ++ sigAlgEnc ++ tlv tagBitString (0 :: signature) ≠ [] := by
    rw [hb]; simp [tlv]
  simp only [hne, if_false]
  have hskip : skipOne (encodeTbsCrl d ++ sigAlgEnc ++ tlv tagBitString (0 :: signature)) =
      some (sigAlgEnc ++ tlv tagBitString (0 :: signature)) := by
    rw [List.append_assoc, hb]
    exact skipOne_cons tagSeq body _ (by decide) (by decide) hf
  rw [hskip]
  dsimp only
  have hraw : List.take ((encodeTbsCrl d ++ sigAlgEnc ++ tlv tagBitString (0 :: signature)).length -
      (sigAlgEnc ++ tlv tagBitString (0 :: signature)).length)
      (encodeTbsCrl d ++ sigAlgEnc ++ tlv tagBitString (0 :: signature)) = encodeTbsCrl d := by
    rw [List.append_assoc, List.length_append, Nat.add_sub_cancel]
    exact List.take_left' rfl
  rw [hraw, takeSigAlg_enc]
  dsimp only
  have hbs := takeBitString_enc 0 signature [] (by simp [Manifest.bitStringTake])
  rw [List.append_nil] at hbs
  rw [hbs]
  dsimp only
  simp [decodeTbsCrl_encodeTbsCrl d h]

end Rpki.CrlEnc
