import Rpki.Model.Der
namespace Rpki.Der

/-! ### length octets -/

theorem readLen_encLen (n : Nat) (rest : Bytes) (h : n < 2 ^ 32) :
    readLen (encLen n ++ rest) = some (n, rest) := by
  unfold encLen
  by_cases h1 : n < 0x80
  · simp only [h1, if_true, List.cons_append, List.nil_append, readLen]
  · by_cases h2 : n < 0x100
    · simp only [h1, h2, if_true, if_false, List.cons_append, List.nil_append, readLen]
      have : n > 127 := by omega
      simp [this]
    · by_cases h3 : n < 0x10000
      · simp only [h1, h2, h3, if_true, if_false, List.cons_append, List.nil_append, readLen]
        have e : n / 256 * 256 + n % 256 = n := by omega
        have : n > 255 := by omega
        simp [e, this]
      · by_cases h4 : n < 0x1000000
        · simp only [h1, h2, h3, h4, if_true, if_false, List.cons_append, List.nil_append, readLen]
          have e : n / 65536 * 65536 + n / 256 % 256 * 256 + n % 256 = n := by omega
          have : n > 0xFFFF := by omega
          simp [e, this]
        · simp only [h1, h2, h3, h4, if_false, List.cons_append, List.nil_append, readLen]
          have e : n / 16777216 * 16777216 + n / 65536 % 256 * 65536 + n / 256 % 256 * 256 + n % 256 = n := by
            omega
          have : n > 0xFFFFFF := by omega
          simp [e, this]

/-! ### one value -/

theorem tlv_append (t : Nat) (c rest : Bytes) :
    tlv t c ++ rest = t :: (encLen c.length ++ (c ++ rest)) := by
  simp [tlv, List.append_assoc]

theorem readTlv_tlv (t : Nat) (c rest : Bytes) (ht : t % 32 ≠ 31) (hc : c.length < 2 ^ 32) :
    readTlv (tlv t c ++ rest) = some (t, c, rest) := by
  rw [tlv_append]
  simp only [readTlv, ht, if_false, readLen_encLen _ _ hc]
  have hl : ¬ (c ++ rest).length < c.length := by simp [List.length_append]
  simp only [hl, if_false, List.take_left', List.drop_left']

theorem takeOptCons_tlv (tag : Nat) (c rest : Bytes) (ht : tag % 32 ≠ 31) (hcons : isCons tag = true)
    (hc : c.length < 2 ^ 32) : takeOptCons tag (tlv tag c ++ rest) = .ok c rest := by
  have hr := readTlv_tlv tag c rest ht hc
  rw [tlv_append] at hr ⊢
  simp only [takeOptCons, ht, if_false, ne_eq, not_true_eq_false, hcons, Bool.not_true,
    Bool.false_eq_true, hr]

theorem takeOptPrim_tlv (tag : Nat) (c rest : Bytes) (ht : tag % 32 ≠ 31) (hprim : isCons tag = false)
    (hc : c.length < 2 ^ 32) : takeOptPrim tag (tlv tag c ++ rest) = .ok c rest := by
  have hr := readTlv_tlv tag c rest ht hc
  have hn : tagNoCons tag = tag := by
    simp only [isCons, decide_eq_false_iff_not] at hprim
    simp [tagNoCons, hprim]
  rw [tlv_append] at hr ⊢
  simp only [takeOptPrim, ht, if_false, ne_eq, hn, not_true_eq_false, hprim, Bool.false_eq_true, hr]

theorem takeCons_tlv (tag : Nat) (c rest : Bytes) (ht : tag % 32 ≠ 31) (hcons : isCons tag = true)
    (hc : c.length < 2 ^ 32) : takeCons tag (tlv tag c ++ rest) = some (c, rest) := by
  simp only [takeCons, takeOptCons_tlv tag c rest ht hcons hc]

theorem takePrim_tlv (tag : Nat) (c rest : Bytes) (ht : tag % 32 ≠ 31) (hprim : isCons tag = false)
    (hc : c.length < 2 ^ 32) : takePrim tag (tlv tag c ++ rest) = some (c, rest) := by
  simp only [takePrim, takeOptPrim_tlv tag c rest ht hprim hc]

/-- a value with another tag is reported as absent, not consumed -/
theorem takeOptPrim_other (tag t : Nat) (c rest : Bytes) (ht : t % 32 ≠ 31) (hne : tagNoCons t ≠ tag) :
    takeOptPrim tag (tlv t c ++ rest) = .absent := by
  rw [tlv_append]
  simp only [takeOptPrim, ht, if_false, ne_eq, hne, not_false_eq_true, if_true]

theorem takeOptCons_other (tag t : Nat) (c rest : Bytes) (ht : t % 32 ≠ 31)
    (hne : tagNoCons t ≠ tagNoCons tag) : takeOptCons tag (tlv t c ++ rest) = .absent := by
  rw [tlv_append]
  simp only [takeOptCons, ht, if_false, ne_eq, hne, not_false_eq_true, if_true]

end Rpki.Der

namespace Rpki.Der

/-- capture / iterate parity of the capturing decoders (stated as a property theorem in `Props/C04.lean`) -/
theorem capture_iterate_parity {α : Type} (take : Bytes → Take α) (check : α → Bool) :
    ∀ (fuel : Nat) (b : Bytes) (n k : Nat), capturePass take check fuel b n = some k →
      ∃ items, iteratePass take fuel b = some items ∧ items.length + n = k ∧ ∀ a ∈ items, check a = true := by
  intro fuel
  induction fuel with
  | zero =>
    intro b n k h
    simp only [capturePass] at h
    split at h
    · injection h with h; exact ⟨[], rfl, by simpa using h, by simp⟩
    · cases h
  | succ f ih =>
    intro b n k h
    rw [capturePass] at h
    cases ht : take b with
    | absent =>
      simp only [ht] at h
      split at h
      · injection h with h; exact ⟨[], by rw [iteratePass, ht], by simpa using h, by simp⟩
      · cases h
    | bad => simp [ht] at h
    | ok a rest =>
      simp only [ht] at h
      by_cases hc : check a = true
      · simp only [hc, if_true] at h
        obtain ⟨items, h1, h2, h3⟩ := ih rest (n + 1) k h
        refine ⟨a :: items, by rw [iteratePass, ht]; simp only [h1]; rfl, by simp; omega, ?_⟩
        intro x hx
        rcases List.mem_cons.1 hx with e | e
        · rw [e]; exact hc
        · exact h3 x e
      · simp [hc] at h

end Rpki.Der
