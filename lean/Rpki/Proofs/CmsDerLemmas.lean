/-
  Lemmas about the signed-object decoder model (`Model/CmsDer.lean`): what a successful decoding says
  about the parts validation relies on.
-/
import Rpki.Model.CmsDer
import Rpki.Proofs.CertDerLemmas
namespace Rpki.CmsDer
open Rpki.Der Rpki.CertDer

theorem skipU8_sub (n : Nat) (b r : Bytes) (h : skipU8 n b = some r) : ∀ x ∈ r, x ∈ b := by
  unfold skipU8 at h
  cases hp : takePrim tagInt b with
  | none => simp [hp] at h
  | some q =>
    obtain ⟨c, r'⟩ := q
    simp only [hp] at h
    split at h
    · injection h with h; subst h; exact (AsDer.takePrim_sub _ _ _ _ hp).2
    · cases h

/-- the signed attributes of a decoded SignerInfo parse to the values that were returned, with the
content type of the encapsulated content -/
theorem signerInfo_spec (ct si sid attrs md sig : Bytes) (st : X509.Civil)
    (h : signerInfo ct si = some (sid, attrs, md, st, sig)) :
    SigObj.parseAttrs true attrs = some (ct, md, st) := by
  unfold signerInfo at h
  repeat' (split at h)
  all_goals first
    | (cases h; done)
    | skip
  simp only [Option.some.injEq, Prod.mk.injEq] at h
  obtain ⟨_, e2, e3, e4, _⟩ := h
  subst e2 e3 e4
  simp_all

/-- what a decoded SignedData says: the signed attributes parse to exactly the returned values with the
encapsulated content type, and the certificate was read by `takeCert` from octets of the input -/
theorem signedData_spec (sd : Bytes) (o : SigObjD) (hb : AllBytes sd) (h : signedData sd = some o) :
    SigObj.parseAttrs true o.attrs = some (o.contentType, o.messageDigest, o.signingTime) ∧
    ∃ cc rest, AllBytes cc ∧ takeCert cc = some (o.cert, rest) := by
  unfold signedData at h
  cases h0 : skipU8 3 sd with
  | none => simp [h0] at h
  | some r0 =>
    have b0 := allBytes_of_sub hb (skipU8_sub _ _ _ h0)
    simp only [h0] at h
    cases h1 : takeCons tagSet r0 with
    | none => simp [h1] at h
    | some q1 =>
      obtain ⟨dc, r1⟩ := q1
      have b1 := allBytes_of_sub b0 (AsDer.takeCons_sub _ _ _ _ h1).2
      simp only [h1] at h
      split at h
      · cases h
      · split at h
        · cases h
        · cases h2 : takeCons tagSeq r1 with
          | none => simp [h2] at h
          | some q2 =>
            obtain ⟨ec, r2⟩ := q2
            have b2 := allBytes_of_sub b1 (AsDer.takeCons_sub _ _ _ _ h2).2
            simp only [h2] at h
            split at h
            · cases h
            · split at h
              · cases h
              · split at h
                · cases h
                · split at h
                  · cases h
                  · split at h
                    · cases h
                    · cases h3 : takeCons 0xA0 r2 with
                      | none => simp [h3] at h
                      | some q3 =>
                        obtain ⟨cc, r3⟩ := q3
                        have b3 := allBytes_of_sub b2 (AsDer.takeCons_sub _ _ _ _ h3).1
                        simp only [h3] at h
                        cases h4 : takeCert cc with
                        | none => simp [h4] at h
                        | some q4 =>
                          obtain ⟨cert, cr⟩ := q4
                          simp only [h4] at h
                          repeat' (split at h)
                          all_goals first
                            | (cases h; done)
                            | skip
                          injection h with h
                          subst h
                          refine ⟨?_, cc, cr, b3, h4⟩
                          simp only
                          apply signerInfo_spec
                          assumption

/-- the same for a whole object -/
theorem decodeSigObj_spec (b : Bytes) (o : SigObjD) (hb : AllBytes b) (h : decodeSigObj b = some o) :
    SigObj.parseAttrs true o.attrs = some (o.contentType, o.messageDigest, o.signingTime) ∧
    ∃ cc rest, AllBytes cc ∧ takeCert cc = some (o.cert, rest) := by
  unfold decodeSigObj at h
  cases h0 : takeCons tagSeq b with
  | none => simp [h0] at h
  | some q0 =>
    obtain ⟨c, _⟩ := q0
    have b0 := allBytes_of_sub hb (AsDer.takeCons_sub _ _ _ _ h0).1
    simp only [h0] at h
    cases h1 : takePrim tagOid c with
    | none => simp [h1] at h
    | some q1 =>
      obtain ⟨oo, r⟩ := q1
      have b1 := allBytes_of_sub b0 (AsDer.takePrim_sub _ _ _ _ h1).2
      simp only [h1] at h
      split at h
      · cases h
      · cases h2 : takeCons 0xA0 r with
        | none => simp [h2] at h
        | some q2 =>
          obtain ⟨c1, r1⟩ := q2
          have b2 := allBytes_of_sub b1 (AsDer.takeCons_sub _ _ _ _ h2).1
          simp only [h2] at h
          split at h
          · cases h
          · cases h3 : takeCons tagSeq c1 with
            | none => simp [h3] at h
            | some q3 =>
              obtain ⟨sd, r2⟩ := q3
              have b3 := allBytes_of_sub b2 (AsDer.takeCons_sub _ _ _ _ h3).1
              simp only [h3] at h
              split at h
              · cases h
              · exact signedData_spec sd o b3 h

end Rpki.CmsDer
