/-
  `RtaDer.decodeAttestation` reads back what `RtaEnc.encodeAttestation` writes.
-/
import Rpki.Model.RtaEnc
import Rpki.Proofs.CertEncLemmas
import Rpki.Proofs.CmsEncLemmas
import Rpki.Proofs.IpDerV4
namespace Rpki.RtaEnc
open Rpki.Der Rpki.CertDer Rpki.RtaDer Rpki.Chain Rpki.CertEnc

theorem foldPrim_items {σ : Type} (tag : Nat) (ht : tag % 32 ≠ 31) (hc : isCons tag = false)
    (f : σ → Bytes → Option σ) :
    ∀ (items : List Bytes) (fuel : Nat) (s : σ), items.length ≤ fuel →
      foldPrim tag f fuel ((items.map (tlv tag)).flatten) s = items.foldlM f s := by
  intro items
  induction items with
  | nil =>
    intro fuel s _
    cases fuel with
    | zero => simp [foldPrim]
    | succ n => simp [foldPrim, takeOptPrim]
  | cons c items ih =>
    intro fuel s hf
    cases fuel with
    | zero => simp at hf
    | succ n =>
      rw [List.map_cons, List.flatten_cons, foldPrim, takeOptPrim_tlv' tag c _ ht hc]
      simp only [List.foldlM_cons]
      cases hfc : f s c with
      | none => rfl
      | some s' => exact ih n s' (by simpa using hf)

theorem rtaKeys_enc (keys : List Bytes) (hk : ∀ k ∈ keys, k.length = 20) :
    rtaKeys ((keys.map (tlv tagOctetString)).flatten) = some keys := by
  unfold rtaKeys
  rw [foldPrim_items tagOctetString (by decide) (by decide) _ keys _ [] (items_length_le tagOctetString keys)]
  -- the fold appends every key
  have : ∀ (l acc : List Bytes), (∀ k ∈ l, k.length = 20) →
      l.foldlM (fun (acc : List Bytes) k => if keyIdOk k then some (acc ++ [k]) else none) acc = some (acc ++ l) := by
    intro l
    induction l with
    | nil => intro acc _; simp
    | cons k l ih =>
      intro acc h
      have hk0 : keyIdOk k = true := by simp [keyIdOk, h k (List.mem_cons_self ..)]
      simp only [List.foldlM_cons, hk0, if_true]
      have := ih (acc ++ [k]) (fun x hx => h x (List.mem_cons_of_mem _ hx))
      simpa [List.append_assoc] using this
  simpa using this keys [] hk

/-- the attestation's fields are in the profile -/
structure WF (a : Attestation) : Prop where
  keys : ∀ k ∈ a.keys, k.length = 20
  v4 : Canon IpDer.maxAddr a.v4 ∧ ∀ b ∈ a.v4, IpDer.V4Shaped b
  v6 : Canon IpDer.maxAddr a.v6
  asn : Canon AsDer.maxAs a.asn
  some : a.asn ≠ [] ∨ a.v4 ≠ [] ∨ a.v6 ≠ []

theorem canon_blocks {M : Nat} {c : List Blk} (h : Canon M c) : ∀ b ∈ c, b.lo ≤ b.hi ∧ b.hi ≤ M := by
  intro b hb
  exact (h.1 b hb)

theorem rtaBlocks128_enc (c : List Blk) (hc : Canon IpDer.maxAddr c) : rtaBlocks 128 (IpDer.encodeBlocks c) = some c := by
  unfold rtaBlocks IpDer.encodeBlocks
  rw [takeCons_tlv_nil tagSeq _ (by decide) (by decide)]
  simp only [ne_eq, not_true_eq_false, if_false]
  rw [IpDer.blocksLoop_encode c _ (IpDer.length_le_encodeBlocks c) (canon_blocks hc)]
  simp [AsDer.fromIter_canon_id IpDer.maxAddr c hc]

theorem rtaBlocks32_enc (c : List Blk) (hc : Canon IpDer.maxAddr c) (hs : ∀ b ∈ c, IpDer.V4Shaped b) :
    rtaBlocks 32 (IpDer.encodeBlocks c) = some c := by
  unfold rtaBlocks IpDer.encodeBlocks
  rw [takeCons_tlv_nil tagSeq _ (by decide) (by decide)]
  simp only [ne_eq, not_true_eq_false, if_false]
  rw [IpDer.blocksLoop32_encode c _ (IpDer.length_le_encodeBlocks c) (canon_blocks hc) hs]
  simp [AsDer.fromIter_canon_id IpDer.maxAddr c hc]

end Rpki.RtaEnc

namespace Rpki.RtaEnc
open Rpki.Der Rpki.CertDer Rpki.RtaDer Rpki.Chain Rpki.CertEnc

theorem takeOptCons_other' (tag t : Nat) (c rest : Bytes) (ht : t % 32 ≠ 31) (hne : tagNoCons t ≠ tagNoCons tag) :
    takeOptCons tag (tlv t c ++ rest) = .absent := by
  rw [tlv_append]
  simp only [takeOptCons, ht, if_false, ne_eq, hne, not_false_eq_true, if_true]

theorem rtaAsRes_enc (asn : List Blk) (hc : Canon AsDer.maxAs asn) (rest : Bytes)
    (hrest : rest = [] ∨ ∃ c r, rest = tlv 0xA1 c ++ r) :
    rtaAsRes (asPart asn ++ rest) = some (if asn = [] then none else some asn, rest) := by
  unfold rtaAsRes asPart
  by_cases he : asn = []
  · simp only [he, if_true, List.nil_append]
    rcases hrest with rfl | ⟨c, r, rfl⟩
    · rfl
    · rw [takeOptCons_other' 0xA0 0xA1 c r (by decide) (by decide)]
  · simp only [he, if_false]
    rw [takeOptCons_tlv' 0xA0 _ rest (by decide) (by decide)]
    dsimp only
    rw [takeCons_tlv_nil tagSeq _ (by decide) (by decide)]
    simp [AsDer.decodeBlocks_encode asn hc]

theorem rtaIpRes_enc (v4 v6 : List Blk) (h4 : Canon IpDer.maxAddr v4) (s4 : ∀ b ∈ v4, IpDer.V4Shaped b)
    (h6 : Canon IpDer.maxAddr v6) :
    rtaIpRes (ipPart v4 v6) = some (if v4 = [] ∧ v6 = [] then (none, none) else (some v4, some v6), []) := by
  unfold rtaIpRes ipPart
  by_cases he : v4 = [] ∧ v6 = []
  · simp only [he, and_self, if_true]
    rfl
  · simp only [he, if_false]
    have := takeOptCons_tlv' 0xA1 (tlv tagSeq (tlv tagSeq (tlv tagOctetString [0, 1] ++ IpDer.encodeBlocks v4) ++
      tlv tagSeq (tlv tagOctetString [0, 2] ++ IpDer.encodeBlocks v6))) [] (by decide) (by decide)
    rw [List.append_nil] at this
    rw [this]
    dsimp only
    rw [takeCons_tlv_nil tagSeq _ (by decide) (by decide)]
    simp only [ne_eq, not_true_eq_false, if_false]
    have hitems : tlv tagSeq (tlv tagOctetString [0, 1] ++ IpDer.encodeBlocks v4) ++
        tlv tagSeq (tlv tagOctetString [0, 2] ++ IpDer.encodeBlocks v6) =
        (([tlv tagOctetString [0, 1] ++ IpDer.encodeBlocks v4, tlv tagOctetString [0, 2] ++ IpDer.encodeBlocks v6].map
          (tlv tagSeq)).flatten) := by simp
    rw [hitems, foldCons_items' tagSeq (by decide) (by decide) rtaFamily _ (none, none)]
    have f4 : rtaFamily (none, none) (tlv tagOctetString [0, 1] ++ IpDer.encodeBlocks v4) = some (some v4, none) := by
      unfold rtaFamily
      rw [IpDer.takePrim_tlv' tagOctetString [0, 1] _ (by decide) (by decide)]
      simp [rtaBlocks32_enc v4 h4 s4]
    have f6 : rtaFamily (some v4, none) (tlv tagOctetString [0, 2] ++ IpDer.encodeBlocks v6) = some (some v4, some v6) := by
      unfold rtaFamily
      rw [IpDer.takePrim_tlv' tagOctetString [0, 2] _ (by decide) (by decide)]
      have hne : ¬ ([0, 2] : Bytes) = [0, 1] := by decide
      simp [hne, rtaBlocks128_enc v6 h6]
    simp [List.foldlM_cons, f4, f6]

theorem takeResources_enc (a : Attestation) (h : WF a) :
    takeResources (asPart a.asn ++ ipPart a.v4 a.v6) = some (a.v4, a.v6, a.asn) := by
  unfold takeResources
  have hrest : ipPart a.v4 a.v6 = [] ∨ ∃ c r, ipPart a.v4 a.v6 = tlv 0xA1 c ++ r := by
    unfold ipPart
    by_cases he : a.v4 = [] ∧ a.v6 = []
    · left; simp [he]
    · right; simp only [he, if_false]; exact ⟨_, [], (List.append_nil _).symm⟩
  rw [rtaAsRes_enc a.asn h.asn _ hrest]
  dsimp only
  rw [rtaIpRes_enc a.v4 a.v6 h.v4.1 h.v4.2 h.v6]
  dsimp only
  simp only [ne_eq, not_true_eq_false, if_false]
  by_cases ha : a.asn = []
  · by_cases hi : a.v4 = [] ∧ a.v6 = []
    · exfalso
      rcases h.some with h1 | h1 | h1
      · exact h1 ha
      · exact h1 hi.1
      · exact h1 hi.2
    · simp [ha, hi]
  · by_cases hi : a.v4 = [] ∧ a.v6 = []
    · simp [ha, hi]
    · simp [ha, hi]

/-- **`ResourceTaggedAttestation::take_from` reads back what `ResourceTaggedAttestation::encode_ref` writes**:
the keys in their order, the three resource sets, the digest. -/
theorem decodeAttestation_encodeAttestation (a : Attestation) (h : WF a) (rest : Bytes) :
    decodeAttestation (encodeAttestation a ++ rest) = some a := by
  unfold decodeAttestation encodeAttestation
  rw [AsDer.takeCons_tlv' tagSeq _ rest (by decide) (by decide)]
  dsimp only
  simp only [List.append_assoc]
  have hv : rtaVersion (tlv tagSet ((a.keys.map (tlv tagOctetString)).flatten) ++ (tlv tagSeq (asPart a.asn ++ ipPart a.v4 a.v6) ++
      (CmsEnc.digestAlgEnc ++ tlv tagOctetString a.digest))) = some (tlv tagSet ((a.keys.map (tlv tagOctetString)).flatten) ++
      (tlv tagSeq (asPart a.asn ++ ipPart a.v4 a.v6) ++ (CmsEnc.digestAlgEnc ++ tlv tagOctetString a.digest))) := by
    unfold rtaVersion
    rw [takeOptCons_other' 0xA0 tagSet _ _ (by decide) (by decide)]
  rw [hv]
  dsimp only
  rw [AsDer.takeCons_tlv' tagSet _ _ (by decide) (by decide)]
  dsimp only
  rw [rtaKeys_enc a.keys h.keys]
  dsimp only
  rw [AsDer.takeCons_tlv' tagSeq _ _ (by decide) (by decide)]
  dsimp only
  rw [takeResources_enc a h]
  dsimp only
  rw [CmsEnc.takeDigestAlg_enc]
  dsimp only
  rw [takePrim_tlv_nil tagOctetString a.digest (by decide) (by decide)]
  simp

end Rpki.RtaEnc

namespace Rpki.RtaEnc
open Rpki.Der Rpki.CertDer Rpki.RtaDer Rpki.Chain Rpki.CertEnc Rpki.Consts

/-- a loop over written items: every item is read to its own value, in order -/
theorem fold_collect {α : Type} (f : List α → Bytes → Option (List α)) (g : Bytes → Option α)
    (hf : ∀ acc c, f acc c = (g c).map fun d => acc ++ [d]) :
    ∀ (items : List Bytes) (vals : List α) (acc : List α), items.map g = vals.map some →
      items.foldlM f acc = some (acc ++ vals) := by
  intro items
  induction items with
  | nil => intro vals acc h; cases vals with
    | nil => simp
    | cons v vs => simp at h
  | cons c items ih =>
    intro vals acc h
    cases vals with
    | nil => simp at h
    | cons v vs =>
      simp only [List.map_cons, List.cons.injEq] at h
      obtain ⟨h1, h2⟩ := h
      simp only [List.foldlM_cons, hf, h1, Option.map_some, Option.bind_eq_bind, Option.bind_some]
      have := ih vs (acc ++ [v]) h2
      simpa [List.append_assoc] using this

/-- the content octets of a written value (`tlv tagSeq c` ↦ `c`) for the loops that work on contents -/
theorem flatten_seqs (cs : List Bytes) : ((cs.map (tlv tagSeq)).flatten) = ((cs.map (tlv tagSeq)).flatten) := rfl

/-- **`Rta::decode` reads back what `MultiSignedObject::encode_ref` writes** around a written attestation, written
certificates and CRLs (given as the contents of their SEQUENCEs together with what their readers return) and signer
infos whose attributes parse with the attestation's content type. -/
theorem decodeRta_encodeRta (content : Bytes) (att : Attestation) (hatt : decodeAttestation content = some att)
    (certCs : List Bytes) (certs : List Decoded) (hcerts : certCs.map certBody = certs.map some)
    (crlCs : List Bytes) (crls : List CrlDer.CrlD) (hcrls : crlCs.map CrlDer.crlInner = crls.map some)
    (signers : List Signer)
    (hs : ∀ s ∈ signers, s.sid.length = 20 ∧ SigObj.parseAttrs true s.attrs = some (oidCtRta, s.messageDigest, s.signingTime))
    (rest : Bytes) :
    decodeRta (encodeRta content (certCs.map (tlv tagSeq)) (crlCs.map (tlv tagSeq)) signers ++ rest) =
      some { content := content, att := att, certs := certs, crls := crls, signers := signers } := by
  unfold decodeRta encodeRta
  rw [AsDer.takeCons_tlv' tagSeq _ rest (by decide) (by decide)]
  dsimp only
  rw [IpDer.takePrim_tlv' tagOid oidSignedData _ (by decide) (by decide)]
  dsimp only
  simp only [ne_eq, not_true_eq_false, if_false]
  rw [takeCons_tlv_nil 0xA0 _ (by decide) (by decide)]
  dsimp only
  simp only [not_true_eq_false, if_false]
  rw [takeCons_tlv_nil tagSeq _ (by decide) (by decide)]
  dsimp only
  simp only [not_true_eq_false, if_false]
  -- the SignedData
  have hsd : rtaSignedData (tlv tagInt [3] ++ tlv tagSet CmsEnc.digestAlgEnc ++
      tlv tagSeq (tlv tagOid oidCtRta ++ tlv 0xA0 (tlv tagOctetString content)) ++ tlv 0xA0 (certCs.map (tlv tagSeq)).flatten ++
      (if crlCs.map (tlv tagSeq) = [] then [] else tlv 0xA1 (crlCs.map (tlv tagSeq)).flatten) ++
      tlv tagSet ((signers.map fun s => CmsEnc.signerInfoEnc s.sid s.attrs s.signature).flatten)) =
      some (content, certs, crls, signers) := by
    unfold rtaSignedData
    simp only [List.append_assoc]
    rw [CmsEnc.skipU8_enc]
    dsimp only
    rw [AsDer.takeCons_tlv' tagSet _ _ (by decide) (by decide)]
    dsimp only
    have hd := CmsEnc.takeDigestAlg_enc []
    rw [List.append_nil] at hd
    rw [hd]
    dsimp only
    simp only [ne_eq, not_true_eq_false, if_false]
    have henc : ∀ r, rtaEncap (tlv tagSeq (tlv tagOid oidCtRta ++ tlv 0xA0 (tlv tagOctetString content)) ++ r) = some (content, r) := by
      intro r
      unfold rtaEncap
      rw [AsDer.takeCons_tlv' tagSeq _ _ (by decide) (by decide)]
      dsimp only
      rw [IpDer.takePrim_tlv' tagOid oidCtRta _ (by decide) (by decide)]
      dsimp only
      simp only [ne_eq, not_true_eq_false, if_false]
      rw [takeCons_tlv_nil 0xA0 _ (by decide) (by decide)]
      dsimp only
      simp only [not_true_eq_false, if_false]
      rw [takePrim_tlv_nil tagOctetString content (by decide) (by decide)]
      simp
    rw [henc]
    dsimp only
    rw [AsDer.takeCons_tlv' 0xA0 _ _ (by decide) (by decide)]
    dsimp only
    rw [foldCons_items' tagSeq (by decide) (by decide) rtaCert certCs []]
    rw [fold_collect rtaCert certBody (fun acc c => rfl) certCs certs [] hcerts]
    dsimp only
    simp only [List.nil_append]
    -- CRLs
    have hcr : ∀ r, (r = [] ∨ ∃ c r', r = tlv tagSet c ++ r') →
        rtaCrls ((if crlCs.map (tlv tagSeq) = [] then [] else tlv 0xA1 (crlCs.map (tlv tagSeq)).flatten) ++ r) = some (crls, r) := by
      intro r hr
      unfold rtaCrls
      by_cases he : crlCs = []
      · subst he
        have : crls = [] := by cases crls with | nil => rfl | cons _ _ => simp at hcrls
        subst this
        simp only [List.map_nil, if_true, List.nil_append]
        rcases hr with rfl | ⟨c, r', rfl⟩
        · rfl
        · rw [takeOptCons_other' 0xA1 tagSet c r' (by decide) (by decide)]
      · have hne : ¬ crlCs.map (tlv tagSeq) = [] := by simpa using he
        simp only [hne, if_false]
        rw [takeOptCons_tlv' 0xA1 _ r (by decide) (by decide)]
        dsimp only
        rw [foldCons_items' tagSeq (by decide) (by decide) rtaCrl crlCs []]
        rw [fold_collect rtaCrl CrlDer.crlInner (fun acc c => rfl) crlCs crls [] hcrls]
        simp
    rw [hcr _ (Or.inr ⟨_, [], (List.append_nil _).symm⟩)]
    dsimp only
    rw [takeCons_tlv_nil tagSet _ (by decide) (by decide)]
    dsimp only
    simp only [not_true_eq_false, if_false]
    -- signer infos
    have hitems : ((signers.map fun s => CmsEnc.signerInfoEnc s.sid s.attrs s.signature).flatten) =
        (((signers.map fun s => tlv tagInt [3] ++ tlv 0x80 s.sid ++ CmsEnc.digestAlgEnc ++ tlv 0xA0 s.attrs ++ CmsEnc.cmsSigAlgEnc ++
          tlv tagOctetString s.signature).map (tlv tagSeq)).flatten) := by
      rw [List.map_map]
      rfl
    rw [hitems, foldCons_items' tagSeq (by decide) (by decide) rtaSigner _ []]
    have hsg : ∀ (l acc : List Signer), (∀ s ∈ l, s.sid.length = 20 ∧
          SigObj.parseAttrs true s.attrs = some (oidCtRta, s.messageDigest, s.signingTime)) →
        (l.map fun s => tlv tagInt [3] ++ tlv 0x80 s.sid ++ CmsEnc.digestAlgEnc ++ tlv 0xA0 s.attrs ++ CmsEnc.cmsSigAlgEnc ++
          tlv tagOctetString s.signature).foldlM rtaSigner acc = some (acc ++ l) := by
      intro l
      induction l with
      | nil => intro acc _; simp
      | cons s l ih =>
        intro acc h
        obtain ⟨h1, h2⟩ := h s (List.mem_cons_self ..)
        have hone : rtaSigner acc (tlv tagInt [3] ++ tlv 0x80 s.sid ++ CmsEnc.digestAlgEnc ++ tlv 0xA0 s.attrs ++
            CmsEnc.cmsSigAlgEnc ++ tlv tagOctetString s.signature) = some (acc ++ [s]) := by
          unfold rtaSigner
          rw [CmsEnc.signerInfo_enc oidCtRta s.sid s.attrs s.messageDigest s.signature s.signingTime h1 h2]
          rfl
        simp only [List.map_cons, List.foldlM_cons, hone, Option.bind_eq_bind, Option.bind_some]
        have := ih (acc ++ [s]) (fun x hx => h x (List.mem_cons_of_mem _ hx))
        simpa [List.append_assoc] using this
    rw [hsg signers [] hs]
    simp
  simp only [List.append_assoc] at hsd ⊢
  rw [hsd]
  simp [hatt]

end Rpki.RtaEnc
