import Rpki.Model.Prefix
namespace Rpki.Prefix
open Rpki.Consts

/-! Arithmetic facts about aligned blocks. `P`, `Q` are block sizes with `Q ∣ P`. -/

theorem div_mul_le (x P : Nat) : x / P * P ≤ x := Nat.div_mul_le_self x P

theorem lt_div_mul_add (x P : Nat) (hP : 0 < P) : x < x / P * P + P := by
  have := Nat.lt_mul_div_succ x hP
  rw [Nat.mul_add, Nat.mul_one, Nat.mul_comm] at this
  exact this

/-- a `Q`-aligned block of size `Q` lies inside the `P`-aligned block containing its start -/
theorem block_in (x P Q : Nat) (hQ : 0 < Q) (hdiv : Q ∣ P) (hP : 0 < P) (hx : x % Q = 0) :
    x + Q ≤ x / P * P + P := by
  obtain ⟨R, rfl⟩ := hdiv
  have hR : 0 < R := by
    rcases Nat.eq_zero_or_pos R with h | h
    · subst h; simp at hP
    · exact h
  obtain ⟨b, rfl⟩ : ∃ b, x = Q * b := ⟨x / Q, by
    have := Nat.div_add_mod x Q; rw [hx] at this; omega⟩
  rw [Nat.mul_div_mul_left _ _ hQ]
  have h1 : b < b / R * R + R := lt_div_mul_add b R hR
  have h2 : Q * (b + 1) ≤ Q * (b / R * R + R) := Nat.mul_le_mul_left Q h1
  calc Q * b + Q = Q * (b + 1) := by rw [Nat.mul_add, Nat.mul_one]
    _ ≤ Q * (b / R * R + R) := h2
    _ = b / R * (Q * R) + Q * R := by
        rw [Nat.mul_add, ← Nat.mul_assoc, ← Nat.mul_assoc, Nat.mul_comm Q (b / R)]

theorem aligned_div_mul (x P : Nat) (h : x % P = 0) : x / P * P = x := by
  have := Nat.div_add_mod x P; rw [h] at this
  rw [Nat.mul_comm]; omega

/-- if `a*P ≤ y < a*P + P` then `y / P * P = a*P` -/
theorem div_mul_of_range (y P a : Nat) (hP : 0 < P) (h1 : a * P ≤ y) (h2 : y < a * P + P) :
    y / P * P = a * P := by
  have : y / P = a := by
    apply Nat.div_eq_of_lt_le
    · rw [Nat.mul_comm] at h1; rw [Nat.mul_comm]; exact h1
    · rw [Nat.add_mul, Nat.one_mul]; exact h2
  rw [this]

theorem pow_pos2 (k : Nat) : 0 < 2 ^ k := Nat.pow_pos (by decide)

theorem pow_dvd_of_le {a b : Nat} (h : a ≤ b) : 2 ^ a ∣ 2 ^ b := Nat.pow_dvd_pow 2 h

theorem pow_lt_of_lt {a b : Nat} (h : a < b) : 2 ^ a < 2 ^ b := Nat.pow_lt_pow_right (by decide) h

theorem pow_le_of_le {a b : Nat} (h : a ≤ b) : 2 ^ a ≤ 2 ^ b := Nat.pow_le_pow_right (by decide) h

/-! The `FamilyAndLen` byte. -/

/-- the 256-entry table: what `new_v4`/`new_v6` accept and how `len`/`is_v4` read it back -/
theorem fal_table : ∀ n, n < 256 →
    ((falV4 n).isSome ↔ n ≤ 32) ∧ ((falV6 n).isSome ↔ n ≤ 128) ∧
    (∀ f, falV4 n = some f → falIsV4 f = true ∧ falLen f = n ∧ f < 256) ∧
    (∀ f, falV6 n = some f → falIsV4 f = false ∧ falLen f = n ∧ f < 256) := by
  decide +kernel

theorem falLen_le (fal : Nat) (h : fal ≤ 32 ∨ fal = 64 ∨ (128 ≤ fal ∧ fal ≤ 255)) : falLen fal ≤ 128 := by
  unfold falLen falV6Max falXor
  rcases h with h | h | h
  · have : fal / 64 = 0 := by omega
    simp [this]; omega
  · subst h; decide
  · have h1 : ¬ fal / 64 = 0 := by omega
    have h2 : ¬ fal / 64 = 1 := by omega
    simp [h1, h2]; omega

theorem WF.fal_cases {p : Pfx} (h : WF p) : p.fal ≤ 32 ∨ p.fal = 64 ∨ (128 ≤ p.fal ∧ p.fal ≤ 255) := by
  rcases h.2.1 with h | h | h
  · exact Or.inl h.1
  · exact Or.inr (Or.inl h)
  · exact Or.inr (Or.inr h)

theorem WF.len_le {p : Pfx} (h : WF p) : p.len ≤ 128 := falLen_le p.fal h.fal_cases

theorem WF.v4_len_le {p : Pfx} (h : WF p) (h4 : p.isV4 = true) : p.len ≤ 32 := by
  unfold Pfx.isV4 falIsV4 at h4
  unfold Pfx.len falLen
  have h64 : p.fal / 64 = 0 := by simpa using h4
  simp [h64]
  rcases h.fal_cases with h | h | h <;> omega

/-- under well-formedness the last address is `bits + 2^host - 1` -/
theorem WF.hi_eq {p : Pfx} (h : WF p) : p.hi = p.bits + 2 ^ hostBits p.len - 1 := by
  unfold Pfx.hi intoMax
  have hl := h.len_le
  have hp := pow_pos2 (hostBits p.len)
  split
  · have : hostBits p.len = 0 := by unfold hostBits; omega
    rw [this]; simp
  · rw [aligned_div_mul _ _ h.2.2]; omega

/-- family and length determine the byte -/
theorem fal_inj {p q : Pfx} (hp : WF p) (hq : WF q) (hf : p.isV4 = q.isV4) (hl : p.len = q.len) :
    p.fal = q.fal := by
  have h1 := hp.fal_cases; have h2 := hq.fal_cases
  unfold Pfx.isV4 falIsV4 at hf
  unfold Pfx.len falLen falV6Max falXor at hl
  rcases h1 with h1 | h1 | h1 <;> rcases h2 with h2 | h2 | h2
  all_goals (try (have a1 : p.fal / 64 = 0 := by omega))
  all_goals (try (have a2 : q.fal / 64 = 0 := by omega))
  all_goals (try (have a1 : p.fal / 64 = 1 := by omega))
  all_goals (try (have a2 : q.fal / 64 = 1 := by omega))
  all_goals (try (have a1 : ¬ p.fal / 64 = 0 := by omega))
  all_goals (try (have a2 : ¬ q.fal / 64 = 0 := by omega))
  all_goals (try (have b1 : ¬ p.fal / 64 = 1 := by omega))
  all_goals (try (have b2 : ¬ q.fal / 64 = 1 := by omega))
  all_goals simp_all
  all_goals omega

end Rpki.Prefix
