import Rpki.Proofs.UriRsync7
namespace Rpki.Uri
open Rpki.Consts

/-! ### case folding helpers -/

theorem toLower_idem (c : Nat) : toLower (toLower c) = toLower c := by
  unfold toLower; split <;> (try split) <;> omega

theorem toLower_not_upper (c : Nat) : ¬ (65 ≤ toLower c ∧ toLower c ≤ 90) := by
  unfold toLower; split <;> omega

theorem toLower_eq_dot (c : Nat) : toLower c = dot ↔ c = dot := by
  unfold toLower dot; split <;> omega

theorem map_toLower_idem (a : Bytes) : (a.map toLower).map toLower = a.map toLower := by
  induction a with
  | nil => rfl
  | cons c cs ih => simp only [List.map_cons, toLower_idem, ih]

theorem any_upper_map_toLower (a : Bytes) :
    (a.map toLower).any (fun c => 65 ≤ c ∧ c ≤ 90) = false := by
  induction a with
  | nil => rfl
  | cons c cs ih =>
    simp only [List.map_cons, List.any_cons, ih, Bool.or_false, decide_eq_false_iff_not]
    exact toLower_not_upper c

theorem map_toLower_of_no_upper (a : Bytes)
    (h : a.any (fun c => 65 ≤ c ∧ c ≤ 90) = false) : a.map toLower = a := by
  induction a with
  | nil => rfl
  | cons c cs ih =>
    simp only [List.any_cons, Bool.or_eq_false_iff, decide_eq_false_iff_not] at h
    simp only [List.map_cons, ih h.2]
    congr 1
    unfold toLower; rw [if_neg h.1]

theorem isUriAscii_toLower (c : Nat) (h : isUriAscii c = true) : isUriAscii (toLower c) = true := by
  simp only [isUriAscii, uriAsciiRanges, inRanges, toLower, Bool.or_eq_true, Bool.and_eq_true,
    decide_eq_true_eq, Bool.or_false] at *
  split <;> omega

theorem checkUriAscii_map_toLower (a : Bytes) (h : checkUriAscii a = true) :
    checkUriAscii (a.map toLower) = true := by
  unfold checkUriAscii at *
  rw [List.all_eq_true] at *
  intro x hx
  obtain ⟨c, hc, rfl⟩ := List.mem_map.1 hx
  exact isUriAscii_toLower c (h c hc)

theorem checkUriAscii_append (a b : Bytes) :
    checkUriAscii (a ++ b) = (checkUriAscii a && checkUriAscii b) := by
  unfold checkUriAscii; rw [List.all_append]

theorem slash_not_mem_map_toLower {a : Bytes} (h : slash ∉ a) : slash ∉ a.map toLower := by
  intro hm
  obtain ⟨c, hc, e⟩ := List.mem_map.1 hm
  exact h ((toLower_eq_slash c).1 e ▸ hc)

theorem goodSeg_map_toLower {a : Bytes} (h : goodSeg a) : goodSeg (a.map toLower) := by
  obtain ⟨h1, h2, h3⟩ := h
  refine ⟨?_, ?_, ?_⟩
  · cases a with
    | nil => exact absurd rfl h1
    | cons c cs => simp
  · intro e
    rcases a with _ | ⟨x, _ | ⟨y, _ | ⟨z, t⟩⟩⟩ <;>
      simp only [List.map_cons, List.map_nil, List.cons.injEq, and_true, reduceCtorEq,
        and_false] at e
    exact h2 (by rw [(toLower_eq_dot x).1 e.1, (toLower_eq_dot y).1 e.2])
  · intro e
    rcases a with _ | ⟨x, _ | ⟨y, t⟩⟩ <;>
      simp only [List.map_cons, List.map_nil, List.cons.injEq, and_true, reduceCtorEq,
        and_false] at e
    exact h3 (by rw [(toLower_eq_dot x).1 e])

/-- splitting at the first slash is unique -/
theorem first_slash_unique : ∀ (a a' r r' : Bytes), slash ∉ a → slash ∉ a' →
    a ++ slash :: r = a' ++ slash :: r' → a = a' ∧ r = r' := by
  intro a
  induction a with
  | nil =>
    intro a' r r' _ h2 h
    cases a' with
    | nil => simpa using h
    | cons c cs =>
      simp only [List.nil_append, List.cons_append, List.cons.injEq] at h
      simp [← h.1] at h2
  | cons d ds ih =>
    intro a' r r' h1 h2 h
    cases a' with
    | nil =>
      simp only [List.nil_append, List.cons_append, List.cons.injEq] at h
      simp [h.1] at h1
    | cons c cs =>
      simp only [List.cons_append, List.cons.injEq] at h
      simp only [List.mem_cons, not_or] at h1 h2
      have := ih cs r r' h1.2 h2.2 h.2
      exact ⟨by rw [h.1, this.1], this.2⟩

theorem rsyncScheme_lower : rsyncScheme.map toLower = rsyncScheme := by decide

/-! ### the shape of an accepted URI together with its canonical module -/

theorem Rsync.Inv.canon {u : Rsync} (h : u.Inv) :
    ∃ sch auth md path,
      u.bytes = sch ++ (auth ++ slash :: (md ++ slash :: path)) ∧ u.bytes.take 8 = sch ∧
      sch.length = 8 ∧ sch.map toLower = rsyncScheme ∧
      u.authority = auth ∧ u.moduleName = md ∧ u.path = path ∧
      goodSeg auth ∧ goodSeg md ∧ slash ∉ auth ∧ slash ∉ md ∧
      u.moduleStart = 9 + auth.length ∧ u.pathStart = 9 + auth.length + md.length + 1 ∧
      u.module = sch ++ (auth ++ slash :: (md ++ [slash])) ∧
      u.canonicalModule =
        (if auth.any (fun c => 65 ≤ c ∧ c ≤ 90) then rsyncScheme else sch) ++
          (auth.map toLower ++ slash :: (md ++ [slash])) := by
  obtain ⟨auth, md, path, hb, ha, hm, hp, ga, gm, na, nm, h1, h2, _, h8⟩ := h.parts
  have hsch : (u.bytes.take 8).map toLower = rsyncScheme := by
    have hs := h.2.1
    unfold startsWithIgnoreCase at hs
    split at hs
    · exact absurd hs (by simp)
    · have := (eqIgnoreCase_iff _ _).1 hs
      rw [rsyncScheme_lower] at this
      exact this
  have hmod : u.module = u.bytes.take 8 ++ (auth ++ slash :: (md ++ [slash])) := by
    have e : u.bytes = (u.bytes.take 8 ++ (auth ++ slash :: (md ++ [slash]))) ++ path := by
      conv => lhs; rw [hb]
      simp
    have hlen : (u.bytes.take 8 ++ (auth ++ slash :: (md ++ [slash]))).length = u.pathStart := by
      simp only [List.length_append, List.length_cons, List.length_nil, h8]; omega
    unfold Rsync.module
    conv => lhs; rw [e, List.take_left' hlen]
  refine ⟨u.bytes.take 8, auth, md, path, hb, rfl, h8, hsch, ha, hm, hp, ga, gm, na, nm, h1, h2,
    hmod, ?_⟩
  unfold Rsync.canonicalModule
  rw [ha, hm]
  by_cases hup : auth.any (fun c => 65 ≤ c ∧ c ≤ 90) = true
  · rw [if_pos hup, if_pos hup]
    show rsyncScheme ++ auth.map toLower ++ [slash] ++ md ++ [slash] = _
    simp
  · rw [if_neg hup, if_neg hup]
    have : u.bytes.take u.pathStart = u.module := rfl
    rw [this, hmod, map_toLower_of_no_upper auth (by simpa using hup)]

theorem take_ms (s a r : Bytes) (hs : s.length = 8) :
    (s ++ (a ++ slash :: r)).take (9 + a.length) = s ++ (a ++ [slash]) := by
  have e : s ++ (a ++ slash :: r) = (s ++ (a ++ [slash])) ++ r := by simp
  rw [e]
  exact List.take_left' (by simp only [List.length_append, List.length_cons, List.length_nil, hs]; omega)

theorem slice_ms_ps (s a m p : Bytes) (hs : s.length = 8) :
    slice (s ++ (a ++ slash :: (m ++ slash :: p))) (9 + a.length) (9 + a.length + m.length + 1)
      = m ++ [slash] := by
  have e : s ++ (a ++ slash :: (m ++ slash :: p)) = ((s ++ (a ++ [slash])) ++ (m ++ [slash])) ++ p := by
    simp
  unfold slice
  rw [e, List.take_left' (by
    simp only [List.length_append, List.length_cons, List.length_nil, hs]; omega)]
  exact List.drop_left' (by
    simp only [List.length_append, List.length_cons, List.length_nil, hs]; omega)

/-- the same, with the scheme of the canonical module abstracted: it has 8 bytes, folds to
`rsync://`, is the scheme as written when that one is already `rsync://`. -/
theorem Rsync.Inv.canon2 {u : Rsync} (h : u.Inv) :
    ∃ sch sch' auth md path,
      u.bytes = sch ++ (auth ++ slash :: (md ++ slash :: path)) ∧ u.bytes.take 8 = sch ∧
      sch.length = 8 ∧ sch.map toLower = rsyncScheme ∧
      u.authority = auth ∧ u.moduleName = md ∧ u.path = path ∧
      goodSeg auth ∧ goodSeg md ∧ slash ∉ auth ∧ slash ∉ md ∧
      u.moduleStart = 9 + auth.length ∧ u.pathStart = 9 + auth.length + md.length + 1 ∧
      u.module = sch ++ (auth ++ slash :: (md ++ [slash])) ∧
      sch'.length = 8 ∧ sch'.map toLower = rsyncScheme ∧ (sch = rsyncScheme → sch' = rsyncScheme) ∧
      checkUriAscii u.canonicalModule = true ∧
      u.canonicalModule = sch' ++ (auth.map toLower ++ slash :: (md ++ [slash])) := by
  obtain ⟨sch, auth, md, path, hb, ht, hl, hsl, ha, hm, hp, ga, gm, na, nm, h1, h2, hmod, hc⟩ := h.canon
  have hasc : checkUriAscii u.bytes = true := h.1
  have hl' : (if auth.any (fun c => 65 ≤ c ∧ c ≤ 90) then rsyncScheme else sch).length = 8 := by
    split
    · rfl
    · exact hl
  have hsl' : (if auth.any (fun c => 65 ≤ c ∧ c ≤ 90) then rsyncScheme else sch).map toLower
      = rsyncScheme := by
    split
    · exact rsyncScheme_lower
    · exact hsl
  have hk : sch = rsyncScheme →
      (if auth.any (fun c => 65 ≤ c ∧ c ≤ 90) then rsyncScheme else sch) = rsyncScheme := by
    intro e; split
    · rfl
    · exact e
  have hasc' : checkUriAscii
      (if auth.any (fun c => 65 ≤ c ∧ c ≤ 90) then rsyncScheme else sch) = true := by
    split
    · decide
    · rw [← ht]; exact all_take 8 hasc
  refine ⟨sch, _, auth, md, path, hb, ht, hl, hsl, ha, hm, hp, ga, gm, na, nm, h1, h2, hmod,
    hl', hsl', hk, ?_, hc⟩
  rw [hc]
  rw [hb] at hasc
  have e1 : sch ++ (auth ++ slash :: (md ++ slash :: path)) = sch ++ (auth ++ ([slash] ++ (md ++ ([slash] ++ path)))) := by
    simp
  rw [e1] at hasc
  simp only [checkUriAscii_append, Bool.and_eq_true] at hasc
  obtain ⟨_, ha', hs', hm', _, _⟩ := hasc
  have e2 : auth.map toLower ++ slash :: (md ++ [slash]) = auth.map toLower ++ ([slash] ++ (md ++ [slash])) := by
    simp
  rw [e2]
  simp only [checkUriAscii_append, Bool.and_eq_true]
  exact ⟨hasc', checkUriAscii_map_toLower _ ha', hs', hm', hs'⟩

/-! ### (1) shape of the canonical module -/

theorem Rsync.Inv.canonicalModule_shape {u : Rsync} (h : u.Inv) :
    u.canonicalModule.length = u.pathStart ∧
    u.canonicalModule.drop (8 + u.authority.length) = u.module.drop (8 + u.authority.length) ∧
    u.canonicalModule.drop (8 + u.authority.length) = slash :: (u.moduleName ++ [slash]) ∧
    slice u.canonicalModule 8 (8 + u.authority.length) = u.authority.map toLower ∧
    eqIgnoreCase (u.canonicalModule.take 8) rsyncScheme = true := by
  obtain ⟨sch, sch', auth, md, path, hb, ht, hl, hsl, ha, hm, hp, ga, gm, na, nm, h1, h2, hmod,
    hl', hsl', hk, hasc, hc⟩ := h.canon2
  rw [ha, hm, hc, hmod]
  have d1 : (sch' ++ (auth.map toLower ++ slash :: (md ++ [slash]))).drop (8 + auth.length)
      = slash :: (md ++ [slash]) := by
    rw [← List.append_assoc]
    exact List.drop_left' (by simp only [List.length_append, List.length_map, hl'])
  have d2 : (sch ++ (auth ++ slash :: (md ++ [slash]))).drop (8 + auth.length)
      = slash :: (md ++ [slash]) := by
    rw [← List.append_assoc]
    exact List.drop_left' (by simp only [List.length_append, hl])
  refine ⟨?_, by rw [d1, d2], d1, ?_, ?_⟩
  · simp only [List.length_append, List.length_cons, List.length_nil, List.length_map, hl']; omega
  · unfold slice
    rw [← List.append_assoc, List.take_left' (by simp only [List.length_append, List.length_map, hl'])]
    exact List.drop_left' hl'
  · rw [eqIgnoreCase_iff, ← hl', List.take_left, hsl', rsyncScheme_lower]

/-- (1) For an accepted URI the canonical module has `pathStart` bytes; from the end of the
authority on it is the module text as written (`/`, module name, `/`); its authority part is the
authority in lower case; its first 8 bytes are `rsync://` up to case. -/
theorem Rsync.canonicalModule_shape (b : Bytes) (u : Rsync) (h : Rsync.fromBytes b = .ok u) :
    u.canonicalModule.length = u.pathStart ∧
    u.canonicalModule.drop (8 + u.authority.length) = u.module.drop (8 + u.authority.length) ∧
    u.canonicalModule.drop (8 + u.authority.length) = slash :: (u.moduleName ++ [slash]) ∧
    slice u.canonicalModule 8 (8 + u.authority.length) = u.authority.map toLower ∧
    eqIgnoreCase (u.canonicalModule.take 8) rsyncScheme = true :=
  (Rsync.inv_of_fromBytes b u h).2.canonicalModule_shape

/-! ### (2) the canonical module is itself an accepted URI, of the same module, with an empty path -/

theorem Rsync.Inv.canonicalModule_inv {u : Rsync} (h : u.Inv) :
    (Rsync.mk u.canonicalModule u.moduleStart u.pathStart).Inv := by
  obtain ⟨sch, sch', auth, md, path, hb, ht, hl, hsl, ha, hm, hp, ga, gm, na, nm, h1, h2, hmod,
    hl', hsl', hk, hasc, hc⟩ := h.canon2
  refine ⟨hasc, ?_, auth.map toLower, md, [], ?_, goodSeg_map_toLower ga, gm,
    slash_not_mem_map_toLower na, nm, ?_, ?_, rfl⟩
  · show startsWithIgnoreCase u.canonicalModule rsyncScheme = true
    have hlen := h.canonicalModule_shape.1
    have h5 := h.canonicalModule_shape.2.2.2.2
    unfold startsWithIgnoreCase
    have : ¬ u.canonicalModule.length < rsyncScheme.length := by
      rw [hlen, h2]; simp only [rsyncScheme, List.length_cons, List.length_nil]; omega
    rw [if_neg this]
    exact h5
  · show u.canonicalModule.drop 8 = _
    rw [hc]; exact List.drop_left' hl'
  · show u.moduleStart = _
    rw [h1, List.length_map]
  · show u.pathStart = _
    rw [h2, List.length_map]

theorem Rsync.Inv.canonicalModule_fromBytes {u : Rsync} (h : u.Inv) :
    Rsync.fromBytes u.canonicalModule = .ok ⟨u.canonicalModule, u.moduleStart, u.pathStart⟩ :=
  Rsync.fromBytes_of_inv _ h.canonicalModule_inv

theorem Rsync.Inv.canonicalModule_eqModule {u : Rsync} (h : u.Inv) :
    (Rsync.mk u.canonicalModule u.moduleStart u.pathStart).eqModule u = true := by
  obtain ⟨sch, sch', auth, md, path, hb, ht, hl, hsl, ha, hm, hp, ga, gm, na, nm, h1, h2, hmod,
    hl', hsl', hk, hasc, hc⟩ := h.canon2
  rw [Rsync.eqModule_iff]
  refine ⟨rfl, rfl, ?_, ?_⟩
  · show (u.canonicalModule.take u.moduleStart).map toLower = _
    rw [hc, hb, h1]
    have := take_ms sch' (auth.map toLower) (md ++ [slash]) hl'
    rw [List.length_map] at this
    rw [this, take_ms sch auth _ hl]
    simp only [List.map_append, hsl, hsl', map_toLower_idem]
  · show slice u.canonicalModule u.moduleStart u.pathStart = _
    rw [hc, hb, h1, h2]
    have := slice_ms_ps sch' (auth.map toLower) md [] hl'
    rw [List.length_map] at this
    rw [this, slice_ms_ps sch auth md path hl]

/-- (2) The canonical module of an accepted URI is itself an accepted URI, with an empty path,
in the same module (`eq_module` as in the source: module name compared exactly). -/
theorem Rsync.canonicalModule_accepted (b : Bytes) (u : Rsync) (h : Rsync.fromBytes b = .ok u) :
    ∃ v, Rsync.fromBytes u.canonicalModule = .ok v ∧ v.path = [] ∧ v.eqModule u = true := by
  have hi := (Rsync.inv_of_fromBytes b u h).2
  refine ⟨_, hi.canonicalModule_fromBytes, ?_, hi.canonicalModule_eqModule⟩
  show u.canonicalModule.drop u.pathStart = []
  rw [List.drop_eq_nil_iff, hi.canonicalModule_shape.1]
  exact Nat.le_refl _

/-! ### (3) idempotence -/

theorem Rsync.canonicalModule_of_no_upper (w : Rsync)
    (h : w.authority.any (fun c => 65 ≤ c ∧ c ≤ 90) = false) :
    w.canonicalModule = w.bytes.take w.pathStart := by
  unfold Rsync.canonicalModule
  rw [h]; rfl

/-- (3) Re-reading the canonical module and taking its canonical module gives the same text. -/
theorem Rsync.canonicalModule_idem (b : Bytes) (u v : Rsync) (h : Rsync.fromBytes b = .ok u)
    (hv : Rsync.fromBytes u.canonicalModule = .ok v) : v.canonicalModule = u.canonicalModule := by
  have hi := (Rsync.inv_of_fromBytes b u h).2
  rw [hi.canonicalModule_fromBytes] at hv
  injection hv with hv
  subst hv
  obtain ⟨hlen, _, _, hau, _⟩ := hi.canonicalModule_shape
  obtain ⟨_, _, auth, _, _, _, _, _, _, ha, _, _, _, _, _, _, h1, _⟩ := hi.canon2
  have hauth : (Rsync.mk u.canonicalModule u.moduleStart u.pathStart).authority
      = u.authority.map toLower := by
    show slice u.canonicalModule 8 (u.moduleStart - 1) = _
    rw [← hau, h1, ha]
    congr 1
    omega
  rw [Rsync.canonicalModule_of_no_upper _ (by rw [hauth]; exact any_upper_map_toLower _)]
  show List.take u.pathStart u.canonicalModule = u.canonicalModule
  rw [← hlen]; exact List.take_length

/-! ### (4) same canonical module ⇒ same module -/

/-- (4) Two accepted URIs with the same canonical module are in the same module. -/
theorem Rsync.canonicalModule_sound (b b' : Bytes) (u o : Rsync) (h : Rsync.fromBytes b = .ok u)
    (h' : Rsync.fromBytes b' = .ok o) (hc : u.canonicalModule = o.canonicalModule) :
    u.eqModule o = true := by
  have hu := (Rsync.inv_of_fromBytes b u h).2
  have ho := (Rsync.inv_of_fromBytes b' o h').2
  obtain ⟨s1, s1', a1, m1, p1, hb1, _, hl1, hsl1, _, _, _, _, _, na1, nm1, hms1, hps1, _,
    hl1', _, _, _, hc1⟩ := hu.canon2
  obtain ⟨s2, s2', a2, m2, p2, hb2, _, hl2, hsl2, _, _, _, _, _, na2, nm2, hms2, hps2, _,
    hl2', _, _, _, hc2⟩ := ho.canon2
  rw [hc1, hc2] at hc
  have ⟨_, hrest⟩ := List.append_inj hc (hl1'.trans hl2'.symm)
  have ⟨hA, hM⟩ := first_slash_unique _ _ _ _ (slash_not_mem_map_toLower na1)
    (slash_not_mem_map_toLower na2) hrest
  have hal : a1.length = a2.length := by
    have := congrArg List.length hA
    simpa only [List.length_map] using this
  have hml : m1.length = m2.length := by
    have := congrArg List.length hM
    simpa only [List.length_append, List.length_cons, List.length_nil, Nat.add_right_cancel_iff]
      using this
  rw [Rsync.eqModule_iff]
  refine ⟨by omega, by omega, ?_, ?_⟩
  · rw [hb1, hb2, hms1, hms2, take_ms s1 a1 _ hl1, take_ms s2 a2 _ hl2]
    simp only [List.map_append, hsl1, hsl2, hA]
  · rw [hb1, hb2, hms1, hms2, hps1, hps2, slice_ms_ps s1 a1 m1 p1 hl1, slice_ms_ps s2 a2 m2 p2 hl2]
    exact hM

/-! ### (5) the converse: false in general, true for URIs written with the scheme `rsync://` -/

def exUpperScheme : Bytes := [82, 83, 89, 78, 67, 58, 47, 47, 104, 47, 109, 47]     -- "RSYNC://h/m/"
def exLowerScheme : Bytes := [114, 115, 121, 110, 99, 58, 47, 47, 104, 47, 109, 47] -- "rsync://h/m/"

/-- (5a) "same module ⇒ same canonical module" fails: the scheme is kept as written when the
authority has no upper-case letter.  `RSYNC://h/m/` and `rsync://h/m/` are both accepted and in the
same module, but their canonical modules (the texts themselves) differ. -/
theorem fromBytes_of_toOption {b : Bytes} {u : Rsync}
    (h : (Rsync.fromBytes b).toOption = some u) : Rsync.fromBytes b = .ok u := by
  cases e : Rsync.fromBytes b with
  | error x => rw [e] at h; exact absurd h (by simp [Except.toOption])
  | ok v => rw [e] at h; simpa [Except.toOption] using h

theorem Rsync.canonicalModule_scheme_counterexample :
    ∃ u o, Rsync.fromBytes exUpperScheme = .ok u ∧ Rsync.fromBytes exLowerScheme = .ok o ∧
      u.eqModule o = true ∧ u.canonicalModule ≠ o.canonicalModule :=
  ⟨⟨exUpperScheme, 10, 12⟩, ⟨exLowerScheme, 10, 12⟩, fromBytes_of_toOption (by decide),
    fromBytes_of_toOption (by decide), by decide, by decide⟩

/-- (5b) The converse of (4) for URIs written with the lower-case scheme `rsync://`. -/
theorem Rsync.canonicalModule_complete_partial (b b' : Bytes) (u o : Rsync)
    (h : Rsync.fromBytes b = .ok u) (h' : Rsync.fromBytes b' = .ok o)
    (hsu : u.bytes.take 8 = rsyncScheme) (hso : o.bytes.take 8 = rsyncScheme)
    (he : u.eqModule o = true) : u.canonicalModule = o.canonicalModule := by
  have hu := (Rsync.inv_of_fromBytes b u h).2
  have ho := (Rsync.inv_of_fromBytes b' o h').2
  obtain ⟨s1, s1', a1, m1, p1, hb1, ht1, hl1, hsl1, _, _, _, _, _, na1, nm1, hms1, hps1, _,
    hl1', _, hk1, _, hc1⟩ := hu.canon2
  obtain ⟨s2, s2', a2, m2, p2, hb2, ht2, hl2, hsl2, _, _, _, _, _, na2, nm2, hms2, hps2, _,
    hl2', _, hk2, _, hc2⟩ := ho.canon2
  have e1 : s1' = rsyncScheme := hk1 (ht1 ▸ hsu)
  have e2 : s2' = rsyncScheme := hk2 (ht2 ▸ hso)
  obtain ⟨hps, hms, hpre, hsl⟩ := (Rsync.eqModule_iff u o).1 he
  rw [hb1, hb2, hms1, hms2, take_ms s1 a1 _ hl1, take_ms s2 a2 _ hl2] at hpre
  rw [hb1, hb2, hms1, hms2, hps1, hps2, slice_ms_ps s1 a1 m1 p1 hl1,
    slice_ms_ps s2 a2 m2 p2 hl2] at hsl
  simp only [List.map_append, hsl1, hsl2, List.append_cancel_left_eq] at hpre
  have hA : a1.map toLower = a2.map toLower :=
    (List.append_inj hpre (by simp only [List.length_map]; omega)).1
  rw [hc1, hc2, e1, e2, hA, hsl]

end Rpki.Uri
