/-
  `CertDer.decodeTbs` reads back what `CertEnc.encodeTbs` writes (the builder / decoder pair
  `TbsCert::encode_ref` / `TbsCert::from_constructed`).
-/
import Rpki.Model.CertEnc
import Rpki.Proofs.CertDerLemmas
import Rpki.Proofs.CrlCodec
import Rpki.Proofs.IpDerV4
import Rpki.Props.C17
namespace Rpki.CertEnc
open Rpki.Der Rpki.CertDer Rpki.Chain Rpki.Consts

/-! ### generic: the loops over the items of a constructed content -/

theorem takeOptCons_tlv' (tag : Nat) (c rest : Bytes) (ht : tag % 32 ≠ 31) (hcons : isCons tag = true) :
    takeOptCons tag (tlv tag c ++ rest) = .ok c rest := by
  have hr := AsDer.readTlv_tlv' tag c rest ht
  rw [tlv_append] at hr ⊢
  simp only [takeOptCons, ht, if_false, ne_eq, not_true_eq_false, hcons, Bool.not_true,
    Bool.false_eq_true, hr]

theorem takeOptPrim_tlv' (tag : Nat) (c rest : Bytes) (ht : tag % 32 ≠ 31) (hprim : isCons tag = false) :
    takeOptPrim tag (tlv tag c ++ rest) = .ok c rest := by
  have hr := AsDer.readTlv_tlv' tag c rest ht
  have hn : tagNoCons tag = tag := by
    simp only [isCons, decide_eq_false_iff_not] at hprim
    simp [tagNoCons, hprim]
  rw [tlv_append] at hr ⊢
  simp only [takeOptPrim, ht, if_false, ne_eq, hn, not_true_eq_false, hprim, Bool.false_eq_true, hr]

/-- the loop over constructed items, on the concatenated encodings of a list of item contents, is the
monadic fold over that list -/
theorem foldCons_items {σ : Type} (tag : Nat) (ht : tag % 32 ≠ 31) (hc : isCons tag = true)
    (f : σ → Bytes → Option σ) :
    ∀ (items : List Bytes) (fuel : Nat) (s : σ), items.length ≤ fuel →
      foldCons tag f fuel ((items.map (tlv tag)).flatten) s = items.foldlM f s := by
  intro items
  induction items with
  | nil =>
    intro fuel s _
    cases fuel with
    | zero => simp [foldCons]
    | succ n => simp [foldCons, takeOptCons]
  | cons c items ih =>
    intro fuel s hf
    cases fuel with
    | zero => simp at hf
    | succ n =>
      rw [List.map_cons, List.flatten_cons, foldCons, takeOptCons_tlv' tag c _ ht hc]
      simp only [List.foldlM_cons]
      cases hfc : f s c with
      | none => rfl
      | some s' => exact ih n s' (by simpa using hf)

/-- every item takes at least two octets -/
theorem items_length_le (tag : Nat) (items : List Bytes) : items.length ≤ ((items.map (tlv tag)).flatten).length := by
  induction items with
  | nil => simp
  | cons c items ih =>
    simp only [List.map_cons, List.flatten_cons, List.length_append, List.length_cons]
    have : 1 ≤ (tlv tag c).length := by simp [tlv]
    omega

theorem foldCons_items' {σ : Type} (tag : Nat) (ht : tag % 32 ≠ 31) (hc : isCons tag = true)
    (f : σ → Bytes → Option σ) (items : List Bytes) (s : σ) :
    foldCons tag f ((items.map (tlv tag)).flatten).length ((items.map (tlv tag)).flatten) s = items.foldlM f s :=
  foldCons_items tag ht hc f items _ s (items_length_le tag items)

end Rpki.CertEnc

namespace Rpki.CertEnc
open Rpki.Der Rpki.CertDer Rpki.Chain Rpki.Consts

/-! ### one extension: identifier, criticality, value -/

theorem takePrim_tlv_nil (tag : Nat) (c : Bytes) (ht : tag % 32 ≠ 31) (hp : isCons tag = false) :
    takePrim tag (tlv tag c) = some (c, []) := by
  have := IpDer.takePrim_tlv' tag c [] ht hp
  rwa [List.append_nil] at this

theorem takeCons_tlv_nil (tag : Nat) (c : Bytes) (ht : tag % 32 ≠ 31) (hp : isCons tag = true) :
    takeCons tag (tlv tag c) = some (c, []) := by
  have := AsDer.takeCons_tlv' tag c [] ht hp
  rwa [List.append_nil] at this

theorem takeOid_tlv (oid rest : Bytes) (ho : oidOk oid = true) :
    takeOid (tlv tagOid oid ++ rest) = some (oid, rest) := by
  unfold takeOid
  rw [IpDer.takePrim_tlv' tagOid oid rest (by decide) (by decide)]
  simp [ho]

/-- the reader of one extension, applied to what `encode_extension` writes, is the dispatch on the identifier -/
theorem extension_extBody (e : Exts) (oid : Bytes) (crit : Bool) (v : Bytes) (ho : oidOk oid = true) :
    extension e (extBody oid crit v) = extValue e oid crit v := by
  unfold extension extBody
  rw [List.append_assoc, takeOid_tlv oid _ ho]
  cases crit with
  | true =>
    have hb : takeOptBool (tlv tagBool [255] ++ tlv tagOctetString v) = .ok true (tlv tagOctetString v) := by
      unfold takeOptBool
      rw [takeOptPrim_tlv' tagBool [255] _ (by decide) (by decide)]
      simp
    simp only [if_true, hb, takePrim_tlv_nil tagOctetString v (by decide) (by decide)]
    simp
  | false =>
    have hb : takeOptBool (tlv tagOctetString v) = .absent := by
      unfold takeOptBool
      have := takeOptPrim_other tagBool tagOctetString v [] (by decide) (by decide)
      rw [List.append_nil] at this
      rw [this]
    simp only [Bool.false_eq_true, if_false, List.nil_append, hb, takePrim_tlv_nil tagOctetString v (by decide) (by decide)]
    simp

end Rpki.CertEnc

namespace Rpki.CertEnc
open Rpki.Der Rpki.CertDer Rpki.Chain Rpki.Consts

/-! ### the extension readers on the values `encode_ref` writes -/

theorem takeOptBool_true (rest : Bytes) : takeOptBool (tlv tagBool [255] ++ rest) = .ok true rest := by
  unfold takeOptBool
  rw [takeOptPrim_tlv' tagBool [255] _ (by decide) (by decide)]
  simp

theorem xBasicConstraints_enc (e : Exts) (ca : Bool) (he : e.basicCa = none) :
    xBasicConstraints e true (tlv tagSeq (if ca then tlv tagBool [255] else [])) =
      some { e with basicCa := some ca } := by
  unfold xBasicConstraints
  simp only [he, Option.isSome_none, Bool.not_true, Bool.false_eq_true, or_self, if_false,
    takeCons_tlv_nil tagSeq _ (by decide) (by decide)]
  cases ca with
  | true =>
    have := takeOptBool_true []
    rw [List.append_nil] at this
    simp [this]
  | false => simp [takeOptBool, takeOptPrim]

theorem xSubjectKeyId_enc (e : Exts) (k : Bytes) (hk : k.length = 20) (he : e.ski = none) :
    xSubjectKeyId e false (tlv tagOctetString k) = some { e with ski := some k } := by
  unfold xSubjectKeyId
  simp [he, takePrim_tlv_nil tagOctetString k (by decide) (by decide), keyIdOk, hk]

theorem xAuthorityKeyId_enc (e : Exts) (k : Bytes) (hk : k.length = 20) (he : e.aki = none) :
    xAuthorityKeyId e false (tlv tagSeq (tlv 0x80 k)) = some { e with aki := some k } := by
  unfold xAuthorityKeyId
  simp [he, takeCons_tlv_nil tagSeq _ (by decide) (by decide), takePrim_tlv_nil 0x80 k (by decide) (by decide),
    keyIdOk, hk]

theorem xKeyUsage_enc (e : Exts) (ku : KeyUsage) (he : e.keyUsage = none) :
    xKeyUsage e true (kuValue ku) = some { e with keyUsage := some ku } := by
  unfold xKeyUsage takeBitString kuValue
  cases ku with
  | ca =>
    simp only [he, Option.isSome_none, Bool.not_true, Bool.false_eq_true, or_self, if_false,
      takePrim_tlv_nil tagBitString [1, 6] (by decide) (by decide)]
    rfl
  | ee =>
    simp only [he, Option.isSome_none, Bool.not_true, Bool.false_eq_true, or_self, if_false,
      takePrim_tlv_nil tagBitString [7, 128] (by decide) (by decide)]
    rfl

theorem xExtKeyUsage_enc (e : Exts) (kc : Bytes) (has : Bool) (hne : kc ≠ []) (he : e.eku = none)
    (hf : foldPrim tagOid (fun s o => if oidOk o then some (s || o == oidKpBgpsecRouter) else none) kc.length kc false = some has) :
    xExtKeyUsage e false (tlv tagSeq kc) = some { e with eku := some has, ekuContent := kc } := by
  unfold xExtKeyUsage
  simp [he, takeCons_tlv_nil tagSeq kc (by decide) (by decide), hne, hf]

/-- one `[6]` IA5String that the acceptance test likes -/
theorem generalNames_gn (accept : Bytes → Bool) (u : Bytes) (ha : accept u = true) (hascii : u.all (· < 128) = true) :
    generalNames accept (gn u) = some u := by
  unfold generalNames gn
  have hlen : ∃ n, (tlv 0x86 u).length = n + 1 := ⟨(encLen u.length ++ u).length, by simp [tlv]⟩
  obtain ⟨n, hn⟩ := hlen
  rw [hn]
  have := takeOptPrim_tlv' 0x86 u [] (by decide) (by decide)
  rw [List.append_nil] at this
  simp only [foldPrim, this, hascii, Bool.not_true, Bool.false_eq_true, if_false, ha, if_true, Option.isSome_none]
  cases n with
  | zero => simp [foldPrim]
  | succ n => simp [foldPrim, takeOptPrim]

theorem xCrlDistributionPoints_enc (e : Exts) (u : Bytes) (hu : rsyncOk u = true) (hascii : u.all (· < 128) = true)
    (he : e.crlUri = none) :
    xCrlDistributionPoints e false (tlv tagSeq (tlv tagSeq (tlv 0xA0 (tlv 0xA0 (gn u))))) =
      some { e with crlUri := some u } := by
  unfold xCrlDistributionPoints
  simp [he, takeCons_tlv_nil tagSeq _ (by decide) (by decide), takeCons_tlv_nil 0xA0 _ (by decide) (by decide),
    generalNames_gn rsyncOk u hu hascii]

theorem xAuthorityInfoAccess_enc (e : Exts) (u : Bytes) (hu : rsyncOk u = true) (hascii : u.all (· < 128) = true)
    (he : e.caIssuer = none) :
    xAuthorityInfoAccess e false (tlv tagSeq (tlv tagSeq (tlv tagOid oidAdCaIssuers ++ gn u))) =
      some { e with caIssuer := some u } := by
  unfold xAuthorityInfoAccess
  simp [he, takeCons_tlv_nil tagSeq _ (by decide) (by decide),
    IpDer.takePrim_tlv' tagOid oidAdCaIssuers (gn u) (by decide) (by decide),
    generalNames_gn rsyncOk u hu hascii]

theorem xCertificatePolicies_enc (e : Exts) (trim : Bool) (he : e.overclaim = none) :
    xCertificatePolicies e true (tlv tagSeq (tlv tagSeq (tlv tagOid (if trim then oidCpResourcesV2 else oidCpResources)))) =
      some { e with overclaim := some trim } := by
  unfold xCertificatePolicies
  have ho : ∀ o, oidOk o = true → takeOid (tlv tagOid o) = some (o, []) := by
    intro o h; have := takeOid_tlv o [] h; rwa [List.append_nil] at this
  cases trim with
  | true =>
    have hne : ¬ oidCpResourcesV2 = oidCpResources := by decide
    simp [he, takeCons_tlv_nil tagSeq _ (by decide) (by decide), ho oidCpResourcesV2 (by decide), skipAll, hne]
  | false =>
    simp [he, takeCons_tlv_nil tagSeq _ (by decide) (by decide), ho oidCpResources (by decide), skipAll]

end Rpki.CertEnc

namespace Rpki.CertEnc
open Rpki.Der Rpki.CertDer Rpki.Chain Rpki.Consts

/-! ### subject information access -/

theorem generalName_gn (accept : Bytes → Bool) (u : Bytes) (ha : accept u = true) (hascii : u.all (· < 128) = true) :
    generalName accept (gn u) = some (some u) := by
  unfold generalName gn
  simp [takePrim_tlv_nil 0x86 u (by decide) (by decide), hascii, ha]

theorem siaEntry_repo (s : Sia) (u : Bytes) (ha : rsyncOk u = true) (hascii : u.all (· < 128) = true) :
    siaEntry s (adBody oidAdCaRepository u) = some { s with caRepository := updateFirst s.caRepository (some u) } := by
  unfold siaEntry adBody
  rw [takeOid_tlv oidAdCaRepository _ (by decide)]
  simp [generalName_gn rsyncOk u ha hascii]

theorem siaEntry_mft (s : Sia) (u : Bytes) (ha : rsyncOk u = true) (hascii : u.all (· < 128) = true) :
    siaEntry s (adBody oidAdRpkiManifest u) = some { s with rpkiManifest := updateFirst s.rpkiManifest (some u) } := by
  unfold siaEntry adBody
  rw [takeOid_tlv oidAdRpkiManifest _ (by decide)]
  have h1 : ¬ oidAdRpkiManifest = oidAdCaRepository := by decide
  simp [h1, generalName_gn rsyncOk u ha hascii]

theorem siaEntry_so (s : Sia) (u : Bytes) (ha : rsyncOk u = true) (hascii : u.all (· < 128) = true) :
    siaEntry s (adBody oidAdSignedObject u) = some { s with signedObject := updateFirst s.signedObject (some u) } := by
  unfold siaEntry adBody
  rw [takeOid_tlv oidAdSignedObject _ (by decide)]
  have h1 : ¬ oidAdSignedObject = oidAdCaRepository := by decide
  have h2 : ¬ oidAdSignedObject = oidAdRpkiManifest := by decide
  simp [h1, h2, generalName_gn rsyncOk u ha hascii]

theorem siaEntry_ntf (s : Sia) (u : Bytes) (ha : httpsOk u = true) (hascii : u.all (· < 128) = true) :
    siaEntry s (adBody oidAdRpkiNotify u) = some { s with rpkiNotify := updateFirst s.rpkiNotify (some u) } := by
  unfold siaEntry adBody
  rw [takeOid_tlv oidAdRpkiNotify _ (by decide)]
  have h1 : ¬ oidAdRpkiNotify = oidAdCaRepository := by decide
  have h2 : ¬ oidAdRpkiNotify = oidAdRpkiManifest := by decide
  have h3 : ¬ oidAdRpkiNotify = oidAdSignedObject := by decide
  simp [h1, h2, h3, generalName_gn httpsOk u ha hascii]

/-- the URIs of an SIA are acceptable to the readers that will see them -/
structure SiaOk (s : Sia) : Prop where
  repo : ∀ u, s.caRepository = some u → rsyncOk u = true ∧ u.all (· < 128) = true
  mft : ∀ u, s.rpkiManifest = some u → rsyncOk u = true ∧ u.all (· < 128) = true
  so : ∀ u, s.signedObject = some u → rsyncOk u = true ∧ u.all (· < 128) = true
  ntf : ∀ u, s.rpkiNotify = some u → httpsOk u = true ∧ u.all (· < 128) = true

theorem siaItems_fold (s : Sia) (h : SiaOk s) : (siaItems s).foldlM siaEntry {} = some s := by
  obtain ⟨r, m, o, n⟩ := s
  unfold siaItems
  simp only [List.foldlM_append]
  cases r with
  | none =>
    cases m with
    | none =>
      cases o with
      | none =>
        cases n with
        | none => rfl
        | some un => simp [siaEntry_ntf _ un (h.ntf un rfl).1 (h.ntf un rfl).2, updateFirst]
      | some uo =>
        cases n with
        | none => simp [siaEntry_so _ uo (h.so uo rfl).1 (h.so uo rfl).2, updateFirst]
        | some un =>
          simp [siaEntry_so _ uo (h.so uo rfl).1 (h.so uo rfl).2,
            siaEntry_ntf _ un (h.ntf un rfl).1 (h.ntf un rfl).2, updateFirst]
    | some um =>
      cases o with
      | none =>
        cases n with
        | none => simp [siaEntry_mft _ um (h.mft um rfl).1 (h.mft um rfl).2, updateFirst]
        | some un =>
          simp [siaEntry_mft _ um (h.mft um rfl).1 (h.mft um rfl).2,
            siaEntry_ntf _ un (h.ntf un rfl).1 (h.ntf un rfl).2, updateFirst]
      | some uo =>
        cases n with
        | none =>
          simp [siaEntry_mft _ um (h.mft um rfl).1 (h.mft um rfl).2,
            siaEntry_so _ uo (h.so uo rfl).1 (h.so uo rfl).2, updateFirst]
        | some un =>
          simp [siaEntry_mft _ um (h.mft um rfl).1 (h.mft um rfl).2,
            siaEntry_so _ uo (h.so uo rfl).1 (h.so uo rfl).2,
            siaEntry_ntf _ un (h.ntf un rfl).1 (h.ntf un rfl).2, updateFirst]
  | some ur =>
    cases m with
    | none =>
      cases o with
      | none =>
        cases n with
        | none => simp [siaEntry_repo _ ur (h.repo ur rfl).1 (h.repo ur rfl).2, updateFirst]
        | some un =>
          simp [siaEntry_repo _ ur (h.repo ur rfl).1 (h.repo ur rfl).2,
            siaEntry_ntf _ un (h.ntf un rfl).1 (h.ntf un rfl).2, updateFirst]
      | some uo =>
        cases n with
        | none =>
          simp [siaEntry_repo _ ur (h.repo ur rfl).1 (h.repo ur rfl).2,
            siaEntry_so _ uo (h.so uo rfl).1 (h.so uo rfl).2, updateFirst]
        | some un =>
          simp [siaEntry_repo _ ur (h.repo ur rfl).1 (h.repo ur rfl).2,
            siaEntry_so _ uo (h.so uo rfl).1 (h.so uo rfl).2,
            siaEntry_ntf _ un (h.ntf un rfl).1 (h.ntf un rfl).2, updateFirst]
    | some um =>
      cases o with
      | none =>
        cases n with
        | none =>
          simp [siaEntry_repo _ ur (h.repo ur rfl).1 (h.repo ur rfl).2,
            siaEntry_mft _ um (h.mft um rfl).1 (h.mft um rfl).2, updateFirst]
        | some un =>
          simp [siaEntry_repo _ ur (h.repo ur rfl).1 (h.repo ur rfl).2,
            siaEntry_mft _ um (h.mft um rfl).1 (h.mft um rfl).2,
            siaEntry_ntf _ un (h.ntf un rfl).1 (h.ntf un rfl).2, updateFirst]
      | some uo =>
        cases n with
        | none =>
          simp [siaEntry_repo _ ur (h.repo ur rfl).1 (h.repo ur rfl).2,
            siaEntry_mft _ um (h.mft um rfl).1 (h.mft um rfl).2,
            siaEntry_so _ uo (h.so uo rfl).1 (h.so uo rfl).2, updateFirst]
        | some un =>
          simp [siaEntry_repo _ ur (h.repo ur rfl).1 (h.repo ur rfl).2,
            siaEntry_mft _ um (h.mft um rfl).1 (h.mft um rfl).2,
            siaEntry_so _ uo (h.so uo rfl).1 (h.so uo rfl).2,
            siaEntry_ntf _ un (h.ntf un rfl).1 (h.ntf un rfl).2, updateFirst]

theorem seqs_ne_nil (items : List Bytes) (h : items ≠ []) : seqs items ≠ [] := by
  cases items with
  | nil => exact absurd rfl h
  | cons c cs => simp [seqs, tlv]

theorem takeSia_enc (s : Sia) (h : SiaOk s)
    (hne : s.caRepository.isSome ∨ s.rpkiManifest.isSome ∨ s.signedObject.isSome ∨ s.rpkiNotify.isSome) :
    takeSia (tlv tagSeq (seqs (siaItems s))) = some s := by
  unfold takeSia
  rw [takeCons_tlv_nil tagSeq _ (by decide) (by decide)]
  have hitems : siaItems s ≠ [] := by
    obtain ⟨r, m, o, n⟩ := s
    unfold siaItems
    rcases hne with h1 | h1 | h1 | h1
    · cases r with | none => simp at h1 | some u => simp
    · cases m with | none => simp at h1 | some u => simp
    · cases o with | none => simp at h1 | some u => simp
    · cases n with | none => simp at h1 | some u => simp
  simp only [seqs_ne_nil _ hitems, if_false]
  unfold seqs
  rw [foldCons_items' tagSeq (by decide) (by decide) siaEntry (siaItems s) {}]
  exact siaItems_fold s h

theorem xSubjectInfoAccess_enc (e : Exts) (s : Sia) (h : SiaOk s)
    (hne : s.caRepository.isSome ∨ s.rpkiManifest.isSome ∨ s.signedObject.isSome ∨ s.rpkiNotify.isSome)
    (he : e.sia = none) :
    xSubjectInfoAccess e false (tlv tagSeq (seqs (siaItems s))) = some { e with sia := some s } := by
  unfold xSubjectInfoAccess
  simp [he, takeSia_enc s h hne]

end Rpki.CertEnc

namespace Rpki.CertEnc
open Rpki.Der Rpki.CertDer Rpki.Chain Rpki.Consts

/-! ### IP and AS resources -/

theorem readTlv_tlv_nil (t : Nat) (c : Bytes) (ht : t % 32 ≠ 31) : readTlv (tlv t c) = some (t, c, []) := by
  have := AsDer.readTlv_tlv' t c [] ht
  rwa [List.append_nil] at this

theorem takeIpChoice_null (W : Nat) : takeIpChoice W (tlv tagNull []) = some .inherit := by
  unfold takeIpChoice
  rfl

/-- the blocks of a family, as `IpBlocks::encode_ref` writes them, are read back by the family's reader -/
def BlocksRead (W : Nat) (c : List Blk) : Prop :=
  IpDer.blocksLoop W ((c.map IpDer.encodeBlock).flatten).length ((c.map IpDer.encodeBlock).flatten) = some c ∧
  Canon IpDer.maxAddr c

theorem takeIpChoice_blocks (W : Nat) (c : List Blk) (h : BlocksRead W c) :
    takeIpChoice W (IpDer.encodeBlocks c) = some (.blocks c) := by
  unfold takeIpChoice IpDer.encodeBlocks
  have hr := readTlv_tlv_nil tagSeq ((c.map IpDer.encodeBlock).flatten) (by decide)
  have e : tlv tagSeq ((c.map IpDer.encodeBlock).flatten) = tagSeq :: (encLen ((c.map IpDer.encodeBlock).flatten).length ++ (c.map IpDer.encodeBlock).flatten) := rfl
  rw [e] at hr ⊢
  simp only [hr]
  have t1 : ¬ tagSeq % 32 = 31 := by decide
  have t2 : ¬ tagNoCons tagSeq = tagNull := by decide
  have t3 : tagNoCons tagSeq = 0x10 := by decide
  have t4 : isCons tagSeq = true := by decide
  have t5 : ¬ (16 : Nat) = tagNull := by decide
  simp only [t1, if_false, ne_eq, not_true_eq_false, t3, if_true, t4, Bool.not_true, Bool.false_eq_true,
    h.1, Option.map_some, AsDer.fromIter_canon_id IpDer.maxAddr c h.2, t5]

/-- a claim as a family of the extension reads it: nothing for a missing family -/
def optClaim : Claim → Option Claim
  | .missing => none
  | c => some c

/-- a claim that the reader of a family of width `W` reads back -/
def ClaimRead (W : Nat) : Claim → Prop
  | .blocks c => BlocksRead W c
  | _ => True

theorem ipFamily_enc4 (s : Option Claim × Option Claim) (cl : Claim) (body : Bytes)
    (hb : famBody [0, 1] cl = some body) (hs : s.1 = none) (hr : ClaimRead 32 cl) :
    ipFamily s body = some (some cl, s.2) := by
  unfold ipFamily
  cases cl with
  | missing => simp [famBody] at hb
  | inherit =>
    simp only [famBody, Option.some.injEq] at hb; subst hb
    rw [IpDer.takePrim_tlv' tagOctetString [0, 1] _ (by decide) (by decide)]
    simp [hs, takeIpChoice_null]
  | blocks c =>
    simp only [famBody, Option.some.injEq] at hb; subst hb
    rw [IpDer.takePrim_tlv' tagOctetString [0, 1] _ (by decide) (by decide)]
    simp [hs, takeIpChoice_blocks 32 c hr]

theorem ipFamily_enc6 (s : Option Claim × Option Claim) (cl : Claim) (body : Bytes)
    (hb : famBody [0, 2] cl = some body) (hs : s.2 = none) (hr : ClaimRead 128 cl) :
    ipFamily s body = some (s.1, some cl) := by
  unfold ipFamily
  have hne : ¬ ([0, 2] : Bytes) = [0, 1] := by decide
  cases cl with
  | missing => simp [famBody] at hb
  | inherit =>
    simp only [famBody, Option.some.injEq] at hb; subst hb
    rw [IpDer.takePrim_tlv' tagOctetString [0, 2] _ (by decide) (by decide)]
    simp [hs, hne, takeIpChoice_null]
  | blocks c =>
    simp only [famBody, Option.some.injEq] at hb; subst hb
    rw [IpDer.takePrim_tlv' tagOctetString [0, 2] _ (by decide) (by decide)]
    simp [hs, hne, takeIpChoice_blocks 128 c hr]

theorem takeIpFamilies_enc (v4 v6 : Claim) (h4 : ClaimRead 32 v4) (h6 : ClaimRead 128 v6)
    (hp : Cert.isPresent v4 = true ∨ Cert.isPresent v6 = true) :
    takeIpFamilies (tlv tagSeq (seqs (ipItems v4 v6))) = some (optClaim v4, optClaim v6) := by
  unfold takeIpFamilies
  rw [takeCons_tlv_nil tagSeq _ (by decide) (by decide)]
  unfold seqs
  simp only [foldCons_items' tagSeq (by decide) (by decide) ipFamily (ipItems v4 v6) (none, none)]
  unfold ipItems
  simp only [List.foldlM_append]
  cases hb4 : famBody [0, 1] v4 with
  | none =>
    have e4 : v4 = .missing := by cases v4 <;> simp [famBody] at hb4 ⊢
    subst e4
    cases hb6 : famBody [0, 2] v6 with
    | none =>
      have e6 : v6 = .missing := by cases v6 <;> simp [famBody] at hb6 ⊢
      subst e6
      simp [Cert.isPresent] at hp
    | some b6 =>
      have := ipFamily_enc6 (none, none) v6 b6 hb6 rfl h6
      have hne6 : optClaim v6 = some v6 := by cases v6 <;> simp_all [famBody, optClaim]
      simp only [Option.toList_none, List.foldlM_nil, Option.toList_some, List.foldlM_cons, pure, bind, Option.bind,
        this, hne6]
      rfl
  | some b4 =>
    have s4 := ipFamily_enc4 (none, none) v4 b4 hb4 rfl h4
    have hne4 : optClaim v4 = some v4 := by cases v4 <;> simp_all [famBody, optClaim]
    cases hb6 : famBody [0, 2] v6 with
    | none =>
      have e6 : v6 = .missing := by cases v6 <;> simp [famBody] at hb6 ⊢
      subst e6
      simp only [Option.toList_none, List.foldlM_nil, Option.toList_some, List.foldlM_cons, pure, bind, Option.bind,
        s4, hne4]
      rfl
    | some b6 =>
      have s6 := ipFamily_enc6 (some v4, none) v6 b6 hb6 rfl h6
      have hne6 : optClaim v6 = some v6 := by cases v6 <;> simp_all [famBody, optClaim]
      simp only [Option.toList_none, List.foldlM_nil, Option.toList_some, List.foldlM_cons, pure, bind, Option.bind,
        s4, s6, hne4, hne6]

end Rpki.CertEnc

namespace Rpki.CertEnc
open Rpki.Der Rpki.CertDer Rpki.Chain Rpki.Consts

theorem xIpResources_enc (e : Exts) (v2 : Bool) (v4 v6 : Claim) (h4 : ClaimRead 32 v4) (h6 : ClaimRead 128 v6)
    (hp : Cert.isPresent v4 = true ∨ Cert.isPresent v6 = true) (he : e.ip = none) :
    xIpResources e v2 (tlv tagSeq (seqs (ipItems v4 v6))) =
      some { e with ipTrim := some v2, ip := some (optClaim v4, optClaim v6) } := by
  unfold xIpResources
  simp [he, takeIpFamilies_enc v4 v6 h4 h6 hp]

/-- a present AS claim that the reader reads back -/
def AsRead : Claim → Prop
  | .blocks c => Canon AsDer.maxAs c
  | .inherit => True
  | .missing => False

theorem xAsResources_enc (e : Exts) (v2 : Bool) (cl : Claim) (h : AsRead cl) (he : e.asn = none) :
    xAsResources e v2 (AsDer.encodeExt cl) = some { e with asTrim := some v2, asn := some cl } := by
  unfold xAsResources
  cases cl with
  | missing => exact absurd h (by simp [AsRead])
  | inherit => simp [he, AsDer.decodeExt_encodeExt_inherit]
  | blocks c => simp [he, AsDer.decodeExt_encodeExt_blocks c h]

/-! ### the dispatch on the identifier, for the identifiers `encode_ref` writes -/

theorem extValue_bc (e : Exts) (c : Bool) (v : Bytes) :
    extValue e oidBasicConstraints c v = xBasicConstraints e c v := by
  unfold extValue; rw [if_pos rfl]
theorem extValue_ski (e : Exts) (c : Bool) (v : Bytes) :
    extValue e oidSubjectKeyId c v = xSubjectKeyId e c v := by
  unfold extValue; rw [if_neg (by decide), if_pos rfl]
theorem extValue_aki (e : Exts) (c : Bool) (v : Bytes) :
    extValue e oidAuthorityKeyId c v = xAuthorityKeyId e c v := by
  unfold extValue; rw [if_neg (by decide), if_neg (by decide), if_pos rfl]
theorem extValue_ku (e : Exts) (c : Bool) (v : Bytes) :
    extValue e oidKeyUsage c v = xKeyUsage e c v := by
  unfold extValue; rw [if_neg (by decide), if_neg (by decide), if_neg (by decide), if_pos rfl]
theorem extValue_eku (e : Exts) (c : Bool) (v : Bytes) :
    extValue e oidExtKeyUsage c v = xExtKeyUsage e c v := by
  unfold extValue; rw [if_neg (by decide), if_neg (by decide), if_neg (by decide), if_neg (by decide), if_pos rfl]
theorem extValue_crl (e : Exts) (c : Bool) (v : Bytes) :
    extValue e oidCrlDistributionPoints c v = xCrlDistributionPoints e c v := by
  unfold extValue
  rw [if_neg (by decide), if_neg (by decide), if_neg (by decide), if_neg (by decide), if_neg (by decide), if_pos rfl]
theorem extValue_aia (e : Exts) (c : Bool) (v : Bytes) :
    extValue e oidAuthorityInfoAccess c v = xAuthorityInfoAccess e c v := by
  unfold extValue
  rw [if_neg (by decide), if_neg (by decide), if_neg (by decide), if_neg (by decide), if_neg (by decide),
    if_neg (by decide), if_pos rfl]
theorem extValue_sia (e : Exts) (c : Bool) (v : Bytes) :
    extValue e oidSubjectInfoAccess c v = xSubjectInfoAccess e c v := by
  unfold extValue
  rw [if_neg (by decide), if_neg (by decide), if_neg (by decide), if_neg (by decide), if_neg (by decide),
    if_neg (by decide), if_neg (by decide), if_pos rfl]
theorem extValue_cp (e : Exts) (c : Bool) (v : Bytes) :
    extValue e oidCertificatePolicies c v = xCertificatePolicies e c v := by
  unfold extValue
  rw [if_neg (by decide), if_neg (by decide), if_neg (by decide), if_neg (by decide), if_neg (by decide),
    if_neg (by decide), if_neg (by decide), if_neg (by decide), if_pos rfl]
theorem extValue_ip (e : Exts) (trim c : Bool) (v : Bytes) :
    extValue e (if trim then oidIpAddrBlockV2 else oidIpAddrBlock) c v = xIpResources e trim v := by
  unfold extValue
  cases trim with
  | true =>
    simp only [if_true]
    rw [if_neg (by decide), if_neg (by decide), if_neg (by decide), if_neg (by decide), if_neg (by decide),
      if_neg (by decide), if_neg (by decide), if_neg (by decide), if_neg (by decide)]
    simp
  | false =>
    simp only [Bool.false_eq_true, if_false]
    rw [if_neg (by decide), if_neg (by decide), if_neg (by decide), if_neg (by decide), if_neg (by decide),
      if_neg (by decide), if_neg (by decide), if_neg (by decide), if_neg (by decide)]
    have : (oidIpAddrBlock == oidIpAddrBlockV2) = false := by decide
    simp [this]
theorem extValue_as (e : Exts) (trim c : Bool) (v : Bytes) :
    extValue e (if trim then oidAsIdsV2 else oidAsIds) c v = xAsResources e trim v := by
  unfold extValue
  cases trim with
  | true =>
    simp only [if_true]
    rw [if_neg (by decide), if_neg (by decide), if_neg (by decide), if_neg (by decide), if_neg (by decide),
      if_neg (by decide), if_neg (by decide), if_neg (by decide), if_neg (by decide), if_neg (by decide)]
    simp
  | false =>
    simp only [Bool.false_eq_true, if_false]
    rw [if_neg (by decide), if_neg (by decide), if_neg (by decide), if_neg (by decide), if_neg (by decide),
      if_neg (by decide), if_neg (by decide), if_neg (by decide), if_neg (by decide), if_neg (by decide)]
    have : (oidAsIds == oidAsIdsV2) = false := by decide
    simp [this]

end Rpki.CertEnc

namespace Rpki.CertEnc
open Rpki.Der Rpki.CertDer Rpki.Chain Rpki.Consts

/-! ### the whole extension list -/

/-- a name the reader accepts as one complete value, wherever it stands -/
def NameOk (n : Bytes) : Prop := ∀ rest, takeName (n ++ rest) = some (n, rest)

/-- the fields of a certificate are in the profile the builder is meant for -/
structure WF (d : Decoded) : Prop where
  serial : X509.VS d.serial
  issuer : NameOk d.issuer
  subject : NameOk d.subject
  nb : X509.validCivil d.notBefore = true ∧ d.notBefore.y ≤ 9999
  na : X509.validCivil d.notAfter = true ∧ d.notAfter.y ≤ 9999
  key : Manifest.bitStringTake (d.keyUnused :: d.keyBits) = some (d.keyUnused, d.keyBits)
  ski : d.ski.length = 20
  aki : ∀ k, d.aki = some k → k.length = 20
  ekuSome : ∀ h, d.eku = some h → d.ekuContent ≠ [] ∧
    foldPrim tagOid (fun s o => if oidOk o then some (s || o == oidKpBgpsecRouter) else none)
      d.ekuContent.length d.ekuContent false = some h
  ekuNone : d.eku = none → d.ekuContent = []
  crl : ∀ u, d.crlUri = some u → rsyncOk u = true ∧ u.all (· < 128) = true
  aia : ∀ u, d.caIssuer = some u → rsyncOk u = true ∧ u.all (· < 128) = true
  sia : SiaOk d.sia
  v4 : ClaimRead 32 d.v4
  v6 : ClaimRead 128 d.v6
  asn : d.asn = .missing ∨ AsRead d.asn
  present : Cert.isPresent d.v4 = true ∨ Cert.isPresent d.v6 = true ∨ Cert.isPresent d.asn = true

/-- the state of the extension loop after everything `encode_ref` writes has been read -/
def finalExts (d : Decoded) : Exts :=
  { basicCa := d.basicCa, ski := some d.ski, aki := d.aki, keyUsage := some d.keyUsage, eku := d.eku,
    ekuContent := d.ekuContent, crlUri := d.crlUri, caIssuer := d.caIssuer,
    sia := if d.sia.caRepository.isSome ∨ d.sia.rpkiManifest.isSome ∨ d.sia.signedObject.isSome ∨ d.sia.rpkiNotify.isSome
      then some d.sia else none,
    overclaim := some d.trim,
    ip := if Cert.isPresent d.v4 ∨ Cert.isPresent d.v6 then some (optClaim d.v4, optClaim d.v6) else none,
    ipTrim := if Cert.isPresent d.v4 ∨ Cert.isPresent d.v6 then some d.trim else none,
    asn := if Cert.isPresent d.asn then some d.asn else none,
    asTrim := if Cert.isPresent d.asn then some d.trim else none }

theorem one_ext (e : Exts) (oid : Bytes) (crit : Bool) (v : Bytes) (ho : oidOk oid = true) :
    [extBody oid crit v].foldlM extension e = extValue e oid crit v := by
  simp only [List.foldlM_cons, List.foldlM_nil, extension_extBody e oid crit v ho]
  cases extValue e oid crit v <;> rfl

theorem extItems_fold (d : Decoded) (h : WF d) : (extItems d).foldlM extension {} = some (finalExts d) := by
  obtain ⟨serial, innerParam, outerParam, issuer, subject, validity, notBefore, notAfter, keyAlg, keyUnused, keyBits,
    basicCa, ski, aki, keyUsage, eku, ekuContent, crlUri, caIssuer, sia, trim, v4, v6, asn, tbs, signature⟩ := d
  have hski := h.ski; have haki := h.aki; have hes := h.ekuSome; have hen := h.ekuNone
  have hcrl := h.crl; have haia := h.aia; have hsia := h.sia; have h4 := h.v4; have h6 := h.v6; have has := h.asn
  simp only at hski haki hes hen hcrl haia hsia h4 h6 has
  unfold extItems finalExts
  simp only [List.foldlM_append]
  -- basic constraints
  have s1 : ((basicCa.map bcBody).toList).foldlM extension {} = some ({ basicCa := basicCa } : Exts) := by
    cases basicCa with
    | none => rfl
    | some ca =>
      simp only [Option.map_some, Option.toList_some]
      unfold bcBody
      rw [one_ext _ _ _ _ (by decide), extValue_bc, xBasicConstraints_enc _ ca rfl]
  rw [s1]; simp only [Option.bind_eq_bind, Option.bind_some]
  -- subject key identifier
  unfold skiBody
  rw [one_ext _ _ _ _ (by decide), extValue_ski, xSubjectKeyId_enc _ ski hski rfl]
  simp only [Option.bind_some]
  -- authority key identifier
  have s3 : ∀ e : Exts, e.aki = none → ((aki.map akiBody).toList).foldlM extension e = some { e with aki := aki } := by
    intro e he
    cases aki with
    | none => cases e; simp_all
    | some k =>
      simp only [Option.map_some, Option.toList_some]
      unfold akiBody
      rw [one_ext _ _ _ _ (by decide), extValue_aki, xAuthorityKeyId_enc _ k (haki k rfl) he]
  rw [s3 _ rfl]
  simp only [Option.bind_some]
  -- key usage
  unfold kuBody
  rw [one_ext _ _ _ _ (by decide), extValue_ku, xKeyUsage_enc _ keyUsage rfl]
  simp only [Option.bind_some]
  -- extended key usage
  have s5 : ∀ e : Exts, e.eku = none → e.ekuContent = [] →
      ((eku.map fun _ => ekuBody ekuContent).toList).foldlM extension e =
        some { e with eku := eku, ekuContent := ekuContent } := by
    intro e he hc
    cases eku with
    | none => have := hen rfl; subst this; cases e; simp_all
    | some hh =>
      simp only [Option.map_some, Option.toList_some]
      unfold ekuBody
      rw [one_ext _ _ _ _ (by decide), extValue_eku, xExtKeyUsage_enc _ ekuContent hh (hes hh rfl).1 he (hes hh rfl).2]
  rw [s5 _ rfl rfl]
  simp only [Option.bind_some]
  -- CRL distribution points
  have s6 : ∀ e : Exts, e.crlUri = none →
      ((crlUri.map crlBody).toList).foldlM extension e = some { e with crlUri := crlUri } := by
    intro e he
    cases crlUri with
    | none => cases e; simp_all
    | some u =>
      simp only [Option.map_some, Option.toList_some]
      unfold crlBody
      rw [one_ext _ _ _ _ (by decide), extValue_crl, xCrlDistributionPoints_enc _ u (hcrl u rfl).1 (hcrl u rfl).2 he]
  rw [s6 _ rfl]
  simp only [Option.bind_some]
  -- authority information access
  have s7 : ∀ e : Exts, e.caIssuer = none →
      ((caIssuer.map aiaBody).toList).foldlM extension e = some { e with caIssuer := caIssuer } := by
    intro e he
    cases caIssuer with
    | none => cases e; simp_all
    | some u =>
      simp only [Option.map_some, Option.toList_some]
      unfold aiaBody
      rw [one_ext _ _ _ _ (by decide), extValue_aia, xAuthorityInfoAccess_enc _ u (haia u rfl).1 (haia u rfl).2 he]
  rw [s7 _ rfl]
  simp only [Option.bind_some]
  -- subject information access
  have hsp : siaPresent sia = true ↔
      (sia.caRepository.isSome ∨ sia.rpkiManifest.isSome ∨ sia.signedObject.isSome ∨ sia.rpkiNotify.isSome) := by
    unfold siaPresent; simp [Bool.or_eq_true, or_assoc]
  have s8 : ∀ e : Exts, e.sia = none →
      (if siaPresent sia then [siaBody sia] else []).foldlM extension e =
      some { e with sia := (if sia.caRepository.isSome ∨ sia.rpkiManifest.isSome ∨ sia.signedObject.isSome ∨ sia.rpkiNotify.isSome
        then some sia else none) } := by
    intro e he
    by_cases hp : siaPresent sia = true
    · have hp' := hsp.1 hp
      rw [if_pos hp, if_pos hp']
      unfold siaBody
      rw [one_ext _ _ _ _ (by decide), extValue_sia, xSubjectInfoAccess_enc _ sia hsia hp' he]
    · have hp' : ¬ (sia.caRepository.isSome ∨ sia.rpkiManifest.isSome ∨ sia.signedObject.isSome ∨ sia.rpkiNotify.isSome) :=
        fun x => hp (hsp.2 x)
      rw [if_neg hp, if_neg hp']; cases e; simp_all
  rw [s8 _ rfl]
  simp only [Option.bind_some]
  -- certificate policies
  unfold cpBody
  rw [one_ext _ _ _ _ (by decide), extValue_cp, xCertificatePolicies_enc _ trim rfl]
  simp only [Option.bind_some]
  -- IP resources
  have hip : (Cert.isPresent v4 || Cert.isPresent v6) = true ↔ (Cert.isPresent v4 = true ∨ Cert.isPresent v6 = true) := by
    simp [Bool.or_eq_true]
  have s10 : ∀ e : Exts, e.ip = none → e.ipTrim = none →
      (if Cert.isPresent v4 || Cert.isPresent v6 then [ipBody trim v4 v6] else []).foldlM extension e =
      some { e with ip := (if Cert.isPresent v4 ∨ Cert.isPresent v6 then some (optClaim v4, optClaim v6) else none),
                    ipTrim := (if Cert.isPresent v4 ∨ Cert.isPresent v6 then some trim else none) } := by
    intro e he ht
    by_cases hp : (Cert.isPresent v4 || Cert.isPresent v6) = true
    · have hp' := hip.1 hp
      rw [if_pos hp, if_pos hp', if_pos hp']
      unfold ipBody
      rw [one_ext _ _ _ _ (by cases trim <;> decide), extValue_ip, xIpResources_enc _ trim v4 v6 h4 h6 hp' he]
    · have hp' : ¬ (Cert.isPresent v4 = true ∨ Cert.isPresent v6 = true) := fun x => hp (hip.2 x)
      rw [if_neg hp, if_neg hp', if_neg hp']; cases e; simp_all
  rw [s10 _ rfl rfl]
  simp only [Option.bind_some]
  -- AS resources
  have s11 : ∀ e : Exts, e.asn = none → e.asTrim = none →
      (if Cert.isPresent asn then [asBody trim asn] else []).foldlM extension e =
      some { e with asn := (if Cert.isPresent asn then some asn else none),
                    asTrim := (if Cert.isPresent asn then some trim else none) } := by
    intro e he ht
    by_cases hp : Cert.isPresent asn = true
    · have hr : AsRead asn := by
        rcases has with h1 | h1
        · subst h1; simp [Cert.isPresent] at hp
        · exact h1
      rw [if_pos hp, if_pos hp, if_pos hp]
      unfold asBody
      rw [one_ext _ _ _ _ (by cases trim <;> decide), extValue_as, xAsResources_enc _ trim asn hr he]
    · rw [if_neg hp, if_neg hp, if_neg hp]; cases e; simp_all
  rw [s11 _ rfl rfl]

end Rpki.CertEnc

namespace Rpki.CertEnc
open Rpki.Der Rpki.CertDer Rpki.Chain Rpki.Consts

/-! ### the fields in front of the extensions -/

theorem takeSigAlg_enc (rest : Bytes) : takeSigAlg (sigAlgEnc ++ rest) = some (true, rest) := by
  unfold takeSigAlg sigAlgEnc
  rw [AsDer.takeCons_tlv' tagSeq _ rest (by decide) (by decide)]
  simp only [IpDer.takePrim_tlv' tagOid oidSha256WithRsa (tlv tagNull []) (by decide) (by decide)]
  have hn : takeOptNull (tlv tagNull []) = some (true, []) := by decide
  simp [hn]

theorem timeTlv_eq (c : X509.Civil) :
    timeTlv c = tlv (Crl.timeTag (X509.encodeVaried c).1) (X509.encodeVaried c).2 := by
  unfold timeTlv Crl.timeTag
  simp only
  cases h : (X509.encodeVaried c).1 <;> rfl

theorem takeValidityCivil_enc (nb na : X509.Civil) (rest : Bytes)
    (h1 : X509.validCivil nb = true ∧ nb.y ≤ 9999) (h2 : X509.validCivil na = true ∧ na.y ≤ 9999) :
    takeValidityCivil (tlv tagSeq (timeTlv nb ++ timeTlv na) ++ rest) = some (nb, na, rest) := by
  unfold takeValidityCivil
  rw [AsDer.takeCons_tlv' tagSeq _ rest (by decide) (by decide), timeTlv_eq nb, timeTlv_eq na]
  dsimp only
  rw [Crl.takeTime_encodeVaried nb _ h1.1 h1.2]
  have := Crl.takeTime_encodeVaried na [] h2.1 h2.2
  rw [List.append_nil] at this
  simp [this]

theorem takeBitString_enc (u : Nat) (bits rest : Bytes)
    (h : Manifest.bitStringTake (u :: bits) = some (u, bits)) :
    takeBitString (tlv tagBitString (u :: bits) ++ rest) = some (u, bits, rest) := by
  unfold takeBitString
  rw [IpDer.takePrim_tlv' tagBitString _ rest (by decide) (by decide)]
  simp [h]

theorem takePublicKey_enc (alg : KeyAlg) (u : Nat) (bits rest : Bytes)
    (h : Manifest.bitStringTake (u :: bits) = some (u, bits)) :
    takePublicKey (publicKeyEnc alg u bits ++ rest) = some (alg, u, bits, rest) := by
  unfold takePublicKey publicKeyEnc
  rw [AsDer.takeCons_tlv' tagSeq _ rest (by decide) (by decide)]
  have hb := takeBitString_enc u bits [] h
  rw [List.append_nil] at hb
  cases alg with
  | rsa =>
    dsimp only
    rw [AsDer.takeCons_tlv' tagSeq _ _ (by decide) (by decide)]
    dsimp only
    rw [takeOid_tlv oidRsaEncryption _ (by decide)]
    have hn : takeOptNull (tlv tagNull []) = some (true, []) := by decide
    simp [hn, hb]
  | ecP256 =>
    dsimp only
    rw [AsDer.takeCons_tlv' tagSeq _ _ (by decide) (by decide)]
    dsimp only
    rw [takeOid_tlv oidEcPublicKey _ (by decide)]
    have hne : ¬ oidEcPublicKey = oidRsaEncryption := by decide
    have ho := takePrim_tlv_nil tagOid oidSecp256r1 (by decide) (by decide)
    simp [hne, ho, hb]

end Rpki.CertEnc

namespace Rpki.CertEnc
open Rpki.Der Rpki.CertDer Rpki.Chain Rpki.Consts

theorem optClaim_getD (cl : Claim) : (optClaim cl).getD .missing = cl := by
  cases cl <;> rfl

/-- what `decodeTbs` returns for the octets `encodeTbs d` writes: `d` itself, with the algorithm parameter
as `x509_encode` writes it and the instants computed from the calendar times -/
def readBack (d : Decoded) (op : Bool) (sig : Bytes) : Decoded :=
  { d with innerParam := true, outerParam := op,
           validity := ⟨civilToEpoch d.notBefore, civilToEpoch d.notAfter⟩,
           tbs := encodeTbs d, signature := sig }

/-- the end of the reader on the state the extension loop reaches -/
theorem finishTbs_final (d : Decoded) (h : WF d) (op : Bool) (raw sig : Bytes) :
    finishTbs d.serial true op d.issuer d.subject d.notBefore d.notAfter d.keyAlg d.keyUnused d.keyBits raw sig
      (finalExts d) =
    some { d with innerParam := true, outerParam := op,
                  validity := ⟨civilToEpoch d.notBefore, civilToEpoch d.notAfter⟩, tbs := raw, signature := sig } := by
  obtain ⟨serial, innerParam, outerParam, issuer, subject, validity, notBefore, notAfter, keyAlg, keyUnused, keyBits,
    basicCa, ski, aki, keyUsage, eku, ekuContent, crlUri, caIssuer, sia, trim, v4, v6, asn, tbs, signature⟩ := d
  have hpres := h.present
  simp only at hpres
  have hsia : (if sia.caRepository.isSome = true ∨ sia.rpkiManifest.isSome = true ∨ sia.signedObject.isSome = true ∨
        sia.rpkiNotify.isSome = true then some sia else none).getD {} = sia := by
    obtain ⟨r, m, o, n⟩ := sia
    cases r <;> cases m <;> cases o <;> cases n <;> simp
  have hmiss : ∀ cl : Claim, ¬ Cert.isPresent cl = true → Claim.missing = cl := by
    intro cl hc; cases cl <;> simp_all [Cert.isPresent]
  unfold finishTbs finalExts
  simp only
  by_cases hip : Cert.isPresent v4 = true ∨ Cert.isPresent v6 = true
  · by_cases has : Cert.isPresent asn = true
    · simp [hip, has, optClaim_getD, hsia]
    · have := hmiss asn has
      subst this
      have hm : Cert.isPresent Claim.missing = false := rfl
      simp [hip, hm, optClaim_getD, hsia]
  · have has : Cert.isPresent asn = true := by
      rcases hpres with h1 | h1 | h1
      · exact absurd (Or.inl h1) hip
      · exact absurd (Or.inr h1) hip
      · exact h1
    have n4 := hmiss v4 (fun x => hip (Or.inl x))
    have n6 := hmiss v6 (fun x => hip (Or.inr x))
    subst n4 n6
    have hm : Cert.isPresent Claim.missing = false := rfl
    simp [hm, has, hsia]

/-- **`TbsCert::from_constructed` reads back what `TbsCert::encode_ref` writes**, for every certificate
whose fields are in the profile (`WF`). -/
theorem decodeTbs_encodeTbs (d : Decoded) (h : WF d) (op : Bool) (sig : Bytes) :
    decodeTbs (encodeTbs d) op sig = some (readBack d op sig) := by
  have hfold := extItems_fold d h
  have hser := (C17.serial_der_roundtrip d.serial h.serial).1
  have hfin := finishTbs_final d h op (encodeTbs d) sig
  unfold decodeTbs
  have e0 : encodeTbs d =
      tlv tagSeq (tlv 0xA0 (tlv tagInt [2]) ++ (tlv tagInt (X509.encodeContent d.serial) ++ (sigAlgEnc ++ (d.issuer ++ (tlv tagSeq (timeTlv d.notBefore ++ timeTlv d.notAfter) ++ (d.subject ++ (publicKeyEnc d.keyAlg d.keyUnused d.keyBits ++ tlv 0xA3 (tlv tagSeq (seqs (extItems d)))))))))) := by
    unfold encodeTbs; simp only [List.append_assoc]
  rw [e0, takeCons_tlv_nil tagSeq _ (by decide) (by decide)]
  dsimp only
  rw [AsDer.takeCons_tlv' 0xA0 _ _ (by decide) (by decide)]
  dsimp only
  rw [takePrim_tlv_nil tagInt [2] (by decide) (by decide)]
  dsimp only
  simp only [ne_eq, not_true_eq_false, or_self, if_false]
  rw [IpDer.takePrim_tlv' tagInt _ _ (by decide) (by decide)]
  dsimp only
  rw [hser]
  dsimp only
  rw [takeSigAlg_enc]
  dsimp only
  rw [h.issuer]
  dsimp only
  rw [takeValidityCivil_enc _ _ _ h.nb h.na]
  dsimp only
  rw [h.subject]
  dsimp only
  rw [takePublicKey_enc _ _ _ _ h.key]
  dsimp only
  rw [takeCons_tlv_nil 0xA3 _ (by decide) (by decide)]
  dsimp only
  simp only [not_true_eq_false, if_false]
  rw [takeCons_tlv_nil tagSeq _ (by decide) (by decide)]
  dsimp only
  simp only [not_true_eq_false, if_false]
  unfold seqs at e0 ⊢
  rw [foldCons_items' tagSeq (by decide) (by decide) extension (extItems d) {}, hfold]
  dsimp only
  rw [← e0]
  exact hfin

end Rpki.CertEnc

namespace Rpki.CertEnc
open Rpki.Der Rpki.CertDer Rpki.Chain Rpki.Consts

/-! ### what satisfies `WF` -/

/-- every canonical chain is read back by the IPv6 reader -/
theorem claimRead128_of_canon (cl : Claim) (h : ClaimCanon IpDer.maxAddr cl) : ClaimRead 128 cl := by
  cases cl with
  | missing => trivial
  | inherit => trivial
  | blocks c => exact ⟨IpDer.blocksLoop_encode c _ (IpDer.length_le_encodeBlocks c) h.1, h⟩

/-- every canonical chain of IPv4 blocks (bounds aligned to the low 96 bits of the 128-bit representation) is
read back by the IPv4 reader, whose length limit is 32 -/
theorem claimRead32_of_v4 (cl : Claim) (h : ClaimCanon IpDer.maxAddr cl)
    (hs : ∀ c, cl = .blocks c → ∀ b ∈ c, IpDer.V4Shaped b) : ClaimRead 32 cl := by
  cases cl with
  | missing => trivial
  | inherit => trivial
  | blocks c => exact ⟨IpDer.blocksLoop32_encode c _ (IpDer.length_le_encodeBlocks c) h.1 (hs c rfl), h⟩

/-- every canonical chain of AS numbers (or `inherit`) is read back -/
theorem asRead_of_canon (cl : Claim) (h : ClaimCanon AsDer.maxAs cl) (hp : cl ≠ .missing) : AsRead cl := by
  cases cl with
  | missing => exact absurd rfl hp
  | inherit => trivial
  | blocks c => exact h

/-- the names the library makes (`Name::from_pub_key`: one RDN with a commonName in a PrintableString) and
every name of that shape are complete values for the reader -/
theorem nameOk_cn (s : Bytes) :
    NameOk (tlv tagSeq (tlv tagSet (tlv tagSeq (tlv tagOid oidCommonName ++ tlv tagPrintable s)))) := by
  intro rest
  unfold takeName
  rw [AsDer.takeCons_tlv' tagSeq _ rest (by decide) (by decide)]
  dsimp only
  have hne : tlv tagSet (tlv tagSeq (tlv tagOid oidCommonName ++ tlv tagPrintable s)) ≠ [] := by simp [tlv]
  simp only [hne, if_false]
  -- the RDN loop: one SET
  have e1 : tlv tagSet (tlv tagSeq (tlv tagOid oidCommonName ++ tlv tagPrintable s)) =
      (([tlv tagSeq (tlv tagOid oidCommonName ++ tlv tagPrintable s)]).map (tlv tagSet)).flatten := by simp
  have hattr : nameAttr () (tlv tagOid oidCommonName ++ tlv tagPrintable s) = some () := by
    unfold nameAttr
    rw [IpDer.takePrim_tlv' tagOid oidCommonName _ (by decide) (by decide)]
    have ho : oidOk oidCommonName = true := by decide
    have hn : tlv tagPrintable s ≠ [] := by simp [tlv]
    have hskip : skipOne (tlv tagPrintable s) = some [] := by
      unfold skipOne
      have hl : (tlv tagPrintable s).length + 1 = ((tlv tagPrintable s).length) + 1 := rfl
      rw [skipLoop]
      have ht : takeTagAny (tlv tagPrintable s) = some (tagPrintable, encLen s.length ++ s) := by
        simp [takeTagAny, tlv, tagPrintable]
      have hlx : readLenX (encLen s.length ++ s) = some (.definite s.length, s) := by
        unfold readLenX
        have hr := AsDer.readLen_encLen' s.length s
        have hh : ∀ r, encLen s.length ++ s = 0x80 :: r → False := by
          intro r e
          unfold encLen at e
          split at e
          · simp at e; omega
          · split at e <;> [skip; split at e <;> [skip; split at e]] <;> simp at e
        split
        · rename_i r heq; exact absurd heq (fun e => hh r e)
        · simp [hr]
      simp only [ht, hlx]
      have hc : isCons tagPrintable = false := by decide
      have ht0 : ¬ tagPrintable = 0 := by decide
      simp [hc, ht0, post]
    simp [ho, hn, hskip]
  have hrdn : nameRdn () (tlv tagSeq (tlv tagOid oidCommonName ++ tlv tagPrintable s)) = some () := by
    unfold nameRdn
    have hne2 : tlv tagSeq (tlv tagOid oidCommonName ++ tlv tagPrintable s) ≠ [] := by simp [tlv]
    simp only [hne2, if_false]
    have e2 : tlv tagSeq (tlv tagOid oidCommonName ++ tlv tagPrintable s) =
        (([tlv tagOid oidCommonName ++ tlv tagPrintable s]).map (tlv tagSeq)).flatten := by simp
    rw [e2, foldCons_items' tagSeq (by decide) (by decide) nameAttr _ ()]
    simp [hattr]
  rw [e1, foldCons_items' tagSet (by decide) (by decide) nameRdn _ ()]
  simp only [List.foldlM_cons, List.foldlM_nil, hrdn]
  simp only [bind, Option.bind, pure, List.length_append, Nat.add_sub_cancel, List.take_left']

end Rpki.CertEnc
