import Rpki.Model.RtrServer
namespace Rpki.RtrServer
open Rpki.Consts Rpki.Rtr

theorem cancelSafe : rtrRecvCancelSafe = true := rfl

/-! ### `parseOne` only looks at the bytes it consumes -/

theorem take_append_of_le {α} (s t : List α) (n : Nat) (h : n ≤ s.length) : (s ++ t).take n = s.take n :=
  List.take_append_of_le_length h

/-- the two facts we need about a parse result on a prefix -/
def Stable (src : Src) (r r' : Parse) (slen : Nat) : Prop :=
  (∀ used out w, r = .one used out w → 8 ≤ used ∧ used ≤ slen ∧ r' = .one used out w) ∧
  (r = .dead → r' = .dead)

theorem stable_one (src : Src) (used : Nat) (out : Out) (w : Option Nat) (slen : Nat) (h1 : 8 ≤ used) (h2 : used ≤ slen) :
    Stable src (.one used out w) (.one used out w) slen := by
  refine ⟨?_, ?_⟩
  · intro u o w' e
    injection e with e1 e2 e3
    subst e1; subst e2; subst e3
    exact ⟨h1, h2, rfl⟩
  · intro e; cases e

theorem stable_more (src : Src) (r' : Parse) (slen : Nat) : Stable src .more r' slen := by
  refine ⟨?_, ?_⟩
  · intro u o w e; cases e
  · intro e; cases e

theorem stable_dead (src : Src) (slen : Nat) : Stable src .dead .dead slen := by
  refine ⟨?_, ?_⟩
  · intro u o w e; cases e
  · intro _; rfl

theorem parseOne_body_stable (src : Src) (s t : Bytes) (h : Hdr) (ver' : Option Nat) (v : Nat)
    (h8 : 8 ≤ s.length) :
    Stable src (parseOne.body src s h ver' v) (parseOne.body src (s ++ t) h ver' v) s.length := by
  unfold parseOne.body
  have ht8 : (s ++ t).take 8 = s.take 8 := take_append_of_le s t 8 h8
  rw [ht8]
  by_cases hq : h.pdu = pduSerialQuery
  · simp only [if_pos hq]
    by_cases hl : h.length ≠ sizeSerialQuery
    · simp only [if_pos hl]; exact stable_one _ _ _ _ _ (Nat.le_refl _) h8
    · simp only [if_neg hl]
      by_cases h12 : s.length < 12
      · rw [if_pos h12]; exact stable_more _ _ _
      · have h12' : ¬ (s ++ t).length < 12 := by simp; omega
        rw [if_neg h12, if_neg h12']
        have : ((s ++ t).drop 8).take 4 = (s.drop 8).take 4 := by
          rw [List.drop_append_of_le_length (by omega), List.take_append_of_le_length (by simp; omega)]
        rw [this]
        exact stable_one _ _ _ _ _ (by omega) (by omega)
  · simp only [if_neg hq]
    by_cases hr : h.pdu = pduResetQuery
    · simp only [if_pos hr]
      by_cases hl : h.length ≠ sizeResetQuery
      · simp only [if_pos hl]; exact stable_one _ _ _ _ _ (Nat.le_refl _) h8
      · simp only [if_neg hl]; exact stable_one _ _ _ _ _ (Nat.le_refl _) h8
    · simp only [if_neg hr]
      by_cases he : h.pdu = pduError
      · simp only [if_pos he]; exact stable_dead _ _
      · simp only [if_neg he]; exact stable_one _ _ _ _ _ (Nat.le_refl _) h8

theorem parseOne_stable' (src : Src) (ver : Option Nat) (s t : Bytes) :
    Stable src (parseOne src ver s) (parseOne src ver (s ++ t)) s.length := by
  unfold parseOne
  by_cases h8 : s.length < 8
  · rw [if_pos h8]; exact stable_more _ _ _
  · have h8' : ¬ (s ++ t).length < 8 := by simp; omega
    have hle : 8 ≤ s.length := by omega
    have ht8 : (s ++ t).take 8 = s.take 8 := take_append_of_le s t 8 hle
    rw [if_neg h8, if_neg h8']
    simp only [ht8]
    cases ver with
    | some cur =>
      simp only
      by_cases hv : cur ≠ (decHdr (s.take 8)).version
      · simp only [if_pos hv]; exact stable_one _ _ _ _ _ (Nat.le_refl _) hle
      · simp only [if_neg hv]; exact parseOne_body_stable src s t _ _ _ hle
    | none =>
      simp only
      by_cases hv : (decHdr (s.take 8)).version > rtrMaxVersion
      · simp only [if_pos hv]; exact stable_one _ _ _ _ _ (Nat.le_refl _) hle
      · simp only [if_neg hv]; exact parseOne_body_stable src s t _ _ _ hle

theorem parseOne_stable (src : Src) (ver : Option Nat) (s t : Bytes) :
    (∀ used out w, parseOne src ver s = .one used out w →
        8 ≤ used ∧ used ≤ s.length ∧ parseOne src ver (s ++ t) = .one used out w) ∧
    (parseOne src ver s = .dead → parseOne src ver (s ++ t) = .dead) := parseOne_stable' src ver s t

/-! ### the specification does not depend on its fuel -/

theorem serveAux_fuel (src : Src) : ∀ (f g : Nat) (ver : Option Nat) (s : Bytes),
    s.length < f → s.length < g → serveAux src f ver s = serveAux src g ver s := by
  intro f
  induction f with
  | zero => intro g ver s h; omega
  | succ f ih =>
    intro g ver s hf hg
    cases g with
    | zero => omega
    | succ g =>
      rw [serveAux, serveAux]
      cases hp : parseOne src ver s with
      | more => rfl
      | dead => rfl
      | one used out w =>
        simp only
        have ⟨h1, h2, _⟩ := (parseOne_stable src ver s []).1 used out w hp
        rw [ih g w (s.drop used) (by simp; omega) (by simp; omega)]

def respOnly (l : List Out) : List Out := l.filter (fun o => !o.isNotify)

theorem respOnly_append (a b : List Out) : respOnly (a ++ b) = respOnly a ++ respOnly b := by
  unfold respOnly; simp

theorem answerSerial_not_notify (src : Src) (a b c : Nat) : (answerSerial src a b c).isNotify = false := by
  unfold answerSerial
  split
  · rfl
  · split <;> rfl

theorem answerReset_not_notify (src : Src) (a : Nat) : (answerReset src a).isNotify = false := by
  unfold answerReset; split <;> rfl

/-- no parsed answer is a Serial Notify -/
theorem body_not_notify (src : Src) (s : Bytes) (h : Hdr) (ver' : Option Nat) (v : Nat) (used : Nat) (out : Out)
    (w : Option Nat) (e : parseOne.body src s h ver' v = .one used out w) : out.isNotify = false := by
  unfold parseOne.body at e
  by_cases hq : h.pdu = pduSerialQuery
  · rw [if_pos hq] at e
    by_cases hl : h.length ≠ sizeSerialQuery
    · rw [if_pos hl] at e; injection e with _ e2 _; rw [← e2]; rfl
    · rw [if_neg hl] at e
      by_cases h12 : s.length < 12
      · rw [if_pos h12] at e; cases e
      · rw [if_neg h12] at e; injection e with _ e2 _; rw [← e2]; exact answerSerial_not_notify _ _ _ _
  · rw [if_neg hq] at e
    by_cases hr : h.pdu = pduResetQuery
    · rw [if_pos hr] at e
      by_cases hl : h.length ≠ sizeResetQuery
      · rw [if_pos hl] at e; injection e with _ e2 _; rw [← e2]; rfl
      · rw [if_neg hl] at e; injection e with _ e2 _; rw [← e2]; exact answerReset_not_notify _ _
    · rw [if_neg hr] at e
      by_cases he : h.pdu = pduError
      · rw [if_pos he] at e; cases e
      · rw [if_neg he] at e; injection e with _ e2 _; rw [← e2]; rfl

theorem parseOne_not_notify (src : Src) (ver : Option Nat) (s : Bytes) (used : Nat) (out : Out) (w : Option Nat)
    (h : parseOne src ver s = .one used out w) : out.isNotify = false := by
  unfold parseOne at h
  by_cases h8 : s.length < 8
  · rw [if_pos h8] at h; cases h
  · rw [if_neg h8] at h
    cases ver with
    | some cur =>
      simp only at h
      by_cases hv : cur ≠ (decHdr (s.take 8)).version
      · rw [if_pos hv] at h; injection h with _ e2 _; rw [← e2]; rfl
      · rw [if_neg hv] at h; exact body_not_notify _ _ _ _ _ _ _ _ h
    | none =>
      simp only at h
      by_cases hv : (decHdr (s.take 8)).version > rtrMaxVersion
      · rw [if_pos hv] at h; injection h with _ e2 _; rw [← e2]; rfl
      · rw [if_neg hv] at h; exact body_not_notify _ _ _ _ _ _ _ _ h

end Rpki.RtrServer
