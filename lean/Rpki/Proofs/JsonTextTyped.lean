/-
  From the text of a SLURM file back to the file: the strings under `prefix`, `SKI` and
  `routerPublicKey` are read back as the prefix / the octets they were written for, so the tree the
  reference reader returns, with its leaves typed, is the tree the file serialises to.
-/
import Rpki.Proofs.JsonTextLemmas
import Rpki.Proofs.SlurmLemmas
import Rpki.Proofs.PfxTextLemmas
import Rpki.Proofs.ProvMsgLemmas
namespace Rpki.JsonText
open Rpki.Slurm Rpki.Prefix

def OctetsOk (b : List Nat) : Prop := ∀ x ∈ b, x < 256

/-- what the text layer needs of a file beyond `SlurmFile.WF`: prefixes as the constructors make them,
octet strings made of octets -/
def PrefixFilter.TextWF (f : PrefixFilter) : Prop := ∀ p, f.pfx = some p → PfxText.PfxWF p
def BgpsecFilter.TextWF (f : BgpsecFilter) : Prop := ∀ s, f.ski = some s → OctetsOk s ∧ s.length = 20
def PrefixAssertion.TextWF (a : PrefixAssertion) : Prop := PfxText.PfxWF a.mlp.pfx
def BgpsecAssertion.TextWF (a : BgpsecAssertion) : Prop := (OctetsOk a.ski ∧ a.ski.length = 20) ∧ OctetsOk a.key
def FileTextWF (f : SlurmFile) : Prop :=
  (∀ x ∈ f.filters.pfs, PrefixFilter.TextWF x) ∧ (∀ x ∈ f.filters.bgpsec, BgpsecFilter.TextWF x) ∧
  (∀ x ∈ f.assertions.pas, PrefixAssertion.TextWF x) ∧ (∀ x ∈ f.assertions.bgpsec, BgpsecAssertion.TextWF x)

theorem retype_pfx (p : Pfx) (h : PfxText.PfxWF p) :
    retype (.key .prefixK) (.str (PfxText.fmtPfx p)) = .pfx p := by
  simp [retype, PfxText.parsePfx_fmt false p h]

theorem b64Url_urlsafe (b : List Nat) : (ProvMsg.b64Url b).any (fun c => c = 43 || c = 47) = false := by
  rw [List.any_eq_false]
  intro c hc
  unfold ProvMsg.b64Url at hc
  rw [List.mem_map] at hc
  obtain ⟨c', _, rfl⟩ := hc
  by_cases h1 : c' = 43
  · subst h1; decide
  · by_cases h2 : c' = 47
    · subst h2; decide
    · simp [h1, h2]

theorem unB64 (b : List Nat) (h : OctetsOk b) : slurmB64 (ProvMsg.b64Url b) = some b := by
  unfold slurmB64
  rw [b64Url_urlsafe b]
  simp only [Bool.false_eq_true, if_false]
  exact ProvMsg.unB64Url_b64Url b h

/-- twenty octets are written as 27 characters -/
theorem b64Url_len20 (b : List Nat) (h : b.length = 20) : (ProvMsg.b64Url b).length = 27 := by
  match b, h with
  | [a1, a2, a3, a4, a5, a6, a7, a8, a9, a10, a11, a12, a13, a14, a15, a16, a17, a18, a19, a20], _ =>
    have ne : ∀ v, (Xml.b64Char v = 61) = False := fun v => eq_false (Xml.b64Char_range v).2.2
    simp [ProvMsg.b64Url, Xml.b64Encode, List.filter, ne]

theorem retype_ski (s : List Nat) (h : OctetsOk s ∧ s.length = 20) :
    retype (.key .ski) (.str (ProvMsg.b64Url s)) = .bytes s := by
  simp [retype, b64Url_len20 s h.2, unB64 s h.1]

theorem retypeArr_map {α : Type} (g : α → Json) (k : Ctx) : ∀ (l : List α),
    (∀ x ∈ l, retype k (erase (g x)) = g x) → retypeArr k (eraseArr (l.map g)) = l.map g := by
  intro l
  induction l with
  | nil => intro _; simp [eraseArr, retypeArr]
  | cons x r ih =>
    intro h
    simp only [List.map_cons, eraseArr, retypeArr, h x (by simp), ih (fun y hy => h y (by simp [hy]))]

theorem PrefixFilter.retype_erase (f : PrefixFilter) (h : PrefixFilter.TextWF f) (k : Ctx) :
    retype k (erase f.toJson) = f.toJson := by
  obtain ⟨p, a, c⟩ := f
  cases p with
  | none =>
    cases a <;> cases c <;> simp [PrefixFilter.toJson, optField, erase, eraseObj, retype, retypeObj]
  | some p =>
    have hp := retype_pfx p (h p rfl)
    cases a <;> cases c <;> simp [PrefixFilter.toJson, optField, erase, eraseObj, retype, retypeObj] <;>
      simpa [retype] using hp

theorem BgpsecFilter.retype_erase (f : BgpsecFilter) (h : BgpsecFilter.TextWF f) (k : Ctx) :
    retype k (erase f.toJson) = f.toJson := by
  obtain ⟨s, a, c⟩ := f
  cases s with
  | none =>
    cases a <;> cases c <;> simp [BgpsecFilter.toJson, optField, erase, eraseObj, retype, retypeObj]
  | some s =>
    have hl := b64Url_len20 s (h s rfl).2
    have hs := unB64 s (h s rfl).1
    cases a <;> cases c <;> simp [BgpsecFilter.toJson, optField, erase, eraseObj, retype, retypeObj, hs, hl]

theorem AspaFilter.retype_erase (f : AspaFilter) (k : Ctx) :
    retype k (erase f.toJson) = f.toJson := by
  obtain ⟨a, c⟩ := f
  cases a <;> cases c <;> simp [AspaFilter.toJson, optField, erase, eraseObj, retype, retypeObj]

theorem PrefixAssertion.retype_erase (a : PrefixAssertion) (h : PrefixAssertion.TextWF a) (k : Ctx) :
    retype k (erase a.toJson) = a.toJson := by
  obtain ⟨⟨p, ml⟩, asn, c⟩ := a
  have hp := PfxText.parsePfx_fmt false p h
  cases ml <;> cases c <;>
    simp [PrefixAssertion.toJson, optField, erase, eraseObj, retype, retypeObj, hp]

theorem BgpsecAssertion.retype_erase (a : BgpsecAssertion) (h : BgpsecAssertion.TextWF a) (k : Ctx) :
    retype k (erase a.toJson) = a.toJson := by
  obtain ⟨asn, s, key, c⟩ := a
  have hl := b64Url_len20 s h.1.2
  have h1 := unB64 s h.1.1
  have h2 := unB64 key h.2
  cases c <;> simp [BgpsecAssertion.toJson, optField, erase, eraseObj, retype, retypeObj, h1, h2, hl]

theorem AspaAssertion.retype_erase (a : AspaAssertion) (k : Ctx) :
    retype k (erase a.toJson) = a.toJson := by
  obtain ⟨cu, ps, c⟩ := a
  have e := retypeArr_map Json.num (Ctx.elem Key.providerAsns) ps (fun x _ => by simp [erase, retype])
  cases c <;> simp [AspaAssertion.toJson, optField, erase, eraseObj, retype, retypeObj, e]

theorem file_retype_erase (f : SlurmFile) (h : FileTextWF f) :
    retype .top (erase f.toJson) = f.toJson := by
  obtain ⟨v, ⟨pfs, bgf, af⟩, ⟨pas, bga, aa⟩⟩ := f
  obtain ⟨h1, h2, h3, h4⟩ := h
  simp only at h1 h2 h3 h4
  have e1 := retypeArr_map PrefixFilter.toJson (Ctx.elem Key.prefixFilters) pfs
    (fun x hx => PrefixFilter.retype_erase x (h1 x hx) _)
  have e2 := retypeArr_map BgpsecFilter.toJson (Ctx.elem Key.bgpsecFilters) bgf
    (fun x hx => BgpsecFilter.retype_erase x (h2 x hx) _)
  have e4 := retypeArr_map PrefixAssertion.toJson (Ctx.elem Key.prefixAssertions) pas
    (fun x hx => PrefixAssertion.retype_erase x (h3 x hx) _)
  have e5 := retypeArr_map BgpsecAssertion.toJson (Ctx.elem Key.bgpsecAssertions) bga
    (fun x hx => BgpsecAssertion.retype_erase x (h4 x hx) _)
  have e3 : ∀ l : List AspaFilter, retypeArr (Ctx.elem Key.aspaFilters) (eraseArr (l.map AspaFilter.toJson)) =
      l.map AspaFilter.toJson := fun l => retypeArr_map _ _ l (fun x _ => AspaFilter.retype_erase x _)
  have e6 : ∀ l : List AspaAssertion, retypeArr (Ctx.elem Key.aspaAssertions) (eraseArr (l.map AspaAssertion.toJson)) =
      l.map AspaAssertion.toJson := fun l => retypeArr_map _ _ l (fun x _ => AspaAssertion.retype_erase x _)
  cases af <;> cases aa <;>
    simp [SlurmFile.toJson, Filters.toJson, Assertions.toJson, optArr, erase, eraseObj, retype, retypeObj,
      e1, e2, e3, e4, e5, e6]

/-- **From text to file.** The text `SlurmFile::to_string` writes is read back — reference reader,
typed leaves, field deserialisers — as the file it was written for. -/
theorem readFile_fileText (f : SlurmFile) (hw : f.WF) (ht : FileTextWF f) :
    readFile (fileText f) = some f := by
  unfold readFile fileText
  rw [parse_render]
  simp only [Option.bind_some, file_retype_erase f ht]
  exact SlurmFile.roundtrip f hw

end Rpki.JsonText
