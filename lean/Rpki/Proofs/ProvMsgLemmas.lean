/-
  RFC 6492 provisioning messages (`Rpki.Model.ProvMsg`): what `write` emits is read back by the
  reference reader as the same message.

  * the literals of the model as octets (the technique of `PubMsgLemmas`: `s_of`)
  * the value codecs: unpadded URL-safe Base64, RFC 3339 time, resource sets in text
  * well-formedness of the written tree (up to the empty text line of an empty certificate / request)
  * tree-level and document-level round trips
-/
import Rpki.Model.ProvMsg
import Rpki.Proofs.PubMsgLemmas
import Rpki.Proofs.ResTextLemmas
import Rpki.Proofs.ResTextSets
namespace Rpki.ProvMsg
set_option autoImplicit false
open Rpki.Xml Rpki.XmlDoc Rpki.Chain
open Rpki.PubMsg (s lookup s_of BytesOk)

/-! ### string literals as octets -/

section literals
set_option maxRecDepth 100000
theorem s_list : s "list" = [108, 105, 115, 116] := s_of _ _ _ rfl (by decide)
theorem s_list_response : s "list_response" = [108, 105, 115, 116, 95, 114, 101, 115, 112, 111, 110, 115, 101] := s_of _ _ _ rfl (by decide)
theorem s_issue : s "issue" = [105, 115, 115, 117, 101] := s_of _ _ _ rfl (by decide)
theorem s_issue_response : s "issue_response" = [105, 115, 115, 117, 101, 95, 114, 101, 115, 112, 111, 110, 115, 101] := s_of _ _ _ rfl (by decide)
theorem s_revoke : s "revoke" = [114, 101, 118, 111, 107, 101] := s_of _ _ _ rfl (by decide)
theorem s_revoke_response : s "revoke_response" = [114, 101, 118, 111, 107, 101, 95, 114, 101, 115, 112, 111, 110, 115, 101] := s_of _ _ _ rfl (by decide)
theorem s_error_response : s "error_response" = [101, 114, 114, 111, 114, 95, 114, 101, 115, 112, 111, 110, 115, 101] := s_of _ _ _ rfl (by decide)
theorem s_req_resource_set_as : s "req_resource_set_as" = [114, 101, 113, 95, 114, 101, 115, 111, 117, 114, 99, 101, 95, 115, 101, 116, 95, 97, 115] := s_of _ _ _ rfl (by decide)
theorem s_req_resource_set_ipv4 : s "req_resource_set_ipv4" = [114, 101, 113, 95, 114, 101, 115, 111, 117, 114, 99, 101, 95, 115, 101, 116, 95, 105, 112, 118, 52] := s_of _ _ _ rfl (by decide)
theorem s_req_resource_set_ipv6 : s "req_resource_set_ipv6" = [114, 101, 113, 95, 114, 101, 115, 111, 117, 114, 99, 101, 95, 115, 101, 116, 95, 105, 112, 118, 54] := s_of _ _ _ rfl (by decide)
theorem s_certificate : s "certificate" = [99, 101, 114, 116, 105, 102, 105, 99, 97, 116, 101] := s_of _ _ _ rfl (by decide)
theorem s_cert_url : s "cert_url" = [99, 101, 114, 116, 95, 117, 114, 108] := s_of _ _ _ rfl (by decide)
theorem s_class : s "class" = [99, 108, 97, 115, 115] := s_of _ _ _ rfl (by decide)
theorem s_class_name : s "class_name" = [99, 108, 97, 115, 115, 95, 110, 97, 109, 101] := s_of _ _ _ rfl (by decide)
theorem s_resource_set_as : s "resource_set_as" = [114, 101, 115, 111, 117, 114, 99, 101, 95, 115, 101, 116, 95, 97, 115] := s_of _ _ _ rfl (by decide)
theorem s_resource_set_ipv4 : s "resource_set_ipv4" = [114, 101, 115, 111, 117, 114, 99, 101, 95, 115, 101, 116, 95, 105, 112, 118, 52] := s_of _ _ _ rfl (by decide)
theorem s_resource_set_ipv6 : s "resource_set_ipv6" = [114, 101, 115, 111, 117, 114, 99, 101, 95, 115, 101, 116, 95, 105, 112, 118, 54] := s_of _ _ _ rfl (by decide)
theorem s_resource_set_notafter : s "resource_set_notafter" = [114, 101, 115, 111, 117, 114, 99, 101, 95, 115, 101, 116, 95, 110, 111, 116, 97, 102, 116, 101, 114] := s_of _ _ _ rfl (by decide)
theorem s_issuer : s "issuer" = [105, 115, 115, 117, 101, 114] := s_of _ _ _ rfl (by decide)
theorem s_key : s "key" = [107, 101, 121] := s_of _ _ _ rfl (by decide)
theorem s_ski : s "ski" = [115, 107, 105] := s_of _ _ _ rfl (by decide)
theorem s_request : s "request" = [114, 101, 113, 117, 101, 115, 116] := s_of _ _ _ rfl (by decide)
theorem s_status : s "status" = [115, 116, 97, 116, 117, 115] := s_of _ _ _ rfl (by decide)
theorem s_description : s "description" = [100, 101, 115, 99, 114, 105, 112, 116, 105, 111, 110] := s_of _ _ _ rfl (by decide)
theorem s_message : s "message" = [109, 101, 115, 115, 97, 103, 101] := s_of _ _ _ rfl (by decide)
theorem s_xmlns : s "xmlns" = [120, 109, 108, 110, 115] := s_of _ _ _ rfl (by decide)
theorem s_version : s "version" = [118, 101, 114, 115, 105, 111, 110] := s_of _ _ _ rfl (by decide)
theorem s_sender : s "sender" = [115, 101, 110, 100, 101, 114] := s_of _ _ _ rfl (by decide)
theorem s_recipient : s "recipient" = [114, 101, 99, 105, 112, 105, 101, 110, 116] := s_of _ _ _ rfl (by decide)
theorem s_type : s "type" = [116, 121, 112, 101] := s_of _ _ _ rfl (by decide)
theorem ns_eq : ns = [104, 116, 116, 112, 58, 47, 47, 119, 119, 119, 46, 97, 112, 110, 105, 99, 46, 110, 101, 116, 47, 115, 112, 101, 99, 115, 47, 114, 101, 115, 99, 101, 114, 116, 115, 47, 117, 112, 45, 100, 111, 119, 110, 47] := s_of _ _ _ rfl (by decide)
theorem version_eq : version = [49] := s_of _ _ _ rfl (by decide)
end literals

/-- rewrite every literal of the model to its octets -/
macro "plits" : tactic => `(tactic| simp only [s_list, s_list_response, s_issue, s_issue_response, s_revoke, s_revoke_response, s_error_response, s_req_resource_set_as, s_req_resource_set_ipv4, s_req_resource_set_ipv6, s_certificate, s_cert_url, s_class, s_class_name, s_resource_set_as, s_resource_set_ipv4, s_resource_set_ipv6, s_resource_set_notafter, s_issuer, s_key, s_ski, s_request, s_status, s_description, s_message, s_xmlns, s_version, s_sender, s_recipient, s_type, ns_eq, version_eq] at *)

/-! ### (1) value codecs -/

/-- standard alphabet to URL-safe and back -/
def toUrl (c : Nat) : Nat := if c = 43 then 45 else if c = 47 then 95 else c
def ofUrl (c : Nat) : Nat := if c = 45 then 43 else if c = 95 then 47 else c

theorem b64Char_cases (v : Nat) :
    (65 ≤ b64Char v ∧ b64Char v ≤ 90) ∨ (97 ≤ b64Char v ∧ b64Char v ≤ 122) ∨ (48 ≤ b64Char v ∧ b64Char v ≤ 57) ∨
      b64Char v = 43 ∨ b64Char v = 47 := by
  unfold b64Char; repeat' split
  all_goals omega

theorem ofUrl_toUrl (c : Nat) (h : c ≠ 45 ∧ c ≠ 95) : ofUrl (toUrl c) = c := by
  unfold ofUrl toUrl
  split
  · simp only [if_true]; omega
  · split
    · simp only [show ¬ (95 : Nat) = 45 by decide, if_false, if_true]; omega
    · simp only [h.1, h.2, if_false]

/-- the Base64 text without its padding, and the padding the reader puts back -/
theorem unpad_repad (k : Bytes) :
    (b64Encode k).filter (· ≠ 61) ++
      (match ((b64Encode k).filter (· ≠ 61)).length % 4 with | 2 => [61, 61] | 3 => [61] | _ => []) = b64Encode k := by
  fun_induction b64Encode k with
  | case1 => rfl
  | case2 a =>
    have h1 := (b64Char_range (a / 4)).2.2
    have h2 := (b64Char_range (a % 4 * 16)).2.2
    simp [h1, h2]
  | case3 a b =>
    have h1 := (b64Char_range (a / 4)).2.2
    have h2 := (b64Char_range (a % 4 * 16 + b / 16)).2.2
    have h3 := (b64Char_range (b % 16 * 4)).2.2
    simp [h1, h2, h3]
  | case4 a b c rest ih =>
    have h1 := (b64Char_range (a / 4)).2.2
    have h2 := (b64Char_range (a % 4 * 16 + b / 16)).2.2
    have h3 := (b64Char_range (b % 16 * 4 + c / 64)).2.2
    have h4 := (b64Char_range (c % 64)).2.2
    simp only [List.filter_cons, ne_eq, h1, h2, h3, h4, not_false_eq_true, decide_true, if_true,
      List.length_cons, List.cons_append]
    have e : ((List.filter (fun x => decide (¬ x = 61)) (b64Encode rest)).length + 1 + 1 + 1 + 1) % 4 =
        (List.filter (fun x => decide (¬ x = 61)) (b64Encode rest)).length % 4 := by omega
    rw [e]
    simp only [ne_eq] at ih
    rw [ih]

theorem mem_unpadded (k : Bytes) : ∀ c ∈ (b64Encode k).filter (· ≠ 61),
    43 ≤ c ∧ c ≤ 122 ∧ c ≠ 60 ∧ c ≠ 45 ∧ c ≠ 95 := by
  have key : ∀ v, 43 ≤ b64Char v ∧ b64Char v ≤ 122 ∧ b64Char v ≠ 60 ∧ b64Char v ≠ 45 ∧ b64Char v ≠ 95 := by
    intro v; have := b64Char_cases v; omega
  fun_induction b64Encode k with
  | case1 => intro c hc; cases hc
  | case2 a =>
    intro c hc
    have := key (a / 4); have := key (a % 4 * 16)
    simp only [List.mem_filter, List.mem_cons, List.not_mem_nil, or_false, ne_eq, decide_not,
      Bool.not_eq_eq_eq_not, Bool.not_true, decide_eq_false_iff_not] at hc
    rcases hc with ⟨rfl | rfl | rfl | rfl, h⟩ <;> omega
  | case3 a b =>
    intro c hc
    have := key (a / 4); have := key (a % 4 * 16 + b / 16); have := key (b % 16 * 4)
    simp only [List.mem_filter, List.mem_cons, List.not_mem_nil, or_false, ne_eq, decide_not,
      Bool.not_eq_eq_eq_not, Bool.not_true, decide_eq_false_iff_not] at hc
    rcases hc with ⟨rfl | rfl | rfl | rfl, h⟩ <;> omega
  | case4 a b c' rest ih =>
    intro c hc
    have := key (a / 4); have := key (a % 4 * 16 + b / 16)
    have := key (b % 16 * 4 + c' / 64); have := key (c' % 64)
    rw [List.mem_filter] at hc
    obtain ⟨hm, hne⟩ := hc
    simp only [List.mem_cons] at hm
    rcases hm with rfl | rfl | rfl | rfl | hm
    · omega
    · omega
    · omega
    · omega
    · exact ih c (List.mem_filter.2 ⟨hm, hne⟩)

/-- the unpadded URL-safe form is read back for octet strings of every length -/
theorem unB64Url_b64Url (k : Bytes) (hk : BytesOk k) : unB64Url (b64Url k) = some k := by
  have hmap : (((b64Encode k).filter (· ≠ 61)).map toUrl).map ofUrl = (b64Encode k).filter (· ≠ 61) := by
    rw [List.map_map]
    conv => rhs; rw [← List.map_id ((b64Encode k).filter (· ≠ 61))]
    apply List.map_congr_left
    intro c hc
    have := mem_unpadded k c hc
    exact ofUrl_toUrl c ⟨this.2.2.2.1, this.2.2.2.2⟩
  unfold unB64Url b64Url
  show b64Decode ((((b64Encode k).filter (· ≠ 61)).map toUrl).map ofUrl ++
    (match ((((b64Encode k).filter (· ≠ 61)).map toUrl).map ofUrl).length % 4 with
      | 2 => [61, 61] | 3 => [61] | _ => [])) = some k
  rw [hmap, unpad_repad k]
  exact b64Decode_b64Encode k hk

theorem b64Url_valueOk (k : Bytes) : ValueOk (b64Url k) := by
  have key : ∀ c ∈ b64Url k, c ≠ 34 ∧ c ≠ 60 := by
    intro c hc
    unfold b64Url at hc
    obtain ⟨c', hc', rfl⟩ := List.mem_map.1 hc
    have := mem_unpadded k c' hc'
    split
    · omega
    · split <;> omega
  exact ⟨fun h => (key 34 h).1 rfl, fun h => (key 60 h).2 rfl⟩

/-- the fields of a civil time as `rfc3339` can write them: four and two decimal digits -/
def TimeOk (c : X509.Civil) : Prop :=
  c.y < 10000 ∧ c.m < 100 ∧ c.d < 100 ∧ c.h < 100 ∧ c.mi < 100 ∧ c.s < 100

theorem two_digits (a b : Nat) (ha : a < 10) (hb : b < 10) : two (48 + a) (48 + b) = some (a * 10 + b) := by
  unfold two
  rw [if_pos (by omega)]
  congr 1
  omega

theorem readTime_rfc3339 (c : X509.Civil)
    (h : c.y < 10000 ∧ c.m < 100 ∧ c.d < 100 ∧ c.h < 100 ∧ c.mi < 100 ∧ c.s < 100) :
    readTime (rfc3339 c) = some c := by
  obtain ⟨y, m, d, hh, mi, ss⟩ := c
  simp only at h
  have hm : ∀ x : Nat, x % 10 < 10 := fun x => Nat.mod_lt _ (by decide)
  simp only [rfc3339, X509.pad4, X509.pad2, List.cons_append, List.nil_append, readTime,
    two_digits _ _ (hm _) (hm _)]
  congr 1
  simp only [X509.Civil.mk.injEq]
  omega

theorem rfc3339_valueOk (c : X509.Civil) : ValueOk (rfc3339 c) := by
  have key : ∀ x ∈ rfc3339 c, x ≠ 34 ∧ x ≠ 60 := by
    intro x hx
    simp only [rfc3339, X509.pad4, X509.pad2, List.cons_append, List.nil_append, List.mem_cons,
      List.not_mem_nil, or_false] at hx
    omega
  exact ⟨fun h => (key 34 h).1 rfl, fun h => (key 60 h).2 rfl⟩

/-- IPv4 chains: canonical in the 128-bit space, every block covering whole IPv4 addresses -/
def V4Canon (c : List Blk) : Prop :=
  Canon (2 ^ 128 - 1) c ∧ ∀ b ∈ c, b.lo % 2 ^ 96 = 0 ∧ b.hi % 2 ^ 96 = 2 ^ 96 - 1

theorem readAs_fmt (c : List Blk) (hc : Canon 4294967295 c) : readAs (ResText.fmtAs c) = some c :=
  ResText.parseAs_fmt c hc

theorem all_ordered (c : List Blk) (hc : ∀ b ∈ c, b.lo ≤ b.hi) : c.all (fun b => b.lo ≤ b.hi) = true := by
  rw [List.all_eq_true]
  intro b hb
  simp only [decide_eq_true_eq]
  exact hc b hb

theorem readIp_fmt_v6 (c : List Blk) (hc : Canon (2 ^ 128 - 1) c) : readIp false (fmtV6 c) = some c := by
  obtain ⟨ts, e, h⟩ := ResText.parseIpItems_tagged_v6 c hc
  unfold readIp fmtV6
  rw [e, Option.bind_some]
  simp only [h, all_ordered c (fun b hb => (hc.1 b hb).1), if_true, AsDer.fromIter_canon_id _ c hc]

theorem readIp_fmt_v4 (c : List Blk) (hc : Canon (2 ^ 128 - 1) c)
    (h4 : ∀ b ∈ c, b.lo % 2 ^ 96 = 0 ∧ b.hi % 2 ^ 96 = 2 ^ 96 - 1) : readIp true (fmtV4 c) = some c := by
  obtain ⟨ts, e, h⟩ := ResText.parseIpItems_tagged_v4 c hc h4
  unfold readIp fmtV4
  rw [e, Option.bind_some]
  simp only [h, all_ordered c (fun b hb => (hc.1 b hb).1), if_true, AsDer.fromIter_canon_id _ c hc]

theorem fmtAs_valueOk (c : List Blk) : ValueOk (ResText.fmtAs c) := ResText.fmtAs_value c
theorem fmtV4_valueOk (c : List Blk) : ValueOk (fmtV4 c) := ResText.fmtIp_value true _
theorem fmtV6_valueOk (c : List Blk) : ValueOk (fmtV6 c) := ResText.fmtIp_value false _

/-! ### (2) well-formed messages -/

structure ResSet.WF (r : ResSet) : Prop where
  asn : Canon 4294967295 r.asn
  v4 : V4Canon r.v4
  v6 : Canon (2 ^ 128 - 1) r.v6

/-- every set a limit names is canonical (an absent set needs nothing) -/
structure Limit.WF (l : Limit) : Prop where
  asn : ∀ c, l.asn = some c → Canon 4294967295 c
  v4 : ∀ c, l.v4 = some c → V4Canon c
  v6 : ∀ c, l.v6 = some c → Canon (2 ^ 128 - 1) c

structure Issued.WF (i : Issued) : Prop where
  limit : i.limit.WF
  cert : BytesOk i.cert

structure Class.WF (c : Class) : Prop where
  res : c.res.WF
  time : TimeOk c.notAfter
  issued : ∀ i ∈ c.issued, i.WF
  issuer : BytesOk c.issuer

/-- names and URLs need no bound (escaping works on any numbers); certificates, requests and key
identifiers are octets (any length, also empty); resource sets are canonical; the time has fields
of four and two digits; the error status is any number; a description is an admissible text line
(not empty, no `<`, no white space at either end: it is written as it is); an issuance response
carries exactly one certificate -/
def Payload.WF : Payload → Prop
  | .list => True
  | .listResponse cs => ∀ c ∈ cs, c.WF
  | .issue _ l csr => l.WF ∧ BytesOk csr
  | .issueResponse c => c.WF ∧ c.issued.length = 1
  | .revoke _ k => BytesOk k
  | .revokeResponse _ k => BytesOk k
  | .error _ d => ∀ t, d = some t → TextOk t

def Msg.WF (m : Msg) : Prop := m.payload.WF

/-! ### the tree with the certificate bodies as a parameter

`toTree` puts a Base64 text line into every `certificate`, `issuer` and `request` element; the
reference reader drops that line when it is empty.  Both trees are instances of `toTreeW`. -/

def issuedNodeW (bt : Bytes → Option Nodes) (i : Issued) : Node :=
  .elem (s "certificate") ([(s "cert_url", escapeAttr i.url)] ++ limitAttrs i.limit) (bt i.cert)

def classAttrs (c : Class) : List (Bytes × Bytes) :=
  [(s "class_name", escapeAttr c.name), (s "cert_url", escapeAttr c.url),
   (s "resource_set_as", ResText.fmtAs c.res.asn), (s "resource_set_ipv4", fmtV4 c.res.v4),
   (s "resource_set_ipv6", fmtV6 c.res.v6), (s "resource_set_notafter", rfc3339 c.notAfter)]

def issuerNodeW (bt : Bytes → Option Nodes) (d : Bytes) : Node := .elem (s "issuer") [] (bt d)

def classKidsW (bt : Bytes → Option Nodes) (c : Class) : List Node :=
  c.issued.map (issuedNodeW bt) ++ [issuerNodeW bt c.issuer]

def classNodeW (bt : Bytes → Option Nodes) (c : Class) : Node :=
  .elem (s "class") (classAttrs c) (some (Nodes.ofList (classKidsW bt c)))

def statusNode (st : Nat) : Node := .elem (s "status") [] (some (.cons (.text (ResText.decimal st)) .nil))
def descNode (t : Bytes) : Node := .elem (s "description") [] (some (.cons (.text t) .nil))

def bodyW (bt : Bytes → Option Nodes) : Payload → List Node
  | .list => []
  | .listResponse cs => cs.map (classNodeW bt)
  | .issue name l csr => [.elem (s "request") ([(s "class_name", escapeAttr name)] ++ limitAttrs l) (bt csr)]
  | .issueResponse c => [classNodeW bt c]
  | .revoke n k => [keyNode n k]
  | .revokeResponse n k => [keyNode n k]
  | .error st d => [statusNode st] ++ (match d with | some t => [descNode t] | none => [])

def rootAttrs (m : Msg) : List (Bytes × Bytes) :=
  [(s "xmlns", ns), (s "version", version), (s "sender", escapeAttr m.sender),
   (s "recipient", escapeAttr m.recipient), (s "type", typeName m.payload)]

def toTreeW (bt : Bytes → Option Nodes) (m : Msg) : Node :=
  .elem (s "message") (rootAttrs m) (some (Nodes.ofList (bodyW bt m.payload)))

theorem classNode_eq (c : Class) : classNode c = classNodeW b64Text c := rfl

theorem toTree_eq (m : Msg) : toTree m = toTreeW b64Text m := by
  obtain ⟨sn, rc, p⟩ := m
  cases p <;> rfl

/-- the body the reference reader returns for a Base64 text line: nothing for empty octets -/
def bodyS (d : Bytes) : Option Nodes := if d = [] then some .nil else b64Text d

/-! ### (3) the written tree is well-formed -/

def AttrOk (a : Bytes × Bytes) : Prop := NameOk a.1 ∧ ValueOk a.2

theorem ok_nil : ∀ a ∈ ([] : List (Bytes × Bytes)), AttrOk a := by intro a ha; cases ha

theorem ok_cons {n v : Bytes} {rest : List (Bytes × Bytes)} (hn : NameOk n) (hv : ValueOk v)
    (h : ∀ a ∈ rest, AttrOk a) : ∀ a ∈ (n, v) :: rest, AttrOk a := by
  intro a ha
  rcases List.mem_cons.mp ha with rfl | h'
  · exact ⟨hn, hv⟩
  · exact h a h'

theorem ok_append {l1 l2 : List (Bytes × Bytes)} (h1 : ∀ a ∈ l1, AttrOk a) (h2 : ∀ a ∈ l2, AttrOk a) :
    ∀ a ∈ l1 ++ l2, AttrOk a := by
  intro a ha
  rcases List.mem_append.mp ha with h | h
  · exact h1 a h
  · exact h2 a h

theorem nameOk_message : NameOk (s "message") := by plits; unfold NameOk; decide
theorem nameOk_xmlns : NameOk (s "xmlns") := by plits; unfold NameOk; decide
theorem nameOk_version : NameOk (s "version") := by plits; unfold NameOk; decide
theorem nameOk_sender : NameOk (s "sender") := by plits; unfold NameOk; decide
theorem nameOk_recipient : NameOk (s "recipient") := by plits; unfold NameOk; decide
theorem nameOk_type : NameOk (s "type") := by plits; unfold NameOk; decide
theorem nameOk_class : NameOk (s "class") := by plits; unfold NameOk; decide
theorem nameOk_class_name : NameOk (s "class_name") := by plits; unfold NameOk; decide
theorem nameOk_cert_url : NameOk (s "cert_url") := by plits; unfold NameOk; decide
theorem nameOk_resource_set_as : NameOk (s "resource_set_as") := by plits; unfold NameOk; decide
theorem nameOk_resource_set_ipv4 : NameOk (s "resource_set_ipv4") := by plits; unfold NameOk; decide
theorem nameOk_resource_set_ipv6 : NameOk (s "resource_set_ipv6") := by plits; unfold NameOk; decide
theorem nameOk_resource_set_notafter : NameOk (s "resource_set_notafter") := by plits; unfold NameOk; decide
theorem nameOk_req_as : NameOk (s "req_resource_set_as") := by plits; unfold NameOk; decide
theorem nameOk_req_ipv4 : NameOk (s "req_resource_set_ipv4") := by plits; unfold NameOk; decide
theorem nameOk_req_ipv6 : NameOk (s "req_resource_set_ipv6") := by plits; unfold NameOk; decide
theorem nameOk_certificate : NameOk (s "certificate") := by plits; unfold NameOk; decide
theorem nameOk_issuer : NameOk (s "issuer") := by plits; unfold NameOk; decide
theorem nameOk_key : NameOk (s "key") := by plits; unfold NameOk; decide
theorem nameOk_ski : NameOk (s "ski") := by plits; unfold NameOk; decide
theorem nameOk_request : NameOk (s "request") := by plits; unfold NameOk; decide
theorem nameOk_status : NameOk (s "status") := by plits; unfold NameOk; decide
theorem nameOk_description : NameOk (s "description") := by plits; unfold NameOk; decide

theorem typeName_valueOk (p : Payload) : ValueOk (typeName p) := by
  cases p <;> (unfold typeName; plits; unfold ValueOk; decide)

theorem rootAttrs_ok (m : Msg) : ∀ a ∈ rootAttrs m, AttrOk a := by
  unfold rootAttrs
  refine ok_cons nameOk_xmlns ?_ (ok_cons nameOk_version ?_ (ok_cons nameOk_sender (escapeAttr_safe _)
    (ok_cons nameOk_recipient (escapeAttr_safe _) (ok_cons nameOk_type (typeName_valueOk _) ok_nil))))
  · plits; unfold ValueOk; decide
  · plits; unfold ValueOk; decide

theorem limitAttrs_ok (l : Limit) : ∀ a ∈ limitAttrs l, AttrOk a := by
  obtain ⟨a, b, c⟩ := l
  unfold limitAttrs
  refine ok_append (ok_append ?_ ?_) ?_
  · cases a with
    | none => exact ok_nil
    | some x => exact ok_cons nameOk_req_as (fmtAs_valueOk x) ok_nil
  · cases b with
    | none => exact ok_nil
    | some x => exact ok_cons nameOk_req_ipv4 (fmtV4_valueOk x) ok_nil
  · cases c with
    | none => exact ok_nil
    | some x => exact ok_cons nameOk_req_ipv6 (fmtV6_valueOk x) ok_nil

theorem classAttrs_ok (c : Class) : ∀ a ∈ classAttrs c, AttrOk a := by
  unfold classAttrs
  exact ok_cons nameOk_class_name (escapeAttr_safe _) (ok_cons nameOk_cert_url (escapeAttr_safe _)
    (ok_cons nameOk_resource_set_as (fmtAs_valueOk _) (ok_cons nameOk_resource_set_ipv4 (fmtV4_valueOk _)
    (ok_cons nameOk_resource_set_ipv6 (fmtV6_valueOk _) (ok_cons nameOk_resource_set_notafter (rfc3339_valueOk _)
    ok_nil)))))

/-- a Base64 text line, empty for empty octets -/
theorem b64Text_WF0 (d : Bytes) : match b64Text d with | none => True | some kids => kids.WF0 := by
  unfold b64Text
  simp only
  rw [Nodes.WF0_cons, Node.WF0_text]
  refine ⟨?_, by rw [Nodes.WF0]; trivial, fun h => h⟩
  by_cases hc : d = []
  · left; rw [hc, PubMsg.b64Encode_nil]
  · right; exact PubMsg.b64Encode_textOk d hc

theorem text_kids_WF0 (t : Bytes) (ht : TextOk t) : (Nodes.cons (.text t) .nil).WF0 := by
  rw [Nodes.WF0_cons, Node.WF0_text]
  exact ⟨Or.inr ht, by rw [Nodes.WF0]; trivial, fun h => h⟩

theorem issuedNode_WF0 (i : Issued) : (issuedNodeW b64Text i).WF0 := by
  unfold issuedNodeW
  rw [Node.WF0_elem]
  exact ⟨nameOk_certificate, ok_append (ok_cons nameOk_cert_url (escapeAttr_safe _) ok_nil) (limitAttrs_ok _),
    b64Text_WF0 _⟩

theorem issuerNode_WF0 (d : Bytes) : (issuerNodeW b64Text d).WF0 := by
  unfold issuerNodeW
  rw [Node.WF0_elem]
  exact ⟨nameOk_issuer, ok_nil, b64Text_WF0 _⟩

theorem classKids_elems (bt : Bytes → Option Nodes) (c : Class) :
    ∀ n ∈ classKidsW bt c, ∃ name attrs body, n = Node.elem name attrs body := by
  intro n hn
  unfold classKidsW at hn
  rcases List.mem_append.1 hn with h | h
  · obtain ⟨i, _, rfl⟩ := List.mem_map.1 h; exact ⟨_, _, _, rfl⟩
  · simp only [List.mem_cons, List.not_mem_nil, or_false] at h; exact ⟨_, _, _, h⟩

theorem classNode_WF0 (c : Class) : (classNodeW b64Text c).WF0 := by
  unfold classNodeW
  rw [Node.WF0_elem]
  refine ⟨nameOk_class, classAttrs_ok c, ?_⟩
  simp only
  apply ofList_WF0
  intro n hn
  refine ⟨?_, classKids_elems _ c n hn⟩
  unfold classKidsW at hn
  rcases List.mem_append.1 hn with h | h
  · obtain ⟨i, _, rfl⟩ := List.mem_map.1 h; exact issuedNode_WF0 i
  · simp only [List.mem_cons, List.not_mem_nil, or_false] at h; subst h; exact issuerNode_WF0 _

theorem keyNode_WF0 (n k : Bytes) : (keyNode n k).WF0 := by
  unfold keyNode
  rw [Node.WF0_elem]
  exact ⟨nameOk_key, ok_cons nameOk_class_name (escapeAttr_safe _) (ok_cons nameOk_ski (b64Url_valueOk _) ok_nil),
    trivial⟩

theorem decimal_textOk (n : Nat) : TextOk (ResText.decimal n) := by
  have hd := ResText.decimal_digits n
  have nows : ∀ c ∈ ResText.decimal n, isWs c = false := by
    intro c hc
    have := hd.2 c hc
    unfold isWs
    simp only [Bool.or_eq_false_iff, decide_eq_false_iff_not]
    omega
  refine ⟨hd.1, fun h => by have := hd.2 60 h; omega, ?_, ?_⟩
  · intro c hc; exact nows c (List.mem_of_head? hc)
  · intro c hc; exact nows c (List.mem_of_getLast? hc)

theorem statusNode_WF0 (st : Nat) : (statusNode st).WF0 := by
  unfold statusNode
  rw [Node.WF0_elem]
  exact ⟨nameOk_status, ok_nil, text_kids_WF0 _ (decimal_textOk st)⟩

theorem descNode_WF0 (t : Bytes) (ht : TextOk t) : (descNode t).WF0 := by
  unfold descNode
  rw [Node.WF0_elem]
  exact ⟨nameOk_description, ok_nil, text_kids_WF0 _ ht⟩

theorem body_elems (bt : Bytes → Option Nodes) (p : Payload) :
    ∀ n ∈ bodyW bt p, ∃ name attrs body, n = Node.elem name attrs body := by
  intro n hn
  cases p with
  | list => cases hn
  | listResponse cs => obtain ⟨c, _, rfl⟩ := List.mem_map.1 hn; exact ⟨_, _, _, rfl⟩
  | issue name l csr =>
    simp only [bodyW, List.mem_cons, List.not_mem_nil, or_false] at hn; exact ⟨_, _, _, hn⟩
  | issueResponse c =>
    simp only [bodyW, List.mem_cons, List.not_mem_nil, or_false] at hn; exact ⟨_, _, _, hn⟩
  | revoke k sk =>
    simp only [bodyW, List.mem_cons, List.not_mem_nil, or_false] at hn; exact ⟨_, _, _, hn⟩
  | revokeResponse k sk =>
    simp only [bodyW, List.mem_cons, List.not_mem_nil, or_false] at hn; exact ⟨_, _, _, hn⟩
  | error st d =>
    cases d with
    | none =>
      simp only [bodyW, List.append_nil, List.mem_cons, List.not_mem_nil, or_false] at hn; exact ⟨_, _, _, hn⟩
    | some t =>
      simp only [bodyW, List.cons_append, List.nil_append, List.mem_cons, List.not_mem_nil, or_false] at hn
      rcases hn with rfl | rfl <;> exact ⟨_, _, _, rfl⟩

theorem body_WF0 (p : Payload) (hw : p.WF) : ∀ n ∈ bodyW b64Text p, n.WF0 := by
  intro n hn
  cases p with
  | list => cases hn
  | listResponse cs => obtain ⟨c, _, rfl⟩ := List.mem_map.1 hn; exact classNode_WF0 c
  | issue name l csr =>
    simp only [bodyW, List.mem_cons, List.not_mem_nil, or_false] at hn
    subst hn
    rw [Node.WF0_elem]
    exact ⟨nameOk_request, ok_append (ok_cons nameOk_class_name (escapeAttr_safe _) ok_nil) (limitAttrs_ok _),
      b64Text_WF0 _⟩
  | issueResponse c =>
    simp only [bodyW, List.mem_cons, List.not_mem_nil, or_false] at hn; subst hn; exact classNode_WF0 c
  | revoke k sk =>
    simp only [bodyW, List.mem_cons, List.not_mem_nil, or_false] at hn; subst hn; exact keyNode_WF0 _ _
  | revokeResponse k sk =>
    simp only [bodyW, List.mem_cons, List.not_mem_nil, or_false] at hn; subst hn; exact keyNode_WF0 _ _
  | error st d =>
    cases d with
    | none =>
      simp only [bodyW, List.append_nil, List.mem_cons, List.not_mem_nil, or_false] at hn
      subst hn; exact statusNode_WF0 st
    | some t =>
      simp only [bodyW, List.cons_append, List.nil_append, List.mem_cons, List.not_mem_nil, or_false] at hn
      rcases hn with rfl | rfl
      · exact statusNode_WF0 st
      · exact descNode_WF0 t (hw t rfl)

/-- (3) the tree `write` writes is well-formed up to the empty text lines of empty certificates -/
theorem toTree_WF0 (m : Msg) (hw : m.WF) : (toTree m).WF0 := by
  rw [toTree_eq]
  unfold toTreeW
  rw [Node.WF0_elem]
  exact ⟨nameOk_message, rootAttrs_ok m,
    ofList_WF0 _ fun n hn => ⟨body_WF0 m.payload hw n hn, body_elems _ m.payload n hn⟩⟩

/-! ### (4) reading the tree back -/

/-- what a body function must provide: the octets are read back -/
def ReadsBack (bt : Bytes → Option Nodes) : Prop := ∀ d, BytesOk d → readB64 (bt d) = some d

theorem readsBack_b64Text : ReadsBack b64Text := by
  intro d hd
  unfold b64Text
  rw [readB64]
  exact xmlB64Decode_of_skipWs _ d hd (b64Encode_no_ws d hd)

theorem readsBack_bodyS : ReadsBack bodyS := by
  intro d hd
  unfold bodyS
  by_cases h : d = []
  · rw [if_pos h, h, readB64]
  · rw [if_neg h]; exact readsBack_b64Text d hd

theorem lookup_cons (name n v : Bytes) (rest : List (Bytes × Bytes)) :
    lookup name ((n, v) :: rest) = if n = name then some v else lookup name rest := rfl

theorem lookup_skip (name : Bytes) (pre rest : List (Bytes × Bytes)) (h : ∀ a ∈ pre, a.1 ≠ name) :
    lookup name (pre ++ rest) = lookup name rest := by
  induction pre with
  | nil => rfl
  | cons a pre ih =>
    obtain ⟨n, v⟩ := a
    rw [List.cons_append, lookup_cons, if_neg (h (n, v) (by simp)), ih (fun x hx => h x (by simp [hx]))]

theorem readLimit_skip (pre rest : List (Bytes × Bytes))
    (h : ∀ a ∈ pre, a.1 ≠ s "req_resource_set_as" ∧ a.1 ≠ s "req_resource_set_ipv4" ∧ a.1 ≠ s "req_resource_set_ipv6") :
    readLimit (pre ++ rest) = readLimit rest := by
  unfold readLimit optRead
  rw [lookup_skip _ pre rest (fun a ha => (h a ha).1), lookup_skip _ pre rest (fun a ha => (h a ha).2.1),
    lookup_skip _ pre rest (fun a ha => (h a ha).2.2)]

theorem readLimit_limitAttrs (l : Limit) (hl : l.WF) : readLimit (limitAttrs l) = some l := by
  obtain ⟨a, b, c⟩ := l
  have ha : ∀ x, a = some x → readAs (ResText.fmtAs x) = some x := fun x hx => readAs_fmt x (hl.asn x hx)
  have hb : ∀ x, b = some x → readIp true (fmtV4 x) = some x := fun x hx =>
    readIp_fmt_v4 x (hl.v4 x hx).1 (hl.v4 x hx).2
  have hc : ∀ x, c = some x → readIp false (fmtV6 x) = some x := fun x hx => readIp_fmt_v6 x (hl.v6 x hx)
  cases a <;> cases b <;> cases c <;>
  · simp only [limitAttrs, readLimit, optRead]
    plits
    simp [lookup, ha, hb, hc]

theorem attrText_head (name : String) (v : Bytes) (rest : List (Bytes × Bytes)) :
    attrText name ((s name, escapeAttr v) :: rest) = some v := by
  unfold attrText
  rw [lookup_cons, if_pos rfl, Option.bind_some, unescape_escapeAttr]

theorem class_name_not_limit : ∀ a ∈ [(s "class_name", ([] : Bytes))],
    a.1 ≠ s "req_resource_set_as" ∧ a.1 ≠ s "req_resource_set_ipv4" ∧ a.1 ≠ s "req_resource_set_ipv6" := by
  plits; decide

theorem cert_url_not_limit : ∀ a ∈ [(s "cert_url", ([] : Bytes))],
    a.1 ≠ s "req_resource_set_as" ∧ a.1 ≠ s "req_resource_set_ipv4" ∧ a.1 ≠ s "req_resource_set_ipv6" := by
  plits; decide

theorem readIssued_node (bt : Bytes → Option Nodes) (hbt : ReadsBack bt) (i : Issued) (hi : i.WF) :
    readIssued (issuedNodeW bt i) = some i := by
  unfold issuedNodeW
  rw [readIssued, if_neg (by simp), List.singleton_append, attrText_head, ← List.singleton_append,
    readLimit_skip _ _ (fun a ha => by
      simp only [List.mem_cons, List.not_mem_nil, or_false] at ha
      subst ha
      exact cert_url_not_limit (s "cert_url", []) (by simp)),
    readLimit_limitAttrs _ hi.limit, hbt _ hi.cert]

theorem issued_ne_issuer_shape (bt : Bytes → Option Nodes) (i : Issued) (name : Bytes) (body : Option Nodes) :
    issuedNodeW bt i ≠ .elem name [] body := by
  unfold issuedNodeW
  intro h
  injection h with _ h2 _
  simp at h2

theorem readClassKids_cons (k k' : Node) (rest : List Node) :
    readClassKids (k :: k' :: rest) =
      match readIssued k, readClassKids (k' :: rest) with
      | some i, some (is, c) => some (i :: is, c)
      | _, _ => none := by
  rw [readClassKids]
  · rfl
  · intro name body _ h
    cases h

theorem readClassKids_kids (bt : Bytes → Option Nodes) (hbt : ReadsBack bt) (d : Bytes) (hd : BytesOk d) :
    ∀ (is : List Issued), (∀ i ∈ is, i.WF) →
      readClassKids (is.map (issuedNodeW bt) ++ [issuerNodeW bt d]) = some (is, d) := by
  intro is
  induction is with
  | nil =>
    intro _
    unfold issuerNodeW
    simp only [List.map_nil, List.nil_append]
    rw [readClassKids, if_pos rfl, hbt d hd]
    rfl
  | cons i is ih =>
    intro h
    have hi := readIssued_node bt hbt i (h i (by simp))
    have hr := ih (fun x hx => h x (by simp [hx]))
    cases is with
    | nil =>
      simp only [List.map_cons, List.map_nil, List.cons_append, List.nil_append] at hr ⊢
      rw [readClassKids_cons, hi, hr]
    | cons j js =>
      simp only [List.map_cons, List.cons_append] at hr ⊢
      rw [readClassKids_cons, hi, hr]

theorem readClass_node (bt : Bytes → Option Nodes) (hbt : ReadsBack bt) (c : Class) (hc : c.WF) :
    readClass (classNodeW bt c) = some c := by
  have hk := readClassKids_kids bt hbt c.issuer hc.issuer c.issued hc.issued
  unfold classNodeW classKidsW classAttrs
  rw [readClass, if_neg (by simp), toList_ofList, hk, attrText_head]
  unfold attrText
  plits
  simp [lookup, unescape_escapeAttr, readAs_fmt _ hc.res.asn, readIp_fmt_v4 _ hc.res.v4.1 hc.res.v4.2,
    readIp_fmt_v6 _ hc.res.v6, readTime_rfc3339 _ hc.time]

theorem readKey_node (n k : Bytes) (hk : BytesOk k) : readKey (keyNode n k) = some (n, k) := by
  unfold keyNode
  rw [readKey, if_neg (by simp), attrText_head]
  plits
  simp [lookup, unB64Url_b64Url k hk]

theorem readDecimal_decimal (n : Nat) : readDecimal (ResText.decimal n) = some n := by
  unfold readDecimal
  have h1 : ¬ (ResText.decimal n = [] ∨ (!(ResText.decimal n).all ResText.isDigit) = true) := by
    rw [ResText.decimal_all_isDigit]
    simp only [Bool.not_true, Bool.false_eq_true, or_false]
    exact (ResText.decimal_digits n).1
  rw [if_neg h1, ResText.decimal_value]

/-! ### the payload by its type name -/

theorem readPayload_list (ks : List Node) :
    readPayload (s "list") ks = if ks = [] then some .list else none := by
  unfold readPayload
  rw [if_pos rfl]

theorem readPayload_listResponse (ks : List Node) :
    readPayload (s "list_response") ks = (ks.mapM readClass).map .listResponse := by
  unfold readPayload
  rw [if_neg (by plits; decide), if_pos rfl]

theorem readPayload_issue (ks : List Node) :
    readPayload (s "issue") ks =
      (match ks with
       | [.elem name attrs body] =>
         if name ≠ s "request" then none else
         (match attrText "class_name" attrs, readLimit attrs, readB64 body with
          | some n, some l, some c => some (.issue n l c)
          | _, _, _ => none)
       | _ => none) := by
  unfold readPayload
  rw [if_neg (by plits; decide), if_neg (by plits; decide), if_pos rfl]
  rfl

theorem readPayload_issueResponse (ks : List Node) :
    readPayload (s "issue_response") ks =
      (match ks with
       | [k] => (readClass k).bind fun c => if c.issued.length = 1 then some (.issueResponse c) else none
       | _ => none) := by
  unfold readPayload
  rw [if_neg (by plits; decide), if_neg (by plits; decide), if_neg (by plits; decide), if_pos rfl]
  rfl

theorem readPayload_revoke (ks : List Node) :
    readPayload (s "revoke") ks =
      (match ks with | [k] => (readKey k).map fun (n, sk) => .revoke n sk | _ => none) := by
  unfold readPayload
  rw [if_neg (by plits; decide), if_neg (by plits; decide), if_neg (by plits; decide),
    if_neg (by plits; decide), if_pos rfl]
  rfl

theorem readPayload_revokeResponse (ks : List Node) :
    readPayload (s "revoke_response") ks =
      (match ks with | [k] => (readKey k).map fun (n, sk) => .revokeResponse n sk | _ => none) := by
  unfold readPayload
  rw [if_neg (by plits; decide), if_neg (by plits; decide), if_neg (by plits; decide),
    if_neg (by plits; decide), if_neg (by plits; decide), if_pos rfl]
  rfl

theorem readPayload_error (ks : List Node) :
    readPayload (s "error_response") ks =
      (match ks with
       | [.elem n1 [] (some (.cons (.text st) .nil))] =>
         if n1 = s "status" then (readDecimal st).map fun v => .error v none else none
       | [.elem n1 [] (some (.cons (.text st) .nil)), .elem n2 [] (some (.cons (.text d) .nil))] =>
         if n1 = s "status" ∧ n2 = s "description" then (readDecimal st).map fun v => .error v (some d) else none
       | _ => none) := by
  unfold readPayload
  rw [if_neg (by plits; decide), if_neg (by plits; decide), if_neg (by plits; decide),
    if_neg (by plits; decide), if_neg (by plits; decide), if_neg (by plits; decide), if_pos rfl]
  rfl

theorem mapM_map_some {α β : Type} (f : β → Option α) (g : α → β) (l : List α)
    (h : ∀ x ∈ l, f (g x) = some x) : (l.map g).mapM f = some l :=
  ResText.mapM_map_some f g l h

theorem readPayload_body (bt : Bytes → Option Nodes) (hbt : ReadsBack bt) (p : Payload) (hp : p.WF) :
    readPayload (typeName p) (bodyW bt p) = some p := by
  cases p with
  | list =>
    unfold typeName bodyW
    rw [readPayload_list, if_pos rfl]
  | listResponse cs =>
    unfold typeName bodyW
    rw [readPayload_listResponse,
      mapM_map_some readClass (classNodeW bt) cs (fun c hc => readClass_node bt hbt c (hp c hc))]
    rfl
  | issue name l csr =>
    unfold typeName bodyW
    rw [readPayload_issue]
    simp only
    rw [if_neg (by simp), List.singleton_append, attrText_head, ← List.singleton_append,
      readLimit_skip _ _ (fun a ha => by
        simp only [List.mem_cons, List.not_mem_nil, or_false] at ha
        subst ha
        exact class_name_not_limit (s "class_name", []) (by simp)),
      readLimit_limitAttrs _ hp.1, hbt _ hp.2]
  | issueResponse c =>
    unfold typeName bodyW
    rw [readPayload_issueResponse]
    simp only
    rw [readClass_node bt hbt c hp.1, Option.bind_some, if_pos hp.2]
  | revoke n k =>
    unfold typeName bodyW
    rw [readPayload_revoke]
    simp only
    rw [readKey_node n k hp]
    rfl
  | revokeResponse n k =>
    unfold typeName bodyW
    rw [readPayload_revokeResponse]
    simp only
    rw [readKey_node n k hp]
    rfl
  | error st d =>
    unfold typeName bodyW statusNode
    rw [readPayload_error]
    cases d with
    | none =>
      simp only [List.append_nil, if_true]
      rw [readDecimal_decimal]
      rfl
    | some t =>
      unfold descNode
      simp only [List.cons_append, List.nil_append, and_self, if_true]
      rw [readDecimal_decimal]
      rfl

/-- `ofTree` on the root `toTreeW` builds -/
theorem ofTree_W (bt : Bytes → Option Nodes) (hbt : ReadsBack bt) (m : Msg) (hw : m.WF) :
    ofTree (toTreeW bt m) = some m := by
  have hp := readPayload_body bt hbt m.payload hw
  have e1 : lookup (s "xmlns") (rootAttrs m) = some ns := by
    unfold rootAttrs; rw [lookup_cons, if_pos rfl]
  have e2 : lookup (s "version") (rootAttrs m) = some version := by
    unfold rootAttrs; rw [lookup_cons, if_neg (by plits; decide), lookup_cons, if_pos rfl]
  have e3 : attrText "sender" (rootAttrs m) = some m.sender := by
    unfold rootAttrs attrText
    rw [lookup_cons, if_neg (by plits; decide), lookup_cons, if_neg (by plits; decide), lookup_cons, if_pos rfl,
      Option.bind_some, unescape_escapeAttr]
  have e4 : attrText "recipient" (rootAttrs m) = some m.recipient := by
    unfold rootAttrs attrText
    rw [lookup_cons, if_neg (by plits; decide), lookup_cons, if_neg (by plits; decide), lookup_cons,
      if_neg (by plits; decide), lookup_cons, if_pos rfl, Option.bind_some, unescape_escapeAttr]
  have e5 : lookup (s "type") (rootAttrs m) = some (typeName m.payload) := by
    unfold rootAttrs
    rw [lookup_cons, if_neg (by plits; decide), lookup_cons, if_neg (by plits; decide), lookup_cons,
      if_neg (by plits; decide), lookup_cons, if_neg (by plits; decide), lookup_cons, if_pos rfl]
  unfold toTreeW
  rw [ofTree, e1, e2, if_neg (by simp), e3, e4, e5]
  simp only
  rw [toList_ofList, hp]
  rfl

theorem ofTree_toTree_raw (m : Msg) (hw : m.WF) : ofTree (toTree m) = some m := by
  rw [toTree_eq]
  exact ofTree_W b64Text readsBack_b64Text m hw

/-! ### the tree the reference reader returns -/

theorem strip_b64Text (n : Bytes) (a : List (Bytes × Bytes)) (d : Bytes) :
    strip (.elem n a (b64Text d)) = .elem n a (bodyS d) := by
  unfold b64Text bodyS
  rw [strip_elem_some]
  by_cases hd : d = []
  · rw [if_pos hd, hd, PubMsg.b64Encode_nil, stripKids_text_nil, stripKids_nil]
  · rw [if_neg hd, stripKids_text _ _ (PubMsg.b64Encode_ne_nil _ hd), stripKids_nil]
    rfl

theorem strip_text_elem (n : Bytes) (a : List (Bytes × Bytes)) (t : Bytes) (ht : t ≠ []) :
    strip (.elem n a (some (.cons (.text t) .nil))) = .elem n a (some (.cons (.text t) .nil)) := by
  rw [strip_elem_some, stripKids_text _ _ ht, stripKids_nil]

theorem strip_issuedNode (i : Issued) : strip (issuedNodeW b64Text i) = issuedNodeW bodyS i :=
  strip_b64Text _ _ _

theorem strip_classNode (c : Class) : strip (classNodeW b64Text c) = classNodeW bodyS c := by
  unfold classNodeW
  rw [strip_elem_some, stripKids_ofList _ (classKids_elems _ c)]
  unfold classKidsW issuerNodeW
  rw [List.map_append, List.map_map, List.map_cons, List.map_nil, strip_b64Text]
  congr 4
  apply List.map_congr_left
  intro i _
  exact strip_issuedNode i

theorem strip_body (p : Payload) (hp : p.WF) : (bodyW b64Text p).map strip = bodyW bodyS p := by
  cases p with
  | list => rfl
  | listResponse cs =>
    unfold bodyW
    rw [List.map_map]
    apply List.map_congr_left
    intro c _
    exact strip_classNode c
  | issue name l csr =>
    unfold bodyW
    rw [List.map_cons, List.map_nil, strip_b64Text]
  | issueResponse c =>
    unfold bodyW
    rw [List.map_cons, List.map_nil, strip_classNode]
  | revoke n k =>
    unfold bodyW keyNode
    rw [List.map_cons, List.map_nil, strip_elem_none]
  | revokeResponse n k =>
    unfold bodyW keyNode
    rw [List.map_cons, List.map_nil, strip_elem_none]
  | error st d =>
    have h1 : strip (statusNode st) = statusNode st :=
      strip_text_elem _ _ _ (ResText.decimal_digits st).1
    cases d with
    | none =>
      unfold bodyW
      simp only [List.append_nil, List.map_cons, List.map_nil, h1]
    | some t =>
      have h2 : strip (descNode t) = descNode t := strip_text_elem _ _ _ (hp t rfl).1
      unfold bodyW
      simp only [List.cons_append, List.nil_append, List.map_cons, List.map_nil, h1, h2]

theorem strip_toTree (m : Msg) (hw : m.WF) : strip (toTree m) = toTreeW bodyS m := by
  rw [toTree_eq]
  unfold toTreeW
  rw [strip_elem_some, stripKids_ofList _ (body_elems _ m.payload), strip_body m.payload hw]

/-- (4) the tree reader inverts `toTree`, on the tree the reference reader returns for the written
document (empty text lines dropped) -/
theorem ofTree_toTree (m : Msg) (hw : m.WF) : ofTree (strip (toTree m)) = some m := by
  rw [strip_toTree m hw]
  exact ofTree_W bodyS readsBack_bodyS m hw

/-! ### (5) documents -/

theorem toTree_isElem (m : Msg) : ∃ name attrs body, toTree m = Node.elem name attrs body :=
  ⟨_, _, _, rfl⟩

/-- the reference reader returns the written tree, minus the empty text lines of empty certificates -/
theorem parse_write_msg (m : Msg) (hw : m.WF) : parseDoc (write m) = some (strip (toTree m)) :=
  parse_write0 _ (toTree_WF0 m hw) (toTree_isElem m)

/-- (5) reading a written message gives the message back -/
theorem read_write (m : Msg) (hw : m.WF) : read (write m) = some m := by
  unfold read
  rw [parse_write_msg m hw, Option.bind_some]
  exact ofTree_toTree m hw

/-- the writer is injective on well-formed messages -/
theorem write_injective (a b : Msg) (ha : a.WF) (hb : b.WF) (h : write a = write b) : a = b := by
  have h1 := read_write a ha
  rw [h, read_write b hb] at h1
  exact (Option.some.inj h1).symm

/-! ### instances: the hypotheses are satisfiable -/

/-- AS1-AS5 and AS10; 10.0.0.0/8 and 192.0.2.1-192.0.2.2; 2001:db8::/32, ::ffff:1.2.3.4 and a range -/
def sampleRes : ResSet where
  asn := [⟨1, 5⟩, ⟨10, 10⟩]
  v4 := [⟨10 * 2 ^ 120, 11 * 2 ^ 120 - 1⟩, ⟨(192 * 2 ^ 24 + 2 * 2 ^ 8 + 1) * 2 ^ 96, (192 * 2 ^ 24 + 2 * 2 ^ 8 + 3) * 2 ^ 96 - 1⟩]
  v6 := [⟨0xffff01020304, 0xffff01020304⟩, ⟨0x20010db8 * 2 ^ 96, 0x20010db9 * 2 ^ 96 - 1⟩,
    ⟨0x20010db9 * 2 ^ 96 + 5, 0x20010db9 * 2 ^ 96 + 77⟩]

theorem sampleRes_WF : sampleRes.WF := by
  refine ⟨?_, ⟨?_, ?_⟩, ?_⟩ <;> (unfold sampleRes; try unfold Canon) <;> simp

def sampleClass : Class where
  name := [60, 34, 38]
  url := [114, 115, 121, 110, 99]
  res := sampleRes
  notAfter := ⟨2026, 9, 24, 23, 59, 7⟩
  issued := [⟨[117], ⟨some [⟨7, 7⟩], none, some []⟩, [1, 2, 255]⟩]
  issuer := []

theorem sampleClass_WF : sampleClass.WF := by
  refine ⟨sampleRes_WF, by unfold TimeOk sampleClass; simp, ?_, by intro x hx; cases hx⟩
  intro i hi
  simp only [sampleClass, List.mem_cons, List.not_mem_nil, or_false] at hi
  subst hi
  refine ⟨⟨?_, ?_, ?_⟩, by unfold BytesOk; decide⟩
  · intro c hc; simp only [Option.some.injEq] at hc; subst hc; unfold Canon; simp
  · intro c hc; cases hc
  · intro c hc; simp only [Option.some.injEq] at hc; subst hc; exact canon_nil _

example : read (write ⟨[97], [98], .issueResponse sampleClass⟩) = some ⟨[97], [98], .issueResponse sampleClass⟩ :=
  read_write _ ⟨sampleClass_WF, rfl⟩
example : read (write ⟨[97], [98], .listResponse [sampleClass, sampleClass]⟩) =
    some ⟨[97], [98], .listResponse [sampleClass, sampleClass]⟩ :=
  read_write _ (by intro c hc; simp only [List.mem_cons, List.not_mem_nil, or_false] at hc; rcases hc with rfl | rfl <;> exact sampleClass_WF)
example : read (write ⟨[], [], .revoke [120] (List.replicate 20 200)⟩) = some ⟨[], [], .revoke [120] (List.replicate 20 200)⟩ :=
  read_write _ (by unfold Msg.WF Payload.WF BytesOk; decide)
example : read (write ⟨[], [], .error 1101 (some [110, 111, 32, 38, 32, 62])⟩) =
    some ⟨[], [], .error 1101 (some [110, 111, 32, 38, 32, 62])⟩ :=
  read_write _ (by
    intro t ht
    simp only [Option.some.injEq] at ht
    subst ht
    exact PubMsg.textOk_of_textOkB _ (by decide))

end Rpki.ProvMsg
