import Rpki.Model.X509
import Mathlib.Tactic.Ring
import Mathlib.Tactic.Linarith
namespace Rpki.X509

def AllBytes (l : Bytes) : Prop := ∀ b ∈ l, b < 256

theorem AllBytes.cons {b : Nat} {l : Bytes} : AllBytes (b :: l) ↔ b < 256 ∧ AllBytes l := by
  unfold AllBytes; simp

theorem allBytes_append {a b : Bytes} : AllBytes (a ++ b) ↔ AllBytes a ∧ AllBytes b := by
  unfold AllBytes; simp only [List.mem_append]
  constructor
  · intro h; exact ⟨fun x hx => h x (Or.inl hx), fun x hx => h x (Or.inr hx)⟩
  · rintro ⟨h1, h2⟩ x (hx | hx)
    · exact h1 x hx
    · exact h2 x hx

theorem allBytes_reverse {a : Bytes} : AllBytes a.reverse ↔ AllBytes a := by
  unfold AllBytes; simp

theorem allBytes_replicate (k : Nat) : AllBytes (List.replicate k 0) := by
  intro b hb; rw [List.mem_replicate] at hb; omega

/-! ### values -/

theorem toNatBE_append (a b : Bytes) : toNatBE (a ++ b) = toNatBE a * 256 ^ b.length + toNatBE b := by
  induction a with
  | nil => simp [toNatBE]
  | cons x xs ih =>
    simp only [List.cons_append, toNatBE, ih, List.length_append]
    rw [Nat.pow_add]; ring

theorem toNatBE_replicate_zero (k : Nat) : toNatBE (List.replicate k 0) = 0 := by
  induction k with
  | zero => rfl
  | succ n ih => simp [List.replicate_succ, toNatBE, ih]

theorem toNatBE_pad (k : Nat) (s : Bytes) : toNatBE (List.replicate k 0 ++ s) = toNatBE s := by
  rw [toNatBE_append, toNatBE_replicate_zero]; simp

theorem valLE_append (a b : Bytes) : valLE (a ++ b) = valLE a + 256 ^ a.length * valLE b := by
  induction a with
  | nil => simp [valLE]
  | cons x xs ih =>
    simp only [List.cons_append, valLE, ih, List.length_cons]
    rw [Nat.pow_succ]; ring

theorem toNatBE_eq_valLE_reverse (a : Bytes) : toNatBE a = valLE a.reverse := by
  induction a with
  | nil => rfl
  | cons x xs ih =>
    simp only [toNatBE, List.reverse_cons, valLE_append, valLE, ih, List.length_reverse]
    ring

theorem toNatBE_lt (a : Bytes) (h : AllBytes a) : toNatBE a < 256 ^ a.length := by
  induction a with
  | nil => simp [toNatBE]
  | cons x xs ih =>
    rw [AllBytes.cons] at h
    have := ih h.2
    simp only [toNatBE, List.length_cons, Nat.pow_succ]
    nlinarith [h.1]

/-- big-endian value is injective on byte strings of equal length -/
theorem toNatBE_inj : ∀ (a b : Bytes), a.length = b.length → AllBytes a → AllBytes b →
    toNatBE a = toNatBE b → a = b := by
  intro a
  induction a with
  | nil => intro b hl _ _ _; cases b <;> simp_all
  | cons x xs ih =>
    intro b hl ha hb h
    cases b with
    | nil => simp at hl
    | cons y ys =>
      rw [AllBytes.cons] at ha hb
      simp only [List.length_cons, Nat.add_right_cancel_iff] at hl
      simp only [toNatBE, hl] at h
      have h1 := toNatBE_lt xs ha.2
      have h2 := toNatBE_lt ys hb.2
      rw [hl] at h1
      have hp : 0 < 256 ^ ys.length := Nat.pow_pos (by decide)
      have hxy : x = y := by
        rcases Nat.lt_trichotomy x y with c | c | c
        · exfalso
          have : (x + 1) * 256 ^ ys.length ≤ y * 256 ^ ys.length := Nat.mul_le_mul_right _ c
          nlinarith
        · exact c
        · exfalso
          have : (y + 1) * 256 ^ ys.length ≤ x * 256 ^ ys.length := Nat.mul_le_mul_right _ c
          nlinarith
      subst hxy
      have : toNatBE xs = toNatBE ys := by omega
      rw [ih ys hl ha.2 hb.2 this]

/-! ### the arithmetic loops -/

theorem mulLE_spec : ∀ (bs : Bytes) (r c : Nat),
    valLE (mulLE bs r c).1 + 256 ^ bs.length * (mulLE bs r c).2 = valLE bs * r + c ∧
    (mulLE bs r c).1.length = bs.length ∧ AllBytes (mulLE bs r c).1 := by
  intro bs
  induction bs with
  | nil => intro r c; simp [mulLE, valLE, AllBytes]
  | cons b bs ih =>
    intro r c
    have ⟨h1, h2, h3⟩ := ih r ((b * r + c) / 256)
    simp only [mulLE, valLE, List.length_cons, Nat.pow_succ]
    refine ⟨?_, by simp [h2], ?_⟩
    · have := Nat.div_add_mod (b * r + c) 256
      nlinarith
    · rw [AllBytes.cons]; exact ⟨Nat.mod_lt _ (by decide), h3⟩

theorem addLE_spec : ∀ (bs : Bytes) (c : Nat),
    valLE (addLE bs c).1 + 256 ^ bs.length * (addLE bs c).2 = valLE bs + c ∧
    (addLE bs c).1.length = bs.length ∧ AllBytes (addLE bs c).1 := by
  intro bs
  induction bs with
  | nil => intro c; simp [addLE, valLE, AllBytes]
  | cons b bs ih =>
    intro c
    have ⟨h1, h2, h3⟩ := ih ((b + c) / 256)
    simp only [addLE, valLE, List.length_cons, Nat.pow_succ]
    refine ⟨?_, by simp [h2], ?_⟩
    · have := Nat.div_add_mod (b + c) 256
      nlinarith
    · rw [AllBytes.cons]; exact ⟨Nat.mod_lt _ (by decide), h3⟩

theorem divBE_spec : ∀ (bs : Bytes) (r step : Nat), 0 < r → step < r →
    toNatBE (divBE bs r step).1 * r + (divBE bs r step).2 = step * 256 ^ bs.length + toNatBE bs ∧
    (divBE bs r step).2 < r ∧ (divBE bs r step).1.length = bs.length ∧
    (AllBytes bs → AllBytes (divBE bs r step).1) := by
  intro bs
  induction bs with
  | nil => intro r step hr hs; simp [divBE, toNatBE, AllBytes]; exact hs
  | cons b bs ih =>
    intro r step hr hs
    have hm : (step * 256 + b) % r < r := Nat.mod_lt _ hr
    have ⟨h1, h2, h3, h4⟩ := ih r ((step * 256 + b) % r) hr hm
    simp only [divBE, toNatBE, List.length_cons, h3]
    refine ⟨?_, h2, trivial, ?_⟩
    · have hst := Nat.div_add_mod (step * 256 + b) r
      generalize (step * 256 + b) / r = q0 at *
      generalize (step * 256 + b) % r = m0 at *
      generalize toNatBE (divBE bs r m0).1 = tq at *
      generalize (divBE bs r m0).2 = rem at *
      rw [Nat.pow_succ]
      have e : (q0 * 256 ^ bs.length + tq) * r + rem = (r * q0 + m0) * 256 ^ bs.length + toNatBE bs := by
        linarith
      rw [e, hst]; ring
    · intro hb
      rw [AllBytes.cons] at hb ⊢
      refine ⟨?_, h4 hb.2⟩
      apply Nat.div_lt_of_lt_mul
      nlinarith [hb.1]

/-! ### `checked_mul_u8`, `checked_add_u8` on big-endian arrays -/

theorem headD_lt_iff (a : Bytes) (ha : AllBytes a) (hne : a ≠ []) :
    a.headD 0 / 128 % 2 = 0 ↔ toNatBE a * 2 < 256 ^ a.length := by
  cases a with
  | nil => exact absurd rfl hne
  | cons x xs =>
    rw [AllBytes.cons] at ha
    have h1 := toNatBE_lt xs ha.2
    have hp : 0 < 256 ^ xs.length := Nat.pow_pos (by decide)
    simp only [List.headD_cons, toNatBE, List.length_cons, Nat.pow_succ]
    constructor
    · intro h
      have : x < 128 := by omega
      have : (x + 1) * 256 ^ xs.length ≤ 128 * 256 ^ xs.length := Nat.mul_le_mul_right _ (by omega)
      nlinarith
    · intro h
      have : x < 128 := by
        apply Nat.lt_of_not_le; intro hx
        have : 128 * 256 ^ xs.length ≤ x * 256 ^ xs.length := Nat.mul_le_mul_right _ hx
        nlinarith
      omega

theorem checkedMul_spec (a : Bytes) (r : Nat) (ha : AllBytes a) (hne : a ≠ []) :
    (∀ b, checkedMul a r = some b →
      toNatBE b = toNatBE a * r ∧ b.length = a.length ∧ AllBytes b ∧ toNatBE b * 2 < 256 ^ a.length) ∧
    (toNatBE a * r * 2 < 256 ^ a.length → ∃ b, checkedMul a r = some b) := by
  unfold checkedMul
  have ⟨h1, h2, h3⟩ := mulLE_spec a.reverse r 0
  generalize hm : mulLE a.reverse r 0 = res at *
  obtain ⟨rs, c⟩ := res
  simp only [List.length_reverse, Nat.add_zero] at h1 h2
  have hval : toNatBE rs.reverse = valLE rs := by rw [toNatBE_eq_valLE_reverse]; simp
  have hva : valLE a.reverse = toNatBE a := (toNatBE_eq_valLE_reverse a).symm
  have hrne : rs.reverse ≠ [] := by
    intro e; have : rs.length = 0 := by simpa using congrArg List.length e
    rw [h2] at this; exact hne (List.length_eq_zero_iff.1 this)
  have hhead := headD_lt_iff rs.reverse (allBytes_reverse.2 h3) hrne
  simp only [List.length_reverse, h2, hval] at hhead
  have hp : 0 < 256 ^ a.length := Nat.pow_pos (by decide)
  rw [hva] at h1
  simp only
  constructor
  · intro b hb
    by_cases hc : c = 0 ∧ rs.reverse.headD 0 / 128 % 2 = 0
    · rw [if_pos hc] at hb
      injection hb with hb; subst hb
      have := hhead.1 hc.2
      refine ⟨by rw [hval]; have := hc.1; subst this; omega, by simp [h2], allBytes_reverse.2 h3, by rw [hval]; exact this⟩
    · rw [if_neg hc] at hb; cases hb
  · intro hlt
    have hc0 : c = 0 := by
      rcases Nat.eq_zero_or_pos c with h | h
      · exact h
      · exfalso
        have : 256 ^ a.length * 1 ≤ 256 ^ a.length * c := Nat.mul_le_mul_left _ h
        nlinarith
    subst hc0
    have : valLE rs * 2 < 256 ^ a.length := by nlinarith
    have hh := hhead.2 this
    exact ⟨rs.reverse, by rw [if_pos ⟨rfl, hh⟩]⟩

theorem checkedAdd_spec (a : Bytes) (r : Nat) (ha : AllBytes a) (hne : a ≠ []) :
    (∀ b, checkedAdd a r = some b →
      toNatBE b = toNatBE a + r ∧ b.length = a.length ∧ AllBytes b ∧ toNatBE b * 2 < 256 ^ a.length) ∧
    ((toNatBE a + r) * 2 < 256 ^ a.length → ∃ b, checkedAdd a r = some b) := by
  unfold checkedAdd
  have ⟨h1, h2, h3⟩ := addLE_spec a.reverse r
  generalize hm : addLE a.reverse r = res at *
  obtain ⟨rs, c⟩ := res
  simp only [List.length_reverse] at h1 h2
  have hval : toNatBE rs.reverse = valLE rs := by rw [toNatBE_eq_valLE_reverse]; simp
  have hva : valLE a.reverse = toNatBE a := (toNatBE_eq_valLE_reverse a).symm
  have hrne : rs.reverse ≠ [] := by
    intro e; have : rs.length = 0 := by simpa using congrArg List.length e
    rw [h2] at this; exact hne (List.length_eq_zero_iff.1 this)
  have hhead := headD_lt_iff rs.reverse (allBytes_reverse.2 h3) hrne
  simp only [List.length_reverse, h2, hval] at hhead
  have hp : 0 < 256 ^ a.length := Nat.pow_pos (by decide)
  rw [hva] at h1
  simp only
  constructor
  · intro b hb
    by_cases hc : c = 0 ∧ rs.reverse.headD 0 / 128 % 2 = 0
    · rw [if_pos hc] at hb
      injection hb with hb; subst hb
      have := hhead.1 hc.2
      refine ⟨by rw [hval]; have := hc.1; subst this; omega, by simp [h2], allBytes_reverse.2 h3, by rw [hval]; exact this⟩
    · rw [if_neg hc] at hb; cases hb
  · intro hlt
    have hc0 : c = 0 := by
      rcases Nat.eq_zero_or_pos c with h | h
      · exact h
      · exfalso
        have : 256 ^ a.length * 1 ≤ 256 ^ a.length * c := Nat.mul_le_mul_left _ h
        nlinarith
    subst hc0
    have : valLE rs * 2 < 256 ^ a.length := by nlinarith
    have hh := hhead.2 this
    exact ⟨rs.reverse, by rw [if_pos ⟨rfl, hh⟩]⟩

end Rpki.X509
