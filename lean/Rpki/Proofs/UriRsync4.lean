import Rpki.Proofs.UriRsync3
namespace Rpki.Uri
open Rpki.Consts

/-! ### case folding -/

theorem toLower_eq_slash (c : Nat) : toLower c = slash ↔ c = slash := by
  unfold toLower slash; split <;> omega

theorem eqIgnoreCase_iff (a b : Bytes) : eqIgnoreCase a b = true ↔ a.map toLower = b.map toLower := by
  unfold eqIgnoreCase; simp

theorem lower_first_slash : ∀ (a a' r r' : Bytes), slash ∉ a → slash ∉ a' →
    (a ++ slash :: r).map toLower = (a' ++ slash :: r').map toLower → a.length = a'.length := by
  intro a
  induction a with
  | nil =>
    intro a' r r' _ h2 h
    cases a' with
    | nil => rfl
    | cons c cs =>
      simp only [List.nil_append, List.map_cons, List.cons_append] at h
      injection h with h _
      have : toLower slash = slash := by decide
      rw [this] at h
      have := (toLower_eq_slash c).1 h.symm
      simp [this] at h2
  | cons d ds ih =>
    intro a' r r' h1 h2 h
    cases a' with
    | nil =>
      simp only [List.nil_append, List.map_cons, List.cons_append] at h
      injection h with h _
      have : toLower slash = slash := by decide
      rw [this] at h
      have := (toLower_eq_slash d).1 h
      simp [this] at h1
    | cons c cs =>
      simp only [List.cons_append, List.map_cons] at h
      injection h with _ h
      simp only [List.mem_cons, not_or] at h1 h2
      simp [ih cs r r' h1.2 h2.2 h]

theorem Rsync.Inv.ms_le {u : Rsync} (h : u.Inv) : u.moduleStart ≤ u.bytes.length ∧ u.moduleStart ≤ u.pathStart ∧
    u.pathStart ≤ u.bytes.length := by
  obtain ⟨auth, md, path, hb, _, _, _, _, _, _, _, h1, h2, _, h8⟩ := h.parts
  have : u.bytes.length = 8 + (auth.length + 1 + (md.length + 1 + path.length)) := by
    conv => lhs; rw [hb]
    simp [h8]; omega
  omega

/-- `==` on valid values: same module offset, scheme+authority equal ignoring case, rest equal. -/
theorem Rsync.eq_iff' (u o : Rsync) (hu : u.Inv) (ho : o.Inv) :
    u.eq o = true ↔ u.moduleStart = o.moduleStart ∧
      (u.bytes.take u.moduleStart).map toLower = (o.bytes.take o.moduleStart).map toLower ∧
      u.bytes.drop u.moduleStart = o.bytes.drop o.moduleStart := by
  unfold Rsync.eq
  constructor
  · intro h
    by_cases hl : u.bytes.length ≠ o.bytes.length
    · simp [hl] at h
    · simp only [hl, if_false, Bool.and_eq_true, eqIgnoreCase_iff, beq_iff_eq] at h
      obtain ⟨hA, hB⟩ := h
      have hfull : u.bytes.map toLower = o.bytes.map toLower := by
        rw [← List.take_append_drop u.moduleStart u.bytes, ← List.take_append_drop u.moduleStart o.bytes,
          List.map_append, List.map_append, hA, hB]
      obtain ⟨au, mu, pu, _, _, _, _, _, _, nau, _, h1u, _, _, _⟩ := hu.parts
      obtain ⟨ao, mo, po, _, _, _, _, _, _, nao, _, h1o, _, _, _⟩ := ho.parts
      obtain ⟨_, _, au', mu', pu', hdu, _, _, nau', _, h1u', _, _⟩ := hu
      obtain ⟨_, _, ao', mo', po', hdo, _, _, nao', _, h1o', _, _⟩ := ho
      have hd8 : (u.bytes.drop 8).map toLower = (o.bytes.drop 8).map toLower := by
        rw [List.map_drop, List.map_drop, hfull]
      rw [hdu, hdo] at hd8
      have := lower_first_slash _ _ _ _ nau' nao' hd8
      have hms : u.moduleStart = o.moduleStart := by omega
      exact ⟨hms, by rw [← hms]; exact hA, by rw [← hms]; exact hB⟩
  · rintro ⟨hms, hA, hB⟩
    have hlu := hu.ms_le.1
    have hlo := ho.ms_le.1
    have hl : u.bytes.length = o.bytes.length := by
      have e1 : u.bytes.length = u.moduleStart + (u.bytes.drop u.moduleStart).length := by simp; omega
      have e2 : o.bytes.length = o.moduleStart + (o.bytes.drop o.moduleStart).length := by simp; omega
      rw [e1, e2, hB, hms]
    have : ¬ u.bytes.length ≠ o.bytes.length := by simp [hl]
    simp only [this, if_false, Bool.and_eq_true, eqIgnoreCase_iff, beq_iff_eq]
    rw [hms] at hA hB ⊢; exact ⟨hA, hB⟩

theorem Rsync.eq_refl' (u : Rsync) (hu : u.Inv) : u.eq u = true :=
  (Rsync.eq_iff' u u hu hu).2 ⟨rfl, rfl, rfl⟩

theorem Rsync.eq_symm' (u o : Rsync) (hu : u.Inv) (ho : o.Inv) (h : u.eq o = true) : o.eq u = true := by
  have ⟨a, b, c⟩ := (Rsync.eq_iff' u o hu ho).1 h
  exact (Rsync.eq_iff' o u ho hu).2 ⟨a.symm, b.symm, c.symm⟩

theorem Rsync.eq_trans' (u o w : Rsync) (hu : u.Inv) (ho : o.Inv) (hw : w.Inv)
    (h1 : u.eq o = true) (h2 : o.eq w = true) : u.eq w = true := by
  have ⟨a, b, c⟩ := (Rsync.eq_iff' u o hu ho).1 h1
  have ⟨a', b', c'⟩ := (Rsync.eq_iff' o w ho hw).1 h2
  exact (Rsync.eq_iff' u w hu hw).2 ⟨a.trans a', b.trans b', c.trans c'⟩

theorem Rsync.hash_of_eq' (u o : Rsync) (hu : u.Inv) (ho : o.Inv) (h : u.eq o = true) :
    u.hashKey = o.hashKey := by
  have ⟨a, b, c⟩ := (Rsync.eq_iff' u o hu ho).1 h
  unfold Rsync.hashKey
  rw [b, c]

end Rpki.Uri
