import Rpki.Proofs.ChainLemmas
namespace Rpki.Chain
open Rpki.Consts

/-- the repaired post pass merges overlapping neighbours too (read from the source) -/
theorem postPassFlag : chainPostPassMergesOverlap = true := rfl

/-- every block of the list has lower ≤ upper ≤ M -/
def WF (M : Nat) (l : List Blk) : Prop := ∀ b ∈ l, b.lo ≤ b.hi ∧ b.hi ≤ M

theorem wf_nil (M : Nat) : WF M [] := by intro b hb; cases hb

theorem wf_cons {M : Nat} {b : Blk} {l : List Blk} :
    WF M (b :: l) ↔ (b.lo ≤ b.hi ∧ b.hi ≤ M) ∧ WF M l := by
  unfold WF; simp only [List.mem_cons, forall_eq_or_imp]

theorem next_eq_some {M x y : Nat} : next M x = some y ↔ x < M ∧ y = x + 1 := by
  unfold next
  by_cases h : x < M
  · rw [if_pos h]
    simp only [Option.some.injEq, h, true_and]
    omega
  · rw [if_neg h]
    simp only [h, false_and, reduceCtorEq]

/-! ### 1. `sum`, `mergeOrAdd` and the fold -/

theorem sum_spec {M : Nat} {a b s : Blk} (hs : sum M a b = some s)
    (ha : a.lo ≤ a.hi ∧ a.hi ≤ M) (hb : b.lo ≤ b.hi ∧ b.hi ≤ M) :
    (s.lo ≤ s.hi ∧ s.hi ≤ M) ∧
      ∀ x, (s.lo ≤ x ∧ x ≤ s.hi) ↔ ((a.lo ≤ x ∧ x ≤ a.hi) ∨ (b.lo ≤ x ∧ x ≤ b.hi)) := by
  unfold sum at hs
  by_cases h1 : intersects a b = true
  · rw [if_pos h1] at hs
    simp only [Option.some.injEq] at hs
    subst hs
    simp only [intersects, Bool.and_eq_true, decide_eq_true_eq, ge_iff_le] at h1
    refine ⟨by simp only; omega, fun x => by simp only; omega⟩
  · rw [if_neg h1] at hs
    simp only [intersects, Bool.and_eq_true, decide_eq_true_eq, ge_iff_le] at h1
    by_cases h2 : next M a.hi = some b.lo
    · rw [if_pos h2] at hs
      simp only [Option.some.injEq] at hs
      subst hs
      have := next_eq_some.1 h2
      refine ⟨by simp only; omega, fun x => by simp only; omega⟩
    · rw [if_neg h2] at hs
      by_cases h3 : next M b.hi = some a.lo
      · rw [if_pos h3] at hs
        simp only [Option.some.injEq] at hs
        subst hs
        have := next_eq_some.1 h3
        refine ⟨by simp only; omega, fun x => by simp only; omega⟩
      · rw [if_neg h3] at hs
        cases hs

theorem mergeOrAdd_spec {M : Nat} (b : Blk) (hb : b.lo ≤ b.hi ∧ b.hi ≤ M) :
    ∀ (res : List Blk), WF M res →
      WF M (mergeOrAdd M res b) ∧
        ∀ x, mem (mergeOrAdd M res b) x ↔ mem res x ∨ (b.lo ≤ x ∧ x ≤ b.hi) := by
  intro res
  induction res with
  | nil =>
    intro _
    rw [mergeOrAdd]
    refine ⟨wf_cons.2 ⟨hb, wf_nil M⟩, fun x => ?_⟩
    simp only [mem_cons, mem_nil, or_false, false_or]
  | cons e es ih =>
    intro hwf
    obtain ⟨he, hes⟩ := wf_cons.1 hwf
    rw [mergeOrAdd]
    split
    next s hs =>
      obtain ⟨s1, s2⟩ := sum_spec hs he hb
      refine ⟨wf_cons.2 ⟨s1, hes⟩, fun x => ?_⟩
      rw [mem_cons, mem_cons, s2 x]
      constructor
      · rintro ((h | h) | h)
        · exact Or.inl (Or.inl h)
        · exact Or.inr h
        · exact Or.inl (Or.inr h)
      · rintro ((h | h) | h)
        · exact Or.inl (Or.inl h)
        · exact Or.inr h
        · exact Or.inl (Or.inr h)
    next hs =>
      obtain ⟨i1, i2⟩ := ih hes
      refine ⟨wf_cons.2 ⟨he, i1⟩, fun x => ?_⟩
      rw [mem_cons, mem_cons, i2 x]
      constructor
      · rintro (h | h | h)
        · exact Or.inl (Or.inl h)
        · exact Or.inl (Or.inr h)
        · exact Or.inr h
      · rintro ((h | h) | h)
        · exact Or.inl h
        · exact Or.inr (Or.inl h)
        · exact Or.inr (Or.inr h)

theorem foldl_spec {M : Nat} : ∀ (bs res : List Blk), WF M res → WF M bs →
    WF M (bs.foldl (mergeOrAdd M) res) ∧
      ∀ x, mem (bs.foldl (mergeOrAdd M) res) x ↔ mem res x ∨ mem bs x := by
  intro bs
  induction bs with
  | nil =>
    intro res hres _
    rw [List.foldl_nil]
    refine ⟨hres, fun x => ?_⟩
    simp only [mem_nil, or_false]
  | cons b bs ih =>
    intro res hres hwf
    obtain ⟨hb, hbs⟩ := wf_cons.1 hwf
    obtain ⟨m1, m2⟩ := mergeOrAdd_spec b hb res hres
    obtain ⟨i1, i2⟩ := ih (mergeOrAdd M res b) m1 hbs
    rw [List.foldl_cons]
    refine ⟨i1, fun x => ?_⟩
    rw [i2 x, m2 x, mem_cons]
    constructor
    · rintro ((h | h) | h)
      · exact Or.inl h
      · exact Or.inr (Or.inl h)
      · exact Or.inr (Or.inr h)
    · rintro (h | h | h)
      · exact Or.inl (Or.inl h)
      · exact Or.inl (Or.inr h)
      · exact Or.inr h

/-! ### 2. the insertion sort -/

theorem mem_insertByLo (b : Blk) : ∀ (l : List Blk) (y : Blk), y ∈ insertByLo b l ↔ y = b ∨ y ∈ l := by
  intro l
  induction l with
  | nil => intro y; rw [insertByLo]; simp only [List.mem_singleton, List.not_mem_nil, or_false]
  | cons x xs ih =>
    intro y
    rw [insertByLo]
    by_cases h : b.lo < x.lo
    · rw [if_pos h]; simp only [List.mem_cons]
    · rw [if_neg h]
      simp only [List.mem_cons, ih y]
      constructor
      · rintro (h | h | h)
        · exact Or.inr (Or.inl h)
        · exact Or.inl h
        · exact Or.inr (Or.inr h)
      · rintro (h | h | h)
        · exact Or.inr (Or.inl h)
        · exact Or.inl h
        · exact Or.inr (Or.inr h)

theorem sorted_insertByLo (b : Blk) : ∀ (l : List Blk), l.Pairwise (fun a c => a.lo ≤ c.lo) →
    (insertByLo b l).Pairwise (fun a c => a.lo ≤ c.lo) := by
  intro l
  induction l with
  | nil => intro _; rw [insertByLo]; exact List.pairwise_singleton _ _
  | cons x xs ih =>
    intro hs
    obtain ⟨h1, h2⟩ := List.pairwise_cons.1 hs
    rw [insertByLo]
    by_cases h : b.lo < x.lo
    · rw [if_pos h]
      refine List.pairwise_cons.2 ⟨fun y hy => ?_, hs⟩
      rcases List.mem_cons.1 hy with e | e
      · subst e; omega
      · have := h1 y e; omega
    · rw [if_neg h]
      refine List.pairwise_cons.2 ⟨fun y hy => ?_, ih h2⟩
      rcases (mem_insertByLo b xs y).1 hy with e | e
      · subst e; omega
      · exact h1 y e

theorem mem_sortByLo : ∀ (l : List Blk) (y : Blk), y ∈ sortByLo l ↔ y ∈ l := by
  intro l
  induction l with
  | nil => intro y; rw [sortByLo]
  | cons x xs ih =>
    intro y
    rw [sortByLo, mem_insertByLo, ih y, List.mem_cons]

theorem sorted_sortByLo : ∀ (l : List Blk), (sortByLo l).Pairwise (fun a c => a.lo ≤ c.lo) := by
  intro l
  induction l with
  | nil => rw [sortByLo]; exact List.Pairwise.nil
  | cons x xs ih => rw [sortByLo]; exact sorted_insertByLo x _ ih

/-! ### 3. the post pass -/

theorem postPass_spec {M : Nat} : ∀ (rest : List Blk) (tail : Blk),
    (tail.lo ≤ tail.hi ∧ tail.hi ≤ M) → WF M rest → (∀ b ∈ rest, tail.lo ≤ b.lo) →
    rest.Pairwise (fun a c => a.lo ≤ c.lo) →
    Canon M (postPass M tail rest) ∧ (∀ x, mem (postPass M tail rest) x ↔ mem (tail :: rest) x) ∧
      ∀ y ∈ postPass M tail rest, tail.lo ≤ y.lo := by
  intro rest
  induction rest with
  | nil =>
    intro tail ht _ _ _
    rw [postPass]
    refine ⟨canon_cons.2 ⟨ht, (by intro x hx; cases hx), canon_nil M⟩, fun x => Iff.rfl, ?_⟩
    intro y hy
    rw [List.mem_singleton] at hy
    subst hy
    exact Nat.le_refl _
  | cons b rest ih =>
    intro tail ht hwf hlo hs
    obtain ⟨hb, hwf'⟩ := wf_cons.1 hwf
    obtain ⟨hs1, hs2⟩ := List.pairwise_cons.1 hs
    have hbl : tail.lo ≤ b.lo := hlo b List.mem_cons_self
    have hrl : ∀ y ∈ rest, tail.lo ≤ y.lo := fun y hy => hlo y (List.mem_cons_of_mem _ hy)
    rw [postPass, if_pos postPassFlag]
    by_cases hc : b.lo ≤ tail.hi ∨ next M tail.hi = some b.lo
    · rw [if_pos hc]
      have hc' : b.lo ≤ tail.hi + 1 := by
        rcases hc with h | h
        · omega
        · have := next_eq_some.1 h; omega
      by_cases hg : b.hi > tail.hi
      · rw [if_pos hg]
        obtain ⟨i1, i2, i3⟩ := ih ⟨tail.lo, b.hi⟩ ⟨by simp only; omega, hb.2⟩ hwf' hrl hs2
        refine ⟨i1, fun x => ?_, i3⟩
        rw [i2 x]
        simp only [mem_cons]
        constructor
        · rintro (h | h)
          · by_cases hx : x ≤ tail.hi
            · exact Or.inl ⟨h.1, hx⟩
            · exact Or.inr (Or.inl ⟨by omega, h.2⟩)
          · exact Or.inr (Or.inr h)
        · rintro (h | h | h)
          · exact Or.inl ⟨h.1, by omega⟩
          · exact Or.inl ⟨by omega, h.2⟩
          · exact Or.inr h
      · rw [if_neg hg]
        obtain ⟨i1, i2, i3⟩ := ih tail ht hwf' hrl hs2
        refine ⟨i1, fun x => ?_, i3⟩
        rw [i2 x]
        simp only [mem_cons]
        constructor
        · rintro (h | h)
          · exact Or.inl h
          · exact Or.inr (Or.inr h)
        · rintro (h | h | h)
          · exact Or.inl h
          · exact Or.inl ⟨by omega, by omega⟩
          · exact Or.inr h
    · rw [if_neg hc]
      have hgap : tail.hi + 1 < b.lo := by
        have h1 : ¬ b.lo ≤ tail.hi := fun h => hc (Or.inl h)
        have h2 : ¬ (tail.hi < M ∧ b.lo = tail.hi + 1) := fun h => hc (Or.inr (next_eq_some.2 h))
        omega
      obtain ⟨i1, i2, i3⟩ := ih b hb hwf' hs1 hs2
      refine ⟨canon_cons.2 ⟨ht, fun y hy => ?_, i1⟩, fun x => ?_, ?_⟩
      · have := i3 y hy; omega
      · rw [mem_cons, i2 x]
        exact mem_cons.symm
      · intro y hy
        rcases List.mem_cons.1 hy with e | e
        · subst e; exact Nat.le_refl _
        · have := i3 y e; omega

/-! ### the fallback -/

theorem fromIterUnsorted_spec {M : Nat} (res : List Blk) (b : Blk) (rest : List Blk)
    (hres : WF M res) (hb : WF M (b :: rest)) :
    Canon M (fromIterUnsorted M res b rest) ∧
      ∀ x, mem (fromIterUnsorted M res b rest) x ↔ mem res x ∨ mem (b :: rest) x := by
  obtain ⟨f1, f2⟩ := foldl_spec (b :: rest) res hres hb
  unfold fromIterUnsorted
  generalize ((b :: rest).foldl (mergeOrAdd M) res) = l at f1 f2
  have s1 := mem_sortByLo l
  have s2 := sorted_sortByLo l
  generalize sortByLo l = sl at s1 s2
  cases sl with
  | nil =>
    refine ⟨canon_nil M, fun x => ?_⟩
    rw [← f2 x]
    constructor
    · intro h; exact absurd h (mem_nil x)
    · rintro ⟨y, hy, _⟩
      have := (s1 y).2 hy
      cases this
  | cons y ys =>
    have hwf : WF M (y :: ys) := fun z hz => f1 z ((s1 z).1 hz)
    obtain ⟨hy, hys⟩ := wf_cons.1 hwf
    obtain ⟨p1, p2⟩ := List.pairwise_cons.1 s2
    obtain ⟨i1, i2, _⟩ := postPass_spec ys y hy hys p1 p2
    refine ⟨i1, fun x => ?_⟩
    show mem (postPass M y ys) x ↔ _
    rw [i2 x, ← f2 x]
    unfold mem
    constructor
    · rintro ⟨z, hz, h⟩; exact ⟨z, (s1 z).1 hz, h⟩
    · rintro ⟨z, hz, h⟩; exact ⟨z, (s1 z).2 hz, h⟩

/-! ### 4. the sorted fast path -/

/-- invariant of the accumulator (last element first) -/
def RInv (M : Nat) (res : List Blk) : Prop :=
  WF M res ∧ res.Pairwise (fun a c => c.hi + 1 < a.lo)

theorem canon_reverse {M : Nat} {res : List Blk} (h : RInv M res) : Canon M res.reverse := by
  refine ⟨fun b hb => h.1 b (List.mem_reverse.1 hb), ?_⟩
  rw [List.pairwise_reverse]
  exact h.2

theorem mem_reverse' {res : List Blk} {x : Nat} : mem res.reverse x ↔ mem res x := by
  unfold mem
  simp only [List.mem_reverse]

theorem or_shuffle {N L B R S : Prop} (h : N ↔ L ∨ B) :
    ((N ∨ R) ∨ S ↔ (L ∨ R) ∨ (B ∨ S)) := by
  rw [h]
  constructor
  · rintro (((h | h) | h) | h)
    · exact Or.inl (Or.inl h)
    · exact Or.inr (Or.inl h)
    · exact Or.inl (Or.inr h)
    · exact Or.inr (Or.inr h)
  · rintro ((h | h) | (h | h))
    · exact Or.inl (Or.inl (Or.inl h))
    · exact Or.inl (Or.inr h)
    · exact Or.inl (Or.inl (Or.inr h))
    · exact Or.inr h

theorem fromIterAux_spec {M : Nat} : ∀ (rest res : List Blk), RInv M res → WF M rest →
    Canon M (fromIterAux M res rest) ∧
      ∀ x, mem (fromIterAux M res rest) x ↔ mem res x ∨ mem rest x := by
  intro rest
  induction rest with
  | nil =>
    intro res hres _
    rw [fromIterAux]
    refine ⟨canon_reverse hres, fun x => ?_⟩
    rw [mem_reverse']
    simp only [mem_nil, or_false]
  | cons b rest ih =>
    intro res hres hwf
    obtain ⟨hb, hwf'⟩ := wf_cons.1 hwf
    cases res with
    | nil =>
      rw [fromIterAux]
      obtain ⟨i1, i2⟩ := ih [b] ⟨wf_cons.2 ⟨hb, wf_nil M⟩, List.pairwise_singleton _ _⟩ hwf'
      refine ⟨i1, fun x => ?_⟩
      rw [i2 x]
      simp only [mem_cons, mem_nil, or_false, false_or]
    | cons last res' =>
      obtain ⟨hwr, hpr⟩ := hres
      obtain ⟨hl, hwr'⟩ := wf_cons.1 hwr
      obtain ⟨hp1, hp2⟩ := List.pairwise_cons.1 hpr
      rw [fromIterAux]
      by_cases c1 : b.lo < last.lo
      · rw [if_pos c1]
        obtain ⟨i1, i2⟩ := fromIterUnsorted_spec (M := M) (last :: res').reverse b rest
          (fun z hz => hwr z (List.mem_reverse.1 hz)) hwf
        refine ⟨i1, fun x => ?_⟩
        rw [i2 x, mem_reverse']
      · rw [if_neg c1]
        by_cases c2 : b.lo ≤ last.hi
        · rw [if_pos c2]
          by_cases c3 : b.hi > last.hi
          · rw [if_pos c3]
            obtain ⟨i1, i2⟩ := ih (⟨last.lo, b.hi⟩ :: res')
              ⟨wf_cons.2 ⟨⟨by simp only; omega, hb.2⟩, hwr'⟩, List.pairwise_cons.2 ⟨hp1, hp2⟩⟩ hwf'
            refine ⟨i1, fun x => ?_⟩
            rw [i2 x]
            simp only [mem_cons]
            apply or_shuffle
            omega
          · rw [if_neg c3]
            obtain ⟨i1, i2⟩ := ih (last :: res') ⟨hwr, hpr⟩ hwf'
            refine ⟨i1, fun x => ?_⟩
            rw [i2 x]
            simp only [mem_cons]
            apply or_shuffle
            omega
        · rw [if_neg c2]
          by_cases c4 : next M last.hi = some b.lo
          · rw [if_pos c4]
            have hn := next_eq_some.1 c4
            obtain ⟨i1, i2⟩ := ih (⟨last.lo, b.hi⟩ :: res')
              ⟨wf_cons.2 ⟨⟨by simp only; omega, hb.2⟩, hwr'⟩, List.pairwise_cons.2 ⟨hp1, hp2⟩⟩ hwf'
            refine ⟨i1, fun x => ?_⟩
            rw [i2 x]
            simp only [mem_cons]
            apply or_shuffle
            omega
          · rw [if_neg c4]
            have hgap : last.hi + 1 < b.lo := by
              have h2 : ¬ (last.hi < M ∧ b.lo = last.hi + 1) := fun h => c4 (next_eq_some.2 h)
              omega
            have hpb : ∀ y ∈ last :: res', y.hi + 1 < b.lo := by
              intro y hy
              rcases List.mem_cons.1 hy with e | e
              · subst e; exact hgap
              · have := hp1 y e; omega
            obtain ⟨i1, i2⟩ := ih (b :: last :: res')
              ⟨wf_cons.2 ⟨hb, hwr⟩, List.pairwise_cons.2 ⟨hpb, hpr⟩⟩ hwf'
            refine ⟨i1, fun x => ?_⟩
            rw [i2 x]
            simp only [mem_cons]
            constructor
            · rintro ((h | h | h) | h)
              · exact Or.inr (Or.inl h)
              · exact Or.inl (Or.inl h)
              · exact Or.inl (Or.inr h)
              · exact Or.inr (Or.inr h)
            · rintro ((h | h) | (h | h))
              · exact Or.inl (Or.inr (Or.inl h))
              · exact Or.inl (Or.inr (Or.inr h))
              · exact Or.inl (Or.inl h)
              · exact Or.inr h

/-- Collecting any finite sequence of well-formed blocks — in any order, overlapping, adjacent,
duplicated, touching 0 or the maximum — gives a canonical chain denoting exactly their union. -/
theorem fromIter_spec' (M : Nat) (bs : List Blk) (h : ∀ b ∈ bs, b.lo ≤ b.hi ∧ b.hi ≤ M) :
    Canon M (fromIter M bs) ∧ ∀ x, mem (fromIter M bs) x ↔ ∃ b ∈ bs, b.lo ≤ x ∧ x ≤ b.hi := by
  obtain ⟨i1, i2⟩ := fromIterAux_spec (M := M) bs [] ⟨wf_nil M, List.Pairwise.nil⟩ h
  refine ⟨i1, fun x => ?_⟩
  unfold fromIter
  rw [i2 x]
  simp only [mem_nil, false_or]
  exact Iff.rfl

end Rpki.Chain
