import Rpki.Props.C03
#print axioms Rpki.C03.containsItem_iff
#print axioms Rpki.C03.canon_unique
#print axioms Rpki.C03.eq_iff_same_set
