import Rpki.Props.C03
#print axioms Rpki.C03.containsItem_iff
#print axioms Rpki.C03.canon_unique
#print axioms Rpki.C03.eq_iff_same_set
#print axioms Rpki.C03.fromIter_canon_den
#print axioms Rpki.C03.isEncompassed_iff
#print axioms Rpki.C03.trim_spec
#print axioms Rpki.C03.difference_spec
#print axioms Rpki.C03.union_spec
#print axioms Rpki.C03.inter_spec
#print axioms Rpki.C03.verifyIssued_subset
#print axioms Rpki.C03.containsBlock_iff
#print axioms Rpki.C03.intersectsBlock_iff
#print axioms Rpki.C03.asnCount_spec
#print axioms Rpki.C03.intoPrefix_sound
#print axioms Rpki.C03.intoPrefix_complete
#print axioms Rpki.C03.toPrefixes_tiles
