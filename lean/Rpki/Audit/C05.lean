import Rpki.Props.C05
#print axioms Rpki.Props.C05.tlv_roundtrip
#print axioms Rpki.Props.C05.capture_content_iterates
#print axioms Rpki.Props.C05.capture_with_header_is_one_value
#print axioms Rpki.Props.C05.manifest_decode_encode
#print axioms Rpki.Props.C05.manifest_reencode
#print axioms Rpki.Props.C05.crl_list_roundtrip
#print axioms Rpki.Props.C05.crl_lookup_agrees_with_iteration
#print axioms Rpki.Props.C05.time_roundtrip
#print axioms Rpki.Props.C05.serial_roundtrip
#print axioms Rpki.Props.C05.signed_attrs_roundtrip
#print axioms Rpki.Props.C05.roa_content_roundtrip
#print axioms Rpki.Props.C05.roa_decoded_iterates
#print axioms Rpki.Props.C05.aspa_content_roundtrip
#print axioms Rpki.Props.C05.aspa_decoded_iterates
