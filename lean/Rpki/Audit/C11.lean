import Rpki.Props.C11
#print axioms Rpki.Props.C11.document_roundtrip
#print axioms Rpki.Props.C11.writer_injective
#print axioms Rpki.Props.C11.attribute_value_roundtrip
#print axioms Rpki.Props.C11.object_text_roundtrip
#print axioms Rpki.Props.C11.side_conditions_needed
#print axioms Rpki.Props.C11.publication_roundtrip
#print axioms Rpki.Props.C11.publication_tree_wf
#print axioms Rpki.Props.C11.publication_injective
#print axioms Rpki.Props.C11.publication_norm_needed
#print axioms Rpki.Props.C11.idexchange_roundtrip
#print axioms Rpki.Props.C11.idexchange_injective
#print axioms Rpki.Props.C11.idexchange_tree_wf
#print axioms Rpki.Props.C11.provisioning_roundtrip
#print axioms Rpki.Props.C11.provisioning_injective
#print axioms Rpki.Props.C11.provisioning_fields
