import Rpki.Props.C14
#print axioms Rpki.Props.C14.fields_facts
#print axioms Rpki.Props.C14.decode_facts
#print axioms Rpki.Props.C14.validName_iff
#print axioms Rpki.Props.C14.validName_segment
#print axioms Rpki.Props.C14.len_eq_iter
#print axioms Rpki.Props.C14.times_ordered
#print axioms Rpki.Props.C14.iterUris_inside
#print axioms Rpki.Props.C14.resolved_is_valid
#print axioms Rpki.Props.C14.hashVerify_iff
#print axioms Rpki.Props.C14.manifest_object_octets
#print axioms Rpki.Props.C14.manifest_object_octets_either_mode
