import Rpki.Props.C04
#print axioms Rpki.Props.C04.manifest_iter_cannot_panic
#print axioms Rpki.Props.C04.manifest_uris_cannot_panic
#print axioms Rpki.Props.C04.encode_verify_cannot_panic
#print axioms Rpki.Props.C04.asn_count_total
#print axioms Rpki.Props.C04.capture_iterate_parity
#print axioms Rpki.Props.C04.readTlv_partition
#print axioms Rpki.Props.C04.crl_octets_lookup_cannot_panic
#print axioms Rpki.Props.C04.sigmsg_octets_revocation_check_cannot_panic
#print axioms Rpki.Props.C04.encode_verify_octets_cannot_panic
#print axioms Rpki.Props.C04.skip_machine_bounded
#print axioms Rpki.Props.C04.skip_machine_fuel_never_binds
