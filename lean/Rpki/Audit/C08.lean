import Rpki.Props.C08
#print axioms Rpki.C08.framing_refines
#print axioms Rpki.C08.delivery_independent
#print axioms Rpki.C08.whole_delivery
#print axioms Rpki.C08.one_response_each
#print axioms Rpki.C08.reset_answer
#print axioms Rpki.C08.malformed_gets_error
#print axioms Rpki.C08.notify_transparent
