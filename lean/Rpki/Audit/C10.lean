import Rpki.Props.C10
#print axioms Rpki.Props.C10.msg_sigVerifies_iff
#print axioms Rpki.Props.C10.windowOk_iff
#print axioms Rpki.Props.C10.akiOk_iff
#print axioms Rpki.Props.C10.eeValid_iff
#print axioms Rpki.Props.C10.crlValid_iff
#print axioms Rpki.Props.C10.validateAt_iff
#print axioms Rpki.Props.C10.single_fault_rejects
#print axioms Rpki.Props.C10.created_validates_iff
#print axioms Rpki.Props.C10.accepted_message_octets
#print axioms Rpki.Props.C10.accepted_message_octets_either_mode
#print axioms Rpki.Props.C10.created_message_octets
#print axioms Rpki.Props.C10.message_octets_accepted_iff
