import Rpki.Props.C09
#print axioms Rpki.Props.C09.budget
#print axioms Rpki.Props.C09.budget_tight
#print axioms Rpki.Props.C09.refused_after
#print axioms Rpki.Props.C09.limits_admissible
#print axioms Rpki.Props.C09.sortAndVerify_iff
#print axioms Rpki.Props.C09.retained_spec
#print axioms Rpki.Props.C09.hasMatchingOrigins_iff
#print axioms Rpki.Props.C09.attr_roundtrip
#print axioms Rpki.Props.C09.pcdata_roundtrip
#print axioms Rpki.Props.C09.object_roundtrip
#print axioms Rpki.Props.C09.object_decode_iff
#print axioms Rpki.Props.C09.b64_text_is_clean
#print axioms Rpki.Props.C09.notification_read_back
#print axioms Rpki.Props.C09.notification_writer_injective
#print axioms Rpki.Props.C09.file_read_back
#print axioms Rpki.Props.C09.file_writer_injective
#print axioms Rpki.Props.C09.publish_fields
