import Rpki.Props.C09
#print axioms Rpki.Props.C09.budget
#print axioms Rpki.Props.C09.budget_tight
#print axioms Rpki.Props.C09.refused_after
#print axioms Rpki.Props.C09.limits_admissible
#print axioms Rpki.Props.C09.sortAndVerify_iff
#print axioms Rpki.Props.C09.retained_spec
#print axioms Rpki.Props.C09.hasMatchingOrigins_iff
#print axioms Rpki.Props.C09.attr_roundtrip
#print axioms Rpki.Props.C09.pcdata_roundtrip
#print axioms Rpki.Props.C09.object_roundtrip
#print axioms Rpki.Props.C09.object_decode_iff
#print axioms Rpki.Props.C09.b64_text_is_clean
