import Rpki.Props.C02
#print axioms Rpki.Props.C02.encodeVerify_is_der
#print axioms Rpki.Props.C02.parseAttrs_len
#print axioms Rpki.Props.C02.sigVerifies_iff
#print axioms Rpki.Props.C02.validateAt_iff
#print axioms Rpki.Props.C02.single_fault_rejects
#print axioms Rpki.Props.C02.roaVerify_iff
#print axioms Rpki.Props.C02.aspaVerify_iff
#print axioms Rpki.Props.C02.roaProcess_iff
#print axioms Rpki.Props.C02.roa_within_issuer
#print axioms Rpki.Props.C02.attrs_any_order
#print axioms Rpki.Props.C02.attrs_missing_rejected
#print axioms Rpki.Props.C02.attrs_duplicate_rejected
#print axioms Rpki.Props.C02.attrs_too_long_rejected
#print axioms Rpki.Props.C02.accepted_object_octets
#print axioms Rpki.Props.C02.tampered_object_octets
