import Rpki.Props.C06
#print axioms Rpki.C06.diff_exact
#print axioms Rpki.C06.reset_exact
#print axioms Rpki.C06.negotiate_spec
#print axioms Rpki.C06.negotiate_idem
#print axioms Rpki.C06.clientReset_spec
#print axioms Rpki.C06.step_sync
#print axioms Rpki.C06.downgrade
#print axioms Rpki.C06.lookup_update
#print axioms Rpki.C06.inv_update
#print axioms Rpki.C06.inv_step
#print axioms Rpki.C06.inv_run
#print axioms Rpki.C06.history_sync_partial
