import Rpki.Props.C15
#print axioms Rpki.C15.dropOrigin_iff
#print axioms Rpki.C15.dropKey_iff
#print axioms Rpki.C15.drop_iff
#print axioms Rpki.C15.prefix_criterion_is_range
#print axioms Rpki.C15.no_criteria_no_match
#print axioms Rpki.C15.json_roundtrip
#print axioms Rpki.C15.json_text_tree_roundtrip
#print axioms Rpki.C15.json_text_roundtrip
#print axioms Rpki.C15.from_str_to_string
#print axioms Rpki.C15.from_str_to_string_pretty
#print axioms Rpki.C15.readers_agree_on_written_text
#print axioms Rpki.C15.json_text_injective
#print axioms Rpki.C15.assertions_payload
#print axioms Rpki.C15.new_version
