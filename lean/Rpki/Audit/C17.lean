import Rpki.Props.C17
#print axioms Rpki.C17.time_roundtrip
#print axioms Rpki.C17.time_roundtrip_opt
#print axioms Rpki.C17.encode_tag_width
#print axioms Rpki.C17.decode_sound
#print axioms Rpki.C17.validity_iff
#print axioms Rpki.C17.calendar_order_is_instant_order
#print axioms Rpki.C17.validity_iff_calendar
#print axioms Rpki.C17.years_from_date_spec
#print axioms Rpki.C17.trim_inter
#print axioms Rpki.C17.serial_fromSlice
#print axioms Rpki.C17.serial_dec_roundtrip
#print axioms Rpki.C17.serial_fromStr_value
#print axioms Rpki.C17.serial_fromStr_complete
#print axioms Rpki.C17.serial_der_roundtrip
#print axioms Rpki.C17.serial_order
