import Rpki.Props.C07
#print axioms Rpki.C07.length_field
#print axioms Rpki.C07.decode_encode
#print axioms Rpki.C07.stream_roundtrip
#print axioms Rpki.C07.newPdu_wf
#print axioms Rpki.C07.payload_roundtrip
#print axioms Rpki.C07.version_gating
#print axioms Rpki.C07.truncation
#print axioms Rpki.C07.bounded
#print axioms Rpki.C07.bad_type
#print axioms Rpki.C07.bad_length_fixed
#print axioms Rpki.C07.skip_terminates
#print axioms Rpki.C07.control_roundtrip
#print axioms Rpki.C07.try_read_spec
