import Rpki.Props.C16
#print axioms Rpki.C16.pcmp_spec
#print axioms Rpki.C16.pcmp_diff_only
#print axioms Rpki.C16.pcmp_antisymm
#print axioms Rpki.C16.pcmp_eq_iff
#print axioms Rpki.C16.add_lt
#print axioms Rpki.C16.add_guard
#print axioms Rpki.C16.wire_length
#print axioms Rpki.C16.unwire_wire
#print axioms Rpki.C16.wire_bigendian
#print axioms Rpki.C16.wire_injective
