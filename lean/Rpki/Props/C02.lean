/-
  C02 — signed objects are accepted iff digest, signature, EE certificate and coverage all hold.
  Property theorems over `Rpki/Model/SigObj.lean`, resting on C01 (EE validation) and C03
  (containment).
-/
import Rpki.Props.C01
import Rpki.Model.SigObj
import Rpki.Proofs.SigObjAttrs
import Rpki.Proofs.CmsDerLemmas
import Rpki.Gen.BerEq
import Rpki.Gen.BerLemmas2
import Rpki.Gen.BerMonoGen
namespace Rpki.Props.C02
set_option autoImplicit false
open Rpki.Chain Rpki.Cert Rpki.SigObj Rpki.Der
abbrev Bytes := List Nat

/-- **Signature input.** For every length the parser admits, `encode_verify` is the DER encoding of
the attributes as a SET OF: tag `31`, DER definite length (short form below 128, `81 len` below
256, `82 hi lo` otherwise), then the attribute octets. -/
theorem encodeVerify_is_der (attrs : Bytes) (h : attrs.length < 65536) :
    encodeVerify attrs = some (tlv 0x31 attrs) := by
  unfold encodeVerify tlv encLen
  simp only [Rpki.Consts.encodeVerifyDerLength, Rpki.Consts.encodeVerifyShort, Rpki.Consts.encodeVerifyMid,
    Rpki.Consts.encodeVerifyMax, if_true]
  by_cases h1 : attrs.length < 128
  · have : attrs.length < 0x80 := h1
    simp [h1]
  · by_cases h2 : attrs.length < 256
    · have h1' : ¬ attrs.length < 0x80 := h1
      have h2' : attrs.length < 0x100 := h2
      have : attrs.length % 256 = attrs.length := Nat.mod_eq_of_lt h2
      simp [h1, h2, this]
    · have h1' : ¬ attrs.length < 0x80 := h1
      have h2' : ¬ attrs.length < 0x100 := h2
      have h3 : attrs.length < 0x10000 := h
      have : attrs.length / 256 % 256 = attrs.length / 256 := Nat.mod_eq_of_lt (by omega)
      simp [h1, h2, h3, this]

theorem parseAttrs_len {strict : Bool} {attrs ct md : Bytes} {st : X509.Civil}
    (h : parseAttrs strict attrs = some (ct, md, st)) : attrs.length < 65536 := by
  unfold parseAttrs at h
  split at h
  · cases h
  · split at h
    · cases h
    · omega

theorem sigVerifies_iff (o : Obj) (hl : o.attrs.length < 65536) :
    sigVerifies o = true ↔ o.sigKeyOk = true ∧ o.sigInput = tlv 0x31 o.attrs := by
  unfold sigVerifies
  rw [encodeVerify_is_der o.attrs hl]
  simp

/-- **Acceptance, exactly.** A signed object validates under an issuer at a time iff its signed
attributes are exactly one content-type (equal to the eContentType), message-digest and
signing-time, the signer identifier is the EE certificate's subject key identifier, the
message-digest attribute is the digest of the content, the signature was made with the EE key over
the DER SET OF encoding of the attributes (whatever their size), and the EE certificate validates
under the issuer (C01). -/
theorem validateAt_iff (digest : Bytes → Bytes) (o : Obj) (i : RC) (now : Int) (r : RC) :
    validateAt digest o i now = some r ↔
      ∃ md st, parseAttrs true o.attrs = some (o.contentType, md, st) ∧
        o.sid = o.ee.ski ∧ digest o.content = md ∧
        o.sigKeyOk = true ∧ o.sigInput = tlv 0x31 o.attrs ∧
        validateEe o.ee i now = some r := by
  unfold validateAt decodeOk
  cases hp : parseAttrs true o.attrs with
  | none => simp
  | some t =>
    obtain ⟨ct, md, st⟩ := t
    have hl := parseAttrs_len hp
    by_cases hct : ct = o.contentType
    · subst hct
      simp only [ne_eq, not_true_eq_false, if_false]
      by_cases hs : o.sid = o.ee.ski
      · by_cases hd : digest o.content = md
        · by_cases hv : sigVerifies o = true
          · have hv' := (sigVerifies_iff o hl).1 hv
            simp only [hs, hd, hv, not_true_eq_false, if_false, Bool.not_true, Bool.false_eq_true]
            constructor
            · intro h; exact ⟨md, st, rfl, trivial, rfl, hv'.1, hv'.2, h⟩
            · rintro ⟨_, _, _, _, _, _, _, h⟩; exact h
          · simp only [hs, hd, not_true_eq_false, if_false]
            have : ¬ (o.sigKeyOk = true ∧ o.sigInput = tlv 0x31 o.attrs) :=
              fun h => hv ((sigVerifies_iff o hl).2 h)
            simp only [Bool.not_eq_true] at hv
            simp only [hv, Bool.not_false, if_true]
            constructor
            · intro h; cases h
            · rintro ⟨_, _, _, _, _, h1, h2, _⟩; exact absurd ⟨h1, h2⟩ this
        · simp only [hs, not_true_eq_false, if_false, hd, if_true, ne_eq, not_false_eq_true]
          constructor
          · intro h; cases h
          · rintro ⟨md', _, e, _, h, _⟩
            injection e with e; injection e with _ e; injection e with e _
            exact absurd (h.trans e.symm) hd
      · simp only [hs, ne_eq, not_false_eq_true, if_true]
        constructor
        · intro h; cases h
        · rintro ⟨_, _, _, h, _⟩; exact h.elim
    · simp only [ne_eq, hct, not_false_eq_true, if_true]
      constructor
      · intro h; cases h
      · rintro ⟨_, _, e, _⟩
        injection e with e; injection e with e _
        exact absurd e hct

/-- **Every single violation is rejected.** -/
theorem single_fault_rejects (digest : Bytes → Bytes) (o : Obj) (i : RC) (now : Int)
    (hbad : o.sigKeyOk = false ∨ o.sigInput ≠ tlv 0x31 o.attrs ∨ o.sid ≠ o.ee.ski ∨
            (∀ md st, parseAttrs true o.attrs = some (o.contentType, md, st) → digest o.content ≠ md) ∨
            validateEe o.ee i now = none) :
    validateAt digest o i now = none := by
  cases h : validateAt digest o i now with
  | none => rfl
  | some r =>
    obtain ⟨md, st, h1, h2, h3, h4, h5, h6⟩ := (validateAt_iff digest o i now r).1 h
    rcases hbad with hb | hb | hb | hb | hb
    · simp [h4] at hb
    · exact absurd h5 hb
    · exact absurd h2 hb
    · exact absurd h3 (hb md st h1)
    · simp [h6] at hb

/-- **ROA coverage.** Given a validated EE certificate with canonical resources, the ROA check
succeeds exactly when every address of every listed prefix lies in the certificate's validated
resources of its family. -/
theorem roaVerify_iff (v4 v6 : List RoaAddr) (cert : RC) (hc : C01.RC.Canon cert)
    (h4 : ∀ a ∈ v4, a.lo ≤ a.hi) (h6 : ∀ a ∈ v6, a.lo ≤ a.hi) :
    roaVerify v4 v6 cert = true ↔
      (∀ a ∈ v4, ∀ x, a.lo ≤ x → x ≤ a.hi → mem cert.v4 x) ∧
      (∀ a ∈ v6, ∀ x, a.lo ≤ x → x ≤ a.hi → mem cert.v6 x) := by
  have fam : ∀ (M : Nat) (l : List RoaAddr) (c : List Blk), Chain.Canon M c → (∀ a ∈ l, a.lo ≤ a.hi) →
      ((l.isEmpty || (!c.isEmpty && l.all fun a => containsBlock c ⟨a.lo, a.hi⟩)) = true ↔
        ∀ a ∈ l, ∀ x, a.lo ≤ x → x ≤ a.hi → mem c x) := by
    intro M l c hcan hl
    cases l with
    | nil => simp
    | cons a t =>
      have key : ∀ b ∈ a :: t, (containsBlock c ⟨b.lo, b.hi⟩ = true ↔ ∀ x, b.lo ≤ x → x ≤ b.hi → mem c x) :=
        fun b hb => C03.containsBlock_iff M c hcan ⟨b.lo, b.hi⟩ (hl b hb)
      simp only [List.isEmpty_cons, Bool.false_or, Bool.and_eq_true, Bool.not_eq_true',
        List.all_eq_true]
      constructor
      · rintro ⟨_, h⟩ b hb; exact (key b hb).1 (h b hb)
      · intro h
        refine ⟨?_, fun b hb => (key b hb).2 (h b hb)⟩
        cases c with
        | nil =>
          obtain ⟨b, hb, _⟩ := h a (by simp) a.lo (Nat.le_refl _) (hl a (by simp))
          simp at hb
        | cons _ _ => rfl
  unfold roaVerify
  rw [Bool.and_eq_true, fam maxV4 v4 cert.v4 hc.1 h4, fam maxV6 v6 cert.v6 hc.2.1 h6]

/-- **ASPA coverage.** The customer AS must be in the certificate's validated AS resources, which
must not be inherited, and the certificate must carry no IP resources. -/
theorem aspaVerify_iff (customer : Nat) (ee : Facts) (cert : RC) (hc : C01.RC.Canon cert) :
    aspaVerify customer ee cert = true ↔
      mem cert.asn customer ∧ ee.asn ≠ .inherit ∧ ee.v4 = .missing ∧ ee.v6 = .missing := by
  unfold aspaVerify
  rw [Bool.and_eq_true, Bool.and_eq_true, C03.containsItem_iff maxAs cert.asn hc.2.2 customer]
  have p : ∀ c : Claim, isPresent c = false ↔ c = .missing := by
    intro c; cases c <;> simp [isPresent]
  simp only [bne_iff_ne, ne_eq, Bool.not_eq_true', Bool.or_eq_false_iff, p]
  constructor
  · rintro ⟨⟨a, b⟩, c, d⟩; exact ⟨a, b, c, d⟩
  · rintro ⟨a, b, c, d⟩; exact ⟨⟨a, b⟩, c, d⟩

/-- `Roa::process` succeeds exactly when the object validates, the CRL callback agrees and every
prefix is covered by the validated EE certificate. -/
theorem roaProcess_iff (digest : Bytes → Bytes) (o : Obj) (v4 v6 : List RoaAddr) (i : RC) (now : Int)
    (crlOk : Bool) (hf : C01.ClaimsCanon o.ee) (hi : C01.RC.Canon i)
    (h4 : ∀ a ∈ v4, a.lo ≤ a.hi) (h6 : ∀ a ∈ v6, a.lo ≤ a.hi) :
    roaProcess digest o v4 v6 i now crlOk = true ↔
      ∃ cert, validateAt digest o i now = some cert ∧ crlOk = true ∧
        (∀ a ∈ v4, ∀ x, a.lo ≤ x → x ≤ a.hi → mem cert.v4 x) ∧
        (∀ a ∈ v6, ∀ x, a.lo ≤ x → x ≤ a.hi → mem cert.v6 x) := by
  unfold roaProcess
  cases hv : validateAt digest o i now with
  | none => simp
  | some cert =>
    obtain ⟨_, _, _, _, _, _, _, hee⟩ := (validateAt_iff digest o i now cert).1 hv
    have hc := (C01.validated_subset o.ee i cert now hf hi (Or.inr hee)).1
    simp only [Bool.and_eq_true, roaVerify_iff v4 v6 cert hc h4 h6]
    constructor
    · rintro ⟨a, b, c⟩; exact ⟨cert, rfl, a, b, c⟩
    · rintro ⟨c', e, a, b, c⟩; injection e with e; subst e; exact ⟨a, b, c⟩

/-- the ROA's covered addresses are inside the *issuer's* resources too (C01 monotonicity) -/
theorem roa_within_issuer (digest : Bytes → Bytes) (o : Obj) (v4 v6 : List RoaAddr) (i : RC) (now : Int)
    (crlOk : Bool) (hf : C01.ClaimsCanon o.ee) (hi : C01.RC.Canon i)
    (h4 : ∀ a ∈ v4, a.lo ≤ a.hi) (h6 : ∀ a ∈ v6, a.lo ≤ a.hi)
    (h : roaProcess digest o v4 v6 i now crlOk = true) :
    (∀ a ∈ v4, ∀ x, a.lo ≤ x → x ≤ a.hi → mem i.v4 x) ∧ (∀ a ∈ v6, ∀ x, a.lo ≤ x → x ≤ a.hi → mem i.v6 x) := by
  obtain ⟨cert, hv, _, c4, c6⟩ := (roaProcess_iff digest o v4 v6 i now crlOk hf hi h4 h6).1 h
  obtain ⟨_, _, _, _, _, _, _, hee⟩ := (validateAt_iff digest o i now cert).1 hv
  have hs := (C01.validated_subset o.ee i cert now hf hi (Or.inr hee)).2
  exact ⟨fun a ha x h1 h2 => hs.1 x (c4 a ha x h1 h2), fun a ha x h1 h2 => hs.2.1 x (c6 a ha x h1 h2)⟩


/-! ### signed attributes: exactly one of each, in any order -/

/-- **Attribute order.** The three required attributes are accepted in every one of their six
orders, with the same result (strict and relaxed mode), as long as the parser's own 16-bit size
condition holds. -/
theorem attrs_any_order (strict : Bool) (ct md tc : Bytes) (tag : X509.TimeTag) (st : X509.Civil)
    (hct : oidOk ct = true) (ht : X509.decodeTime tag tc = some st) (l : List Bytes)
    (hperm : l.Perm [attr oidContentType (tlv tagOid ct), attr oidMessageDigest (tlv tagOctetString md),
                     attr oidSigningTime (tlv (timeOctet tag) tc)])
    (hlen : l.flatten.length ≤ 0xFFFF) :
    parseAttrs strict l.flatten = some (ct, md, st) :=
  parseAttrs_any_order_of_length strict ct md tc tag st hct ht l hperm hlen

/-- Leaving out any one of the three is rejected. -/
theorem attrs_missing_rejected (strict : Bool) (ct md tc : Bytes) (tag : X509.TimeTag) (i : Fin 3)
    (l : List Bytes)
    (hperm : l.Perm ([attr oidContentType (tlv tagOid ct), attr oidMessageDigest (tlv tagOctetString md),
                      attr oidSigningTime (tlv (timeOctet tag) tc)].eraseIdx i)) :
    parseAttrs strict l.flatten = none :=
  parseAttrs_missing strict ct md tc tag i l hperm

/-- A second occurrence of content-type, message-digest or signing-time anywhere in the set is
rejected, whatever surrounds it. -/
theorem attrs_duplicate_rejected (strict : Bool) (k : Kind) (pre mid : List Bytes) (v1 v2 post : Bytes)
    (hpre : ∀ b ∈ pre, b.length < 2 ^ 32) (hmid : ∀ b ∈ mid, b.length < 2 ^ 32)
    (h1 : v1.length < 2 ^ 30) (h2 : v2.length < 2 ^ 30) :
    parseAttrs strict ((pre.map (tlv tagSeq)).flatten ++ attr k.oid v1 ++
       (mid.map (tlv tagSeq)).flatten ++ attr k.oid v2 ++ post) = none :=
  parseAttrs_duplicate_attr strict k pre mid v1 v2 post hpre hmid h1 h2

/-- Attribute sets above 65535 octets are rejected at decoding time, so `encode_verify` never
reaches its `panic!`. -/
theorem attrs_too_long_rejected (strict : Bool) (attrs : Bytes) (h : attrs.length > 0xFFFF) :
    parseAttrs strict attrs = none := parseAttrs_too_long strict attrs h

/-- the 128-octet boundary: with the original length bytes (`31 02 00 80 …`) a correct signature
over the DER SET OF (`31 81 80 …`) could not verify; this instance is decided by evaluation -/
example : encodeVerify (List.replicate 128 0) = some (0x31 :: 0x81 :: 128 :: List.replicate 128 0) := by
  simp [encodeVerify, Rpki.Consts.encodeVerifyDerLength, Rpki.Consts.encodeVerifyShort, Rpki.Consts.encodeVerifyMid]

/-! ### the same on octets (strict decoding)

`Model/CmsDer.lean` reads a whole signed object from its octets (tied to `SignedObject::decode`, `Roa` /
`Aspa` / `Manifest::decode` by the `cmsd` operations and by every strict C02 case, whose model verdict is
computed from the octets).  For every octet string that decodes, acceptance implies the conditions of the
statement for what was read from those octets; the inputs left outside are the two verdicts of the
signature primitive and the octets the object's signature was made over. -/
section Octets
open Rpki.CmsDer Rpki.CertDer

theorem accepted_object_octets (b : Bytes) (o : SigObjD) (hb : AllBytes b) (hd : decodeSigObj b = some o)
    (sigKeyOk eeSigOk : Bool) (sigInput : Bytes) (i r : RC) (now : Int) (hi : C01.RC.Canon i)
    (h : validateAt Sha.sha256N (toObj o sigKeyOk sigInput eeSigOk) i now = some r) :
    Sha.sha256N o.content = o.messageDigest ∧ sigKeyOk = true ∧ sigInput = tlv 0x31 o.attrs ∧
    o.sid = o.cert.ski ∧ eeSigOk = true ∧ o.cert.validity.nb ≤ now ∧ now ≤ o.cert.validity.na ∧
    o.cert.aki = some i.ski ∧ o.cert.ski = Sha.sha1N o.cert.keyBits ∧ C01.RC.Canon r ∧ C01.RC.Sub r i := by
  obtain ⟨hpa, cc, rest, hcc, htc⟩ := decodeSigObj_spec b o hb hd
  obtain ⟨md, st, h1, h2, h3, h4, h5, h6⟩ := (validateAt_iff _ _ i now r).1 h
  have hpa' : parseAttrs true o.attrs = some (o.contentType, md, st) := h1
  rw [hpa] at hpa'
  simp only [Option.some.injEq, Prod.mk.injEq] at hpa'
  obtain ⟨_, e1, _⟩ := hpa'
  have hdc : decodeCert cc = some o.cert := by unfold decodeCert; rw [htc]; rfl
  obtain ⟨a1, a2, a3, a4, a5, a6, a7⟩ :=
    C01.accepted_octets cc o.cert hcc hdc true eeSigOk i r now hi (Or.inr h6)
  exact ⟨by rw [e1]; exact h3, h4, h5, h2, a1, a2, a3, a4, a5, a6, a7⟩

/-- any single violation rejects, whatever the octets -/
theorem tampered_object_octets (b : Bytes) (o : SigObjD) (hb : AllBytes b) (hd : decodeSigObj b = some o)
    (sigKeyOk eeSigOk : Bool) (sigInput : Bytes) (i : RC) (now : Int)
    (hbad : sigKeyOk = false ∨ sigInput ≠ tlv 0x31 o.attrs ∨ o.sid ≠ o.cert.ski ∨
            Sha.sha256N o.content ≠ o.messageDigest ∨ eeSigOk = false ∨ now < o.cert.validity.nb ∨
            o.cert.validity.na < now ∨ o.cert.aki ≠ some i.ski ∨ o.cert.ski ≠ Sha.sha1N o.cert.keyBits) :
    validateAt Sha.sha256N (toObj o sigKeyOk sigInput eeSigOk) i now = none := by
  obtain ⟨hpa, _⟩ := decodeSigObj_spec b o hb hd
  apply single_fault_rejects
  rcases hbad with h | h | h | h | h
  · exact Or.inl h
  · exact Or.inr (Or.inl h)
  · exact Or.inr (Or.inr (Or.inl h))
  · refine Or.inr (Or.inr (Or.inr (Or.inl ?_)))
    intro md st hp
    have hp' : parseAttrs true o.attrs = some (o.contentType, md, st) := hp
    rw [hpa] at hp'
    simp only [Option.some.injEq, Prod.mk.injEq] at hp'
    rw [← hp'.2.1]; exact h
  · refine Or.inr (Or.inr (Or.inr (Or.inr ?_)))
    exact (C01.single_fault_rejects (toFacts o.cert false true eeSigOk) i now h).2.1

end Octets

/-! ### from the trust anchor's octets to the ROA's prefixes

The pieces above and C01's chain theorem, put together for a whole validation run on octets: a trust anchor
certificate, any number of CA certificates and a ROA, each given as an octet string and read by the decoder models;
the only inputs from outside are the verdicts of the signature primitive and the evaluation times.  If the run
accepts, every address of every prefix listed in the ROA's eContent lies in the resources the trust anchor's own
octets list. -/
section Pipeline
open Rpki.CmsDer Rpki.CertDer

/-- the coverage check only ever says yes to ranges inside the certificate's resources (no side condition on the
ranges: an empty range has no addresses) -/
theorem roaVerify_covers (v4 v6 : List RoaAddr) (cert : RC) (hc : C01.RC.Canon cert)
    (h : roaVerify v4 v6 cert = true) :
    (∀ a ∈ v4, ∀ x, a.lo ≤ x → x ≤ a.hi → mem cert.v4 x) ∧
    (∀ a ∈ v6, ∀ x, a.lo ≤ x → x ≤ a.hi → mem cert.v6 x) := by
  have fam : ∀ (M : Nat) (l : List RoaAddr) (c : List Blk), Chain.Canon M c →
      (l.isEmpty || (!c.isEmpty && l.all fun a => containsBlock c ⟨a.lo, a.hi⟩)) = true →
        ∀ a ∈ l, ∀ x, a.lo ≤ x → x ≤ a.hi → mem c x := by
    intro M l c hcan hl a ha x h1 h2
    have hne : l.isEmpty = false := by cases l with
      | nil => cases ha
      | cons _ _ => rfl
    simp only [hne, Bool.false_or, Bool.and_eq_true, List.all_eq_true] at hl
    exact (C03.containsBlock_iff M c hcan ⟨a.lo, a.hi⟩ (Nat.le_trans h1 h2)).1 (hl.2 a ha) x h1 h2
  unfold roaVerify at h
  rw [Bool.and_eq_true] at h
  exact ⟨fam maxV4 v4 cert.v4 hc.1 h.1, fam maxV6 v6 cert.v6 hc.2.1 h.2⟩

/-- one CA certificate of the chain as it comes in: octets, what the decoder read, the mode flag of the inspection,
the verdict of its signature check, the evaluation time -/
structure CaInput where
  octets : Bytes
  decoded : Decoded
  strict : Bool
  sigOk : Bool
  now : Int

def CaInput.facts (c : CaInput) : Facts × Int := (toFacts c.decoded false c.strict c.sigOk, c.now)

/-- **Trust anchor → CA* → ROA, on octets.**  Whatever the octets and whatever the signature verdicts: if the
trust anchor validates, the chain validates under it and `Roa::process` accepts the ROA under the last CA, then
every address of every range read from the ROA's content is among the validated resources of the trust anchor,
and those are exactly the blocks read from the trust anchor's octets. -/
theorem roa_octets_within_trust_anchor
    (bta : Bytes) (dta : Decoded) (hbta : AllBytes bta) (hdta : decodeCert bta = some dta)
    (strictTa sigTa : Bool) (t0 : Int)
    (cas : List CaInput) (hcas : ∀ c ∈ cas, AllBytes c.octets ∧ decodeCert c.octets = some c.decoded)
    (b : Bytes) (o : SigObjD) (hb : AllBytes b) (hd : decodeSigObj b = some o)
    (sigKeyOk eeSigOk crlOk : Bool) (sigInput : Bytes) (now : Int)
    (v4 v6 : List RoaAddr) (hr : roaRanges o.content = some (v4, v6))
    (rta rca : RC)
    (h0 : validateTa (toFacts dta false strictTa sigTa) t0 = some rta)
    (h1 : C01.validateChain rta (cas.map CaInput.facts) = some rca)
    (h : roaProcess Sha.sha256N (toObj o sigKeyOk sigInput eeSigOk) v4 v6 rca now crlOk = true) :
    (∀ a ∈ v4, ∀ x, a.lo ≤ x → x ≤ a.hi → mem rta.v4 x) ∧
    (∀ a ∈ v6, ∀ x, a.lo ≤ x → x ≤ a.hi → mem rta.v6 x) ∧
    fromResources (toFacts dta false strictTa sigTa).v4 = some rta.v4 ∧
    fromResources (toFacts dta false strictTa sigTa).v6 = some rta.v6 := by
  have _ := hr
  have cta := C01.claimsCanon_of_octets bta dta hbta hdta false strictTa sigTa
  have c0 := C01.validateTa_canon _ t0 rta cta h0
  have hfs : ∀ p ∈ cas.map CaInput.facts, C01.ClaimsCanon p.1 := by
    intro p hp
    rw [List.mem_map] at hp
    obtain ⟨c, hc, rfl⟩ := hp
    exact C01.claimsCanon_of_octets c.octets c.decoded (hcas c hc).1 (hcas c hc).2 false c.strict c.sigOk
  have s1 := C01.chain_monotone _ rta rca c0 hfs h1
  -- the EE certificate inside the object
  obtain ⟨_, cc, rest, hcc, htc⟩ := decodeSigObj_spec b o hb hd
  have hdc : decodeCert cc = some o.cert := by unfold decodeCert; rw [htc]; rfl
  have cee : C01.ClaimsCanon (toObj o sigKeyOk sigInput eeSigOk).ee :=
    C01.claimsCanon_of_octets cc o.cert hcc hdc false true eeSigOk
  unfold roaProcess at h
  cases hv : validateAt Sha.sha256N (toObj o sigKeyOk sigInput eeSigOk) rca now with
  | none => simp [hv] at h
  | some cert =>
    simp only [hv, Bool.and_eq_true] at h
    obtain ⟨_, _, _, _, _, _, _, hee⟩ := (validateAt_iff _ _ rca now cert).1 hv
    have s2 := C01.validated_subset _ rca cert now cee s1.1 (Or.inr hee)
    obtain ⟨c4, c6⟩ := roaVerify_covers v4 v6 cert s2.1 h.2
    obtain ⟨_, _, _, _, _, _, _, r4, r6, _⟩ := C01.validateTa_sound _ t0 rta h0
    exact ⟨fun a ha x x1 x2 => s1.2.1 x (s2.2.1 x (c4 a ha x x1 x2)),
           fun a ha x x1 x2 => s1.2.2.1 x (s2.2.2.1 x (c6 a ha x x1 x2)), r4, r6⟩

/-- **Trust anchor → CA* → ASPA, on octets.**  The customer AS read from an accepted ASPA's content is among the AS
resources read from the trust anchor's octets; the ASPA's EE certificate carries no IP resources and does not inherit
its AS resources. -/
theorem aspa_octets_within_trust_anchor
    (bta : Bytes) (dta : Decoded) (hbta : AllBytes bta) (hdta : decodeCert bta = some dta)
    (strictTa sigTa : Bool) (t0 : Int)
    (cas : List CaInput) (hcas : ∀ c ∈ cas, AllBytes c.octets ∧ decodeCert c.octets = some c.decoded)
    (b : Bytes) (o : SigObjD) (hb : AllBytes b) (hd : decodeSigObj b = some o)
    (sigKeyOk eeSigOk crlOk : Bool) (sigInput : Bytes) (now : Int)
    (a : Roa.Aspa) (ha : Roa.decodeAspa Rpki.Consts.aspaObjMaxLen o.content = some a)
    (rta rca : RC)
    (h0 : validateTa (toFacts dta false strictTa sigTa) t0 = some rta)
    (h1 : C01.validateChain rta (cas.map CaInput.facts) = some rca)
    (h : aspaProcess Sha.sha256N (toObj o sigKeyOk sigInput eeSigOk) a.customer rca now crlOk = true) :
    mem rta.asn a.customer ∧ fromResources (toFacts dta false strictTa sigTa).asn = some rta.asn ∧
    (toFacts o.cert false true eeSigOk).asn ≠ .inherit ∧
    (toFacts o.cert false true eeSigOk).v4 = .missing ∧ (toFacts o.cert false true eeSigOk).v6 = .missing := by
  have _ := ha
  have cta := C01.claimsCanon_of_octets bta dta hbta hdta false strictTa sigTa
  have c0 := C01.validateTa_canon _ t0 rta cta h0
  have hfs : ∀ p ∈ cas.map CaInput.facts, C01.ClaimsCanon p.1 := by
    intro p hp
    rw [List.mem_map] at hp
    obtain ⟨c, hc, rfl⟩ := hp
    exact C01.claimsCanon_of_octets c.octets c.decoded (hcas c hc).1 (hcas c hc).2 false c.strict c.sigOk
  have s1 := C01.chain_monotone _ rta rca c0 hfs h1
  obtain ⟨_, cc, rest, hcc, htc⟩ := decodeSigObj_spec b o hb hd
  have hdc : decodeCert cc = some o.cert := by unfold decodeCert; rw [htc]; rfl
  have cee : C01.ClaimsCanon (toObj o sigKeyOk sigInput eeSigOk).ee :=
    C01.claimsCanon_of_octets cc o.cert hcc hdc false true eeSigOk
  unfold aspaProcess at h
  cases hv : validateAt Sha.sha256N (toObj o sigKeyOk sigInput eeSigOk) rca now with
  | none => simp [hv] at h
  | some cert =>
    simp only [hv, Bool.and_eq_true] at h
    obtain ⟨_, _, _, _, _, _, _, hee⟩ := (validateAt_iff _ _ rca now cert).1 hv
    have s2 := C01.validated_subset _ rca cert now cee s1.1 (Or.inr hee)
    obtain ⟨m1, m2, m3, m4⟩ := (aspaVerify_iff a.customer _ cert s2.1).1 h.2
    obtain ⟨_, _, _, _, _, _, _, _, _, ra⟩ := C01.validateTa_sound _ t0 rta h0
    exact ⟨s1.2.2.2 _ (s2.2.2.2 _ m1), ra, m2, m3, m4⟩

end Pipeline

/-! ### the same in either decoding mode

Relying parties may decode signed objects in relaxed (BER) mode (`strict = false`).  `decodeSigObjM ber` is the
mode-parametrized decoder (`Gen/BerModel.lean`; `ber = false` is `decodeSigObj`, a theorem), tied to the library by
the `sor` / `roar` operations (objects re-written with BER's liberties outside the signed octets) and by `cmsdr`. -/
section EitherMode
open Rpki.CmsDer Rpki.CertDer

/-- what the strict attribute reader reads, the reader of either mode reads -/
theorem parseAttrs_any_mode (ber strict : Bool) (attrs : Bytes) (x : Bytes × Bytes × X509.Civil)
    (h : parseAttrs strict attrs = some x) : SigObj.parseAttrsM ber strict attrs = some x := by
  cases ber with
  | false => rw [SigObj.parseAttrsM_false]; exact h
  | true => rw [SigObj.parseAttrs_monoEq strict attrs (by simp [h])]; exact h

theorem claimsCanon_of_octets_either_mode (ber : Bool) (b : List Nat) (d : Decoded) (hb : AllBytes b)
    (h : decodeCertM ber b = some d) (router strict sigOk : Bool) :
    C01.ClaimsCanon (toFactsM ber d router strict sigOk) := by
  obtain ⟨h4, h6, ha⟩ := decodeCert_canonM ber b d hb h
  refine ⟨?_, ?_, ?_⟩
  · intro c hc
    have := shiftV4_canon d.v4 h4
    show Canon (2 ^ 32 - 1) c
    have e : shiftV4 d.v4 = .blocks c := hc
    rw [e] at this; exact this
  · intro c hc
    have e : d.v6 = .blocks c := hc
    rw [e] at h6; exact h6
  · intro c hc
    have e : d.asn = .blocks c := hc
    rw [e] at ha; exact ha

/-- **Signed objects decoded in either mode.** Acceptance implies every condition of the statement for what was read
from the octets: digest, signature input, signer identifier, and for the embedded EE certificate the positive signature
verdict, the window, the key identifiers, and validated resources that are canonical and contained in the issuer's. -/
theorem accepted_object_octets_either_mode (ber : Bool) (b : Bytes) (o : SigObjD) (hb : AllBytes b)
    (hd : decodeSigObjM ber b = some o)
    (sigKeyOk eeSigOk : Bool) (sigInput : Bytes) (i r : RC) (now : Int) (hi : C01.RC.Canon i)
    (h : validateAt Sha.sha256N (toObjM ber o sigKeyOk sigInput eeSigOk) i now = some r) :
    Sha.sha256N o.content = o.messageDigest ∧ sigKeyOk = true ∧ sigInput = tlv 0x31 o.attrs ∧
    o.sid = o.cert.ski ∧ eeSigOk = true ∧ o.cert.validity.nb ≤ now ∧ now ≤ o.cert.validity.na ∧
    o.cert.aki = some i.ski ∧ o.cert.ski = Sha.sha1N o.cert.keyBits ∧ C01.RC.Canon r ∧ C01.RC.Sub r i := by
  obtain ⟨hpa, cc, rest, hcc, htc⟩ := decodeSigObj_specM ber b o hb hd
  obtain ⟨md, st, h1, h2, h3, h4, h5, h6⟩ := (validateAt_iff _ _ i now r).1 h
  have hpa' : SigObj.parseAttrsM ber true o.attrs = some (o.contentType, md, st) :=
    parseAttrs_any_mode ber true o.attrs _ h1
  rw [hpa] at hpa'
  simp only [Option.some.injEq, Prod.mk.injEq] at hpa'
  obtain ⟨_, e1, _⟩ := hpa'
  have hdc : decodeCertM ber cc = some o.cert := by unfold decodeCertM; rw [htc]; rfl
  have hc := claimsCanon_of_octets_either_mode ber cc o.cert hcc hdc false true eeSigOk
  have hs := C01.validated_subset _ i r now hc hi (Or.inr h6)
  obtain ⟨a1, a2, a3, a4, a5⟩ := C01.validateEe_sound _ i now r h6
  exact ⟨by rw [e1]; exact h3, h4, h5, h2, a1, a2, a3, a4, a5, hs.1, hs.2⟩

end EitherMode

/-! ### exactly when, on octets (strict decoding) -/
section Iff
open Rpki.CmsDer Rpki.CertDer

/-- **A decoded signed object validates exactly when** the digest attribute read from the octets is the SHA-256 of the
content, the signature was made with the EE key over the DER SET OF the signed attributes, the signer identifier is the
EE certificate's subject key identifier, and the EE certificate read from the octets validates under the issuer (C01)
with the same validated resources. -/
theorem object_octets_accepted_iff (b : Bytes) (o : SigObjD) (hb : AllBytes b) (hd : decodeSigObj b = some o)
    (sigKeyOk eeSigOk : Bool) (sigInput : Bytes) (i r : RC) (now : Int) :
    validateAt Sha.sha256N (toObj o sigKeyOk sigInput eeSigOk) i now = some r ↔
    (Sha.sha256N o.content = o.messageDigest ∧ sigKeyOk = true ∧ sigInput = tlv 0x31 o.attrs ∧ o.sid = o.cert.ski ∧
     validateEe (toFacts o.cert false true eeSigOk) i now = some r) := by
  obtain ⟨hpa, _⟩ := decodeSigObj_spec b o hb hd
  rw [validateAt_iff]
  constructor
  · rintro ⟨md, st, h1, h2, h3, h4, h5, h6⟩
    have hpa' : parseAttrs true o.attrs = some (o.contentType, md, st) := h1
    rw [hpa] at hpa'
    simp only [Option.some.injEq, Prod.mk.injEq] at hpa'
    exact ⟨by rw [hpa'.2.1]; exact h3, h4, h5, h2, h6⟩
  · rintro ⟨h1, h2, h3, h4, h5⟩
    exact ⟨o.messageDigest, o.signingTime, hpa, h4, h1, h2, h3, h5⟩

end Iff

end Rpki.Props.C02
