/-
  C04 — decoders never panic or run away.

  What a theorem can carry here is the repository's own reasoning behind its `unwrap()`,
  `panic!` and arithmetic sites; panic-freedom of bcder, quick-xml and aws-lc on arbitrary octets
  is not modelled (it is explored by the differential fuzz run of the check).  The theorems below
  are the guard lemmas, each about a model tied to the code by another property's correspondence.
-/
import Rpki.Props.C14
import Rpki.Props.C02
import Rpki.Props.C03
import Rpki.Proofs.DerLemmas
import Rpki.Proofs.CrlDerLemmas
import Rpki.Proofs.CmsDerLemmas
import Rpki.Proofs.SkipLemmas
import Rpki.Props.C05
namespace Rpki.Props.C04
set_option autoImplicit false
open Rpki.Der
abbrev Bytes := List Nat

/-- **Manifest file list (`FileListIter::next` unwraps).** Whatever octets were captured at
decoding time, the later iteration never fails: the skipping pass and the taking pass decide
identically. -/
theorem manifest_iter_cannot_panic (b : Bytes) (m : Manifest.Content) (h : Manifest.decodeContent b = some m) :
    ∃ es, m.iter = some es ∧ es.length = m.len := by
  obtain ⟨es, h1, h2, _⟩ := C14.len_eq_iter b m h
  exact ⟨es, h1, h2⟩

/-- **Manifest URIs (`iter_uris` unwraps `join`).** -/
theorem manifest_uris_cannot_panic (b : Bytes) (m : Manifest.Content) (base : Uri.Rsync)
    (h : Manifest.decodeContent b = some m) : ∃ us, Manifest.iterUris m base = some us := by
  obtain ⟨_, us, _, h2, _⟩ := C14.iterUris_inside b m base h
  exact ⟨us, h2⟩

/-- **`SignedAttrs::encode_verify` (`panic!("overly long signed attrs")`).** The parser rejects
attribute sets above 65535 octets, so for every decoded object the verification input exists. -/
theorem encode_verify_cannot_panic (strict : Bool) (attrs ct md : Bytes) (st : X509.Civil)
    (h : SigObj.parseAttrs strict attrs = some (ct, md, st)) :
    ∃ msg, SigObj.encodeVerify attrs = some msg :=
  ⟨_, C02.encodeVerify_is_der attrs (C02.parseAttrs_len h)⟩

/-- **`asn_count`.** Total (never overflows) and saturating. -/
theorem asn_count_total (c : List Chain.Blk) : ∃ n, Chain.asnCount c = some n ∧ n ≤ 4294967295 :=
  ⟨_, C03.asnCount_spec c, Nat.min_le_left _ _⟩

/-- **ROA prefixes, ASPA providers, CRL entries (`…Iter::next` / `contains` unwrap).** These three
capturing decoders run a counting pass that calls an item reader and an extra check, and later
iterate the captured octets with the *same* item reader (the source anchors `roaIterUsesTake`,
`aspaIterUsesTake`, `crlIterUsesTake` are re-read on every run).  For every item reader and every
check: if the counting pass accepted, the iteration cannot fail, yields exactly as many items, and
every item passed the check. -/
theorem capture_iterate_parity {α : Type} (take : Bytes → Take α) (check : α → Bool) :
    ∀ (fuel : Nat) (b : Bytes) (n k : Nat), capturePass take check fuel b n = some k →
      ∃ items, iteratePass take fuel b = some items ∧ items.length + n = k ∧ ∀ a ∈ items, check a = true :=
  Der.capture_iterate_parity take check


/-- **Bounded consumption.** A value read by the TLV layer lies inside the input: header, content
and rest partition it, so nested decoding works on strictly shorter inputs and terminates. -/
theorem readTlv_partition (b : Bytes) (t : Nat) (c rest : Bytes) (h : readTlv b = some (t, c, rest)) :
    ∃ hdr, b = hdr ++ c ++ rest ∧ 2 ≤ hdr.length ∧ hdr.length ≤ 6 := by
  unfold readTlv at h
  cases b with
  | nil => cases h
  | cons t0 r =>
    simp only at h
    split at h
    · cases h
    · cases hl : readLen r with
      | none => simp [hl] at h
      | some p =>
        obtain ⟨l, r'⟩ := p
        simp only [hl] at h
        split at h
        · cases h
        · injection h with h; injection h with h1 h; injection h with h2 h3
          subst h1 h2 h3
          -- the length octets are a prefix of `r` ending where `r'` starts
          have key : ∃ lb, r = lb ++ r' ∧ 1 ≤ lb.length ∧ lb.length ≤ 5 := by
            unfold readLen at hl
            cases r with
            | nil => cases hl
            | cons n rr =>
              simp only at hl
              split at hl
              · injection hl with hl; injection hl with _ e; subst e; exact ⟨[n], rfl, by simp, by simp⟩
              · split at hl
                · cases rr with
                  | nil => cases hl
                  | cons a r2 =>
                    simp only at hl; split at hl
                    · injection hl with hl; injection hl with _ e; subst e; exact ⟨[n, a], rfl, by simp, by simp⟩
                    · cases hl
                · split at hl
                  · match rr, hl with
                    | a :: b2 :: r2, hl =>
                      simp only at hl; split at hl
                      · injection hl with hl; injection hl with _ e; subst e; exact ⟨[n, a, b2], rfl, by simp, by simp⟩
                      · cases hl
                    | [], hl => cases hl
                    | [_], hl => cases hl
                  · split at hl
                    · match rr, hl with
                      | a :: b2 :: c2 :: r2, hl =>
                        simp only at hl; split at hl
                        · injection hl with hl; injection hl with _ e; subst e; exact ⟨[n, a, b2, c2], rfl, by simp, by simp⟩
                        · cases hl
                      | [], hl => cases hl
                      | [_], hl => cases hl
                      | [_, _], hl => cases hl
                    · split at hl
                      · match rr, hl with
                        | a :: b2 :: c2 :: d2 :: r2, hl =>
                          simp only at hl; split at hl
                          · injection hl with hl; injection hl with _ e; subst e
                            exact ⟨[n, a, b2, c2, d2], rfl, by simp, by simp⟩
                          · cases hl
                        | [], hl => cases hl
                        | [_], hl => cases hl
                        | [_, _], hl => cases hl
                        | [_, _, _], hl => cases hl
                      · cases hl
          obtain ⟨lb, e, h1, h2⟩ := key
          refine ⟨t0 :: lb, ?_, by simp; omega, by simp; omega⟩
          rw [e]; simp [List.take_append_drop]

/-! ### the `unwrap()` sites behind the decoders, for every octet string

The decoder models of `Model/CrlDer.lean`, `Model/SigMsgDer.lean` and `Model/CmsDer.lean` are tied to
`Crl::decode`, `SignedMessage::decode` and `SignedObject::decode` (strict) by the `crld` / `smsgd` /
`cmsd` operations.  Whatever octets they accept, the later walks over the captured parts cannot fail. -/

/-- **`Crl::contains` / `RevokedCertificates::iter` after `Crl::decode`.** -/
theorem crl_octets_lookup_cannot_panic (b : Bytes) (d : CrlDer.CrlD) (h : CrlDer.decodeCrl b = some d)
    (serial : Bytes) :
    ∃ es, Crl.entries d.revoked = some es ∧
      Crl.contains d.revoked serial = some (decide (∃ e ∈ es, e.serial = serial)) := by
  obtain ⟨n, hn⟩ := CrlDer.decodeCrl_revoked b d h
  obtain ⟨es, h1, _, h2⟩ := C05.crl_lookup_agrees_with_iteration d.revoked n hn serial
  exact ⟨es, h1, h2⟩

/-- **`SignedMessageCrl::verify_not_revoked` after `SignedMessage::decode`** (the module's own entry reader,
which tolerates entry extensions). -/
theorem sigmsg_octets_revocation_check_cannot_panic (b : Bytes) (m : SigMsgDer.SigMsgD)
    (h : SigMsgDer.decodeSigMsg b = some m) :
    ∃ l, SigMsgDer.msgRevokedSerials m.crl.revoked = some l := by
  obtain ⟨n, hn⟩ := SigMsgDer.decodeSigMsg_revoked b m h
  obtain ⟨items, hi, _, _⟩ :=
    capture_iterate_parity SigMsgDer.takeOptMsgEntry (fun _ => true) m.crl.revoked.length m.crl.revoked 0 n hn
  exact ⟨items.map (·.serial), by unfold SigMsgDer.msgRevokedSerials; rw [hi]; rfl⟩

/-- **`SignedAttrs::encode_verify` after `SignedObject::decode` / `SignedMessage::decode`.** -/
theorem encode_verify_octets_cannot_panic (b : Bytes) (hb : AllBytes b) :
    (∀ o, CmsDer.decodeSigObj b = some o → ∃ msg, SigObj.encodeVerify o.attrs = some msg) ∧
    (∀ m, SigMsgDer.decodeSigMsg b = some m → ∃ msg, SigObj.encodeVerify m.attrs = some msg) := by
  refine ⟨?_, ?_⟩
  · intro o h
    obtain ⟨hp, _⟩ := CmsDer.decodeSigObj_spec b o hb h
    exact encode_verify_cannot_panic true o.attrs _ _ _ hp
  · intro m h
    obtain ⟨c, d, st, hp⟩ := SigMsgDer.decodeSigMsg_attrs b m h
    exact encode_verify_cannot_panic false m.attrs _ _ _ hp

/-! ### bcder's recursive skipping (`capture_one`, `skip_one`, `skip_all`) -/

/-- **Bounded consumption.** Whatever the skip machine accepts, it leaves a proper suffix of the content
it was called on: at least one header (two octets) is consumed and nothing outside the enclosing value is
touched — also with nested indefinite-length values, which it admits in DER mode. -/
theorem skip_machine_bounded (b rest : Bytes) (h : CertDer.skipOne b = some rest) :
    rest <:+ b ∧ rest.length + 2 ≤ b.length := CertDer.skipOne_suffix b rest h

/-- **The model's loop counter never decides.** More fuel changes nothing: a refusal by the model of the
skip machine is a refusal of the input (so a disagreement with the library cannot hide behind the counter). -/
theorem skip_machine_fuel_never_binds (b : Bytes) (k : Nat) :
    CertDer.skipLoop (b.length + 1 + k) b [] = CertDer.skipOne b := CertDer.skipOne_fuel b k

end Rpki.Props.C04
