/-
  C04 — decoders never panic or run away.

  What a theorem can carry here is the repository's own reasoning behind its `unwrap()`,
  `panic!` and arithmetic sites; panic-freedom of bcder, quick-xml and aws-lc on arbitrary octets
  is not modelled (it is explored by the differential fuzz run of the check).  The theorems below
  are the guard lemmas, each about a model tied to the code by another property's correspondence.
-/
import Rpki.Props.C14
import Rpki.Props.C02
import Rpki.Props.C03
import Rpki.Proofs.DerLemmas
import Rpki.Proofs.CrlDerLemmas
import Rpki.Proofs.CmsDerLemmas
import Rpki.Proofs.SkipLemmas
import Rpki.Props.C05
import Rpki.Proofs.RtaDerLemmas
import Rpki.Proofs.TalLemmas
import Rpki.Gen.BerEq
import Rpki.Proofs.BerMono
import Rpki.Gen.BerLemmas
import Rpki.Gen.BerLemmas2
import Rpki.Gen.BerMonoGen
import Rpki.Proofs.FuelFree
namespace Rpki.Props.C04
set_option autoImplicit false
open Rpki.Der
abbrev Bytes := List Nat

/-- **Manifest file list (`FileListIter::next` unwraps).** Whatever octets were captured at
decoding time, the later iteration never fails: the skipping pass and the taking pass decide
identically. -/
theorem manifest_iter_cannot_panic (b : Bytes) (m : Manifest.Content) (h : Manifest.decodeContent b = some m) :
    ∃ es, m.iter = some es ∧ es.length = m.len := by
  obtain ⟨es, h1, h2, _⟩ := C14.len_eq_iter b m h
  exact ⟨es, h1, h2⟩

/-- **Manifest URIs (`iter_uris` unwraps `join`).** -/
theorem manifest_uris_cannot_panic (b : Bytes) (m : Manifest.Content) (base : Uri.Rsync)
    (h : Manifest.decodeContent b = some m) : ∃ us, Manifest.iterUris m base = some us := by
  obtain ⟨_, us, _, h2, _⟩ := C14.iterUris_inside b m base h
  exact ⟨us, h2⟩

/-- **`SignedAttrs::encode_verify` (`panic!("overly long signed attrs")`).** The parser rejects
attribute sets above 65535 octets, so for every decoded object the verification input exists. -/
theorem encode_verify_cannot_panic (strict : Bool) (attrs ct md : Bytes) (st : X509.Civil)
    (h : SigObj.parseAttrs strict attrs = some (ct, md, st)) :
    ∃ msg, SigObj.encodeVerify attrs = some msg :=
  ⟨_, C02.encodeVerify_is_der attrs (C02.parseAttrs_len h)⟩

/-- **`asn_count`.** Total (never overflows) and saturating. -/
theorem asn_count_total (c : List Chain.Blk) : ∃ n, Chain.asnCount c = some n ∧ n ≤ 4294967295 :=
  ⟨_, C03.asnCount_spec c, Nat.min_le_left _ _⟩

/-- **ROA prefixes, ASPA providers, CRL entries (`…Iter::next` / `contains` unwrap).** These three
capturing decoders run a counting pass that calls an item reader and an extra check, and later
iterate the captured octets with the *same* item reader (the source anchors `roaIterUsesTake`,
`aspaIterUsesTake`, `crlIterUsesTake` are re-read on every run).  For every item reader and every
check: if the counting pass accepted, the iteration cannot fail, yields exactly as many items, and
every item passed the check. -/
theorem capture_iterate_parity {α : Type} (take : Bytes → Take α) (check : α → Bool) :
    ∀ (fuel : Nat) (b : Bytes) (n k : Nat), capturePass take check fuel b n = some k →
      ∃ items, iteratePass take fuel b = some items ∧ items.length + n = k ∧ ∀ a ∈ items, check a = true :=
  Der.capture_iterate_parity take check


/-- **Bounded consumption.** A value read by the TLV layer lies inside the input: header, content
and rest partition it, so nested decoding works on strictly shorter inputs and terminates. -/
theorem readTlv_partition (b : Bytes) (t : Nat) (c rest : Bytes) (h : readTlv b = some (t, c, rest)) :
    ∃ hdr, b = hdr ++ c ++ rest ∧ 2 ≤ hdr.length ∧ hdr.length ≤ 6 := by
  unfold readTlv at h
  cases b with
  | nil => cases h
  | cons t0 r =>
    simp only at h
    split at h
    · cases h
    · cases hl : readLen r with
      | none => simp [hl] at h
      | some p =>
        obtain ⟨l, r'⟩ := p
        simp only [hl] at h
        split at h
        · cases h
        · injection h with h; injection h with h1 h; injection h with h2 h3
          subst h1 h2 h3
          -- the length octets are a prefix of `r` ending where `r'` starts
          have key : ∃ lb, r = lb ++ r' ∧ 1 ≤ lb.length ∧ lb.length ≤ 5 := by
            unfold readLen at hl
            cases r with
            | nil => cases hl
            | cons n rr =>
              simp only at hl
              split at hl
              · injection hl with hl; injection hl with _ e; subst e; exact ⟨[n], rfl, by simp, by simp⟩
              · split at hl
                · cases rr with
                  | nil => cases hl
                  | cons a r2 =>
                    simp only at hl; split at hl
                    · injection hl with hl; injection hl with _ e; subst e; exact ⟨[n, a], rfl, by simp, by simp⟩
                    · cases hl
                · split at hl
                  · match rr, hl with
                    | a :: b2 :: r2, hl =>
                      simp only at hl; split at hl
                      · injection hl with hl; injection hl with _ e; subst e; exact ⟨[n, a, b2], rfl, by simp, by simp⟩
                      · cases hl
                    | [], hl => cases hl
                    | [_], hl => cases hl
                  · split at hl
                    · match rr, hl with
                      | a :: b2 :: c2 :: r2, hl =>
                        simp only at hl; split at hl
                        · injection hl with hl; injection hl with _ e; subst e; exact ⟨[n, a, b2, c2], rfl, by simp, by simp⟩
                        · cases hl
                      | [], hl => cases hl
                      | [_], hl => cases hl
                      | [_, _], hl => cases hl
                    · split at hl
                      · match rr, hl with
                        | a :: b2 :: c2 :: d2 :: r2, hl =>
                          simp only at hl; split at hl
                          · injection hl with hl; injection hl with _ e; subst e
                            exact ⟨[n, a, b2, c2, d2], rfl, by simp, by simp⟩
                          · cases hl
                        | [], hl => cases hl
                        | [_], hl => cases hl
                        | [_, _], hl => cases hl
                        | [_, _, _], hl => cases hl
                      · cases hl
          obtain ⟨lb, e, h1, h2⟩ := key
          refine ⟨t0 :: lb, ?_, by simp; omega, by simp; omega⟩
          rw [e]; simp [List.take_append_drop]

/-! ### the `unwrap()` sites behind the decoders, for every octet string

The decoder models of `Model/CrlDer.lean`, `Model/SigMsgDer.lean` and `Model/CmsDer.lean` are tied to
`Crl::decode`, `SignedMessage::decode` and `SignedObject::decode` (strict) by the `crld` / `smsgd` /
`cmsd` operations.  Whatever octets they accept, the later walks over the captured parts cannot fail. -/

/-- **`Crl::contains` / `RevokedCertificates::iter` after `Crl::decode`.** -/
theorem crl_octets_lookup_cannot_panic (b : Bytes) (d : CrlDer.CrlD) (h : CrlDer.decodeCrl b = some d)
    (serial : Bytes) :
    ∃ es, Crl.entries d.revoked = some es ∧
      Crl.contains d.revoked serial = some (decide (∃ e ∈ es, e.serial = serial)) := by
  obtain ⟨n, hn⟩ := CrlDer.decodeCrl_revoked b d h
  obtain ⟨es, h1, _, h2⟩ := C05.crl_lookup_agrees_with_iteration d.revoked n hn serial
  exact ⟨es, h1, h2⟩

/-- **`SignedMessageCrl::verify_not_revoked` after `SignedMessage::decode`** (the module's own entry reader,
which tolerates entry extensions). -/
theorem sigmsg_octets_revocation_check_cannot_panic (b : Bytes) (m : SigMsgDer.SigMsgD)
    (h : SigMsgDer.decodeSigMsg b = some m) :
    ∃ l, SigMsgDer.msgRevokedSerials m.crl.revoked = some l := by
  obtain ⟨n, hn⟩ := SigMsgDer.decodeSigMsg_revoked b m h
  obtain ⟨items, hi, _, _⟩ :=
    capture_iterate_parity SigMsgDer.takeOptMsgEntry (fun _ => true) m.crl.revoked.length m.crl.revoked 0 n hn
  exact ⟨items.map (·.serial), by unfold SigMsgDer.msgRevokedSerials; rw [hi]; rfl⟩

/-- **`SignedAttrs::encode_verify` after `SignedObject::decode` / `SignedMessage::decode`.** -/
theorem encode_verify_octets_cannot_panic (b : Bytes) (hb : AllBytes b) :
    (∀ o, CmsDer.decodeSigObj b = some o → ∃ msg, SigObj.encodeVerify o.attrs = some msg) ∧
    (∀ m, SigMsgDer.decodeSigMsg b = some m → ∃ msg, SigObj.encodeVerify m.attrs = some msg) := by
  refine ⟨?_, ?_⟩
  · intro o h
    obtain ⟨hp, _⟩ := CmsDer.decodeSigObj_spec b o hb h
    exact encode_verify_cannot_panic true o.attrs _ _ _ hp
  · intro m h
    obtain ⟨c, d, st, hp⟩ := SigMsgDer.decodeSigMsg_attrs b m h
    exact encode_verify_cannot_panic false m.attrs _ _ _ hp

/-! ### bcder's recursive skipping (`capture_one`, `skip_one`, `skip_all`) -/

/-- **Bounded consumption.** Whatever the skip machine accepts, it leaves a proper suffix of the content
it was called on: at least one header (two octets) is consumed and nothing outside the enclosing value is
touched — also with nested indefinite-length values, which it admits in DER mode. -/
theorem skip_machine_bounded (b rest : Bytes) (h : CertDer.skipOne b = some rest) :
    rest <:+ b ∧ rest.length + 2 ≤ b.length := CertDer.skipOne_suffix b rest h

/-- **The model's loop counter never decides.** More fuel changes nothing: a refusal by the model of the
skip machine is a refusal of the input (so a disagreement with the library cannot hide behind the counter). -/
theorem skip_machine_fuel_never_binds (b : Bytes) (k : Nat) :
    CertDer.skipLoop (b.length + 1 + k) b [] = CertDer.skipOne b := CertDer.skipOne_fuel b k

/-! ### the remaining entry points: RTA, CSR, TAL, bare keys

`Model/RtaDer.lean`, `Model/CsrDer.lean` and `Model/Tal.lean` are total functions from octets to a value or a
refusal, compared with the library on every run (`rtad`, `csrd`, `tald`, `keyd`).  What they accept satisfies
what the accessors of the decoded values rely on. -/

/-- **`Rta::decode`**: the attestation's three resource sets are canonical chains and every embedded CRL went
through the counting pass (so `contains` / iteration on it cannot fail). -/
theorem rta_octets_accessors_cannot_fail (b : Bytes) (hb : AllBytes b) (r : RtaDer.RtaD) (h : RtaDer.decodeRta b = some r) :
    Chain.Canon IpDer.maxAddr r.att.v4 ∧ Chain.Canon IpDer.maxAddr r.att.v6 ∧ Chain.Canon AsDer.maxAs r.att.asn ∧
    ∀ d ∈ r.crls, ∃ n, Crl.capture d.revoked = some n :=
  RtaDer.decodeRta_spec b hb r h

/-- **`RpkiCaCsr::decode` / `BgpsecCsr::decode`**: the accessors that unwrap (`basic_ca`, `key_usage`, the SIA
URIs) have their values; a router request's extended key usage names the router purpose. -/
theorem csr_octets_profile (router : Bool) (b : Bytes) (d : CsrDer.CsrD) (h : CsrDer.decodeCsr router b = some d) :
    (router = false → d.basicCa.isSome ∧ d.keyUsage.isSome ∧ d.sia.isSome) ∧ (router = true → d.eku ≠ some false) :=
  CsrDer.decodeCsr_profile router b d h

/-- **`Tal::read_named`**: every URI of an accepted locator is a valid URI of the scheme it is reported under, the
key is one `PublicKey::decode` accepts, and `prefer_https` only reorders. -/
theorem tal_octets_spec (b : Bytes) (uris : List Tal.TalUri) (alg : CertDer.KeyAlg) (unused : Nat) (bits : Bytes)
    (h : Tal.decodeTal b = some (uris, alg, unused, bits)) :
    (∀ u ∈ uris, Tal.UriValid u) ∧ (∃ key, Tal.decodeKey key = some (alg, unused, bits)) ∧
    (Tal.preferHttps uris).Perm uris :=
  ⟨(Tal.decodeTal_spec b uris alg unused bits h).1, (Tal.decodeTal_spec b uris alg unused bits h).2,
   Tal.preferHttps_perm uris⟩

/-! ### relaxed mode (`strict = false`: bcder's BER mode)

`Gen/BerModel.lean` is the octet-level decoder model with the decoding mode as a parameter; it is written from the
text of the DER model by `tools/gen_ber_model.py` over the mode-dependent readers of `Model/Ber.lean` (lengths,
indefinite form, BOOLEAN, BIT STRING, constructed strings, the skip machine) and compared with the library's
`strict = false` entry points on every run (`cmsdr`, `smsgdr`). -/

/-- **The strict decoders are the `ber = false` instance of the mode-parametrized model** — so everything proved
about the DER model is a statement about that instance, and the relaxed decoders run the same text. -/
theorem strict_is_the_der_instance :
    CmsDer.decodeSigObjM false = CmsDer.decodeSigObj ∧ CmsDer.decodeTypedM false = CmsDer.decodeTyped ∧
    SigMsgDer.decodeSigMsgM false = SigMsgDer.decodeSigMsg ∧ CertDer.decodeCertM false = CertDer.decodeCert ∧
    SigMsgDer.decodeIdCertM false = SigMsgDer.decodeIdCert ∧ SigObj.parseAttrsM false = SigObj.parseAttrs ∧
    SigMsgDer.msgRevokedSerialsM false = SigMsgDer.msgRevokedSerials :=
  ⟨CmsDer.decodeSigObjM_false, CmsDer.decodeTypedM_false, SigMsgDer.decodeSigMsgM_false, CertDer.decodeCertM_false,
   SigMsgDer.decodeIdCertM_false, SigObj.parseAttrsM_false, SigMsgDer.msgRevokedSerialsM_false⟩

/-- the mode-dependent readers at `ber = false` are the DER readers -/
theorem readers_at_der :
    Der.readLenM false = Der.readLen ∧ Der.readTlvM false = Der.readTlv ∧ Der.takeOptConsM false = Der.takeOptCons ∧
    Der.takeOptPrimM false = Der.takeOptPrim ∧ CertDer.skipLoopM false = CertDer.skipLoop ∧
    CertDer.takeOptBoolM false = CertDer.takeOptBool ∧ Manifest.bitStringTakeM false = Manifest.bitStringTake :=
  ⟨readLenM_false, readTlvM_false, takeOptConsM_false, takeOptPrimM_false, skipLoopM_false, takeOptBoolM_false,
   bitStringTakeM_false⟩

/-- **`SignedAttrs::encode_verify` after a relaxed-mode decode.** In either mode the attribute parser refuses more
than 65535 octets, so the verification input exists (`panic!("overly long signed attrs")` is unreachable). -/
theorem relaxed_encode_verify_cannot_panic (ber strict : Bool) (attrs ct md : Bytes) (st : X509.Civil)
    (h : SigObj.parseAttrsM ber strict attrs = some (ct, md, st)) :
    ∃ msg, SigObj.encodeVerify attrs = some msg := by
  have hl : attrs.length ≤ 0xFFFF := by
    unfold SigObj.parseAttrsM at h
    split at h
    · cases h
    · split at h
      · cases h
      · omega
  exact ⟨_, C02.encodeVerify_is_der attrs (by omega)⟩

/-- **The relaxed readers only admit more**: whatever a DER reader reads, the BER reader reads as the same value
(lengths, whole values, constructed and primitive values present or absent, the skip machine, BOOLEAN, BIT STRING).
This is the reader level of "every strictly accepted object is accepted in relaxed mode with the same fields";
for whole objects that statement is checked by the correspondence (every seed object through both entry points). -/
theorem der_values_are_read_in_ber :
    (∀ b x, Der.readLen b = some x → Der.readLenM true b = some x) ∧
    (∀ b x, Der.readTlv b = some x → Der.readTlvM true b = some x) ∧
    (∀ tag b c rest, Der.takeOptCons tag b = .ok c rest → Der.takeOptConsM true tag b = .ok c rest) ∧
    (∀ tag b, Der.takeOptCons tag b = .absent → Der.takeOptConsM true tag b = .absent) ∧
    (∀ tag b c rest, Der.takeOptPrim tag b = .ok c rest → Der.takeOptPrimM true tag b = .ok c rest) ∧
    (∀ tag b, Der.takeOptPrim tag b = .absent → Der.takeOptPrimM true tag b = .absent) ∧
    (∀ b rest, CertDer.skipOne b = some rest → CertDer.skipOneM true b = some rest) ∧
    (∀ b x rest, CertDer.takeOptBool b = .ok x rest → CertDer.takeOptBoolM true b = .ok x rest) ∧
    (∀ c x, Manifest.bitStringTake c = some x → Manifest.bitStringTakeM true c = some x) :=
  ⟨readLen_mono, readTlv_mono, takeOptCons_mono, takeOptCons_absent_mono, takeOptPrim_mono, takeOptPrim_absent_mono,
   skipOne_mono, takeOptBool_mono, bitStringTake_mono⟩

/-- **`SignedMessageCrl::verify_not_revoked` and `SignedAttrs::encode_verify` after `SignedMessage::decode` in either
mode** (`ber = true`: `strict = false`).  The lemmas behind this are the DER lemmas restated and re-proved for both
modes by the generator (`Gen/BerLemmas.lean`): the captured revocation list went through the counting pass with the
mode's own entry reader, so the later walk over it with the same reader cannot fail; the signed attributes parse,
with the protocol content type and the returned digest, and are at most 65535 octets. -/
theorem sigmsg_octets_cannot_panic_either_mode (ber : Bool) (b : Bytes) (m : SigMsgDer.SigMsgD)
    (h : SigMsgDer.decodeSigMsgM ber b = some m) :
    (∃ l, SigMsgDer.msgRevokedSerialsM ber m.crl.revoked = some l) ∧
    (∃ st, SigObj.parseAttrsM ber false m.attrs = some (Consts.oidProtocolContentType, m.messageDigest, st)) ∧
    (∃ msg, SigObj.encodeVerify m.attrs = some msg) := by
  obtain ⟨n, hn⟩ := SigMsgDer.decodeSigMsg_revokedM ber b m h
  obtain ⟨items, hi, _, _⟩ :=
    capture_iterate_parity (SigMsgDer.takeOptMsgEntryM ber) (fun _ => true) m.crl.revoked.length m.crl.revoked 0 n hn
  obtain ⟨st, hp⟩ := SigMsgDer.decodeSigMsg_specM ber b m h
  exact ⟨⟨items.map (·.serial), by unfold SigMsgDer.msgRevokedSerialsM; rw [hi]; rfl⟩, ⟨st, hp⟩,
    relaxed_encode_verify_cannot_panic ber false m.attrs _ _ _ hp⟩

/-- **Signed objects (ROA, ASPA, manifest, generic) decoded in either mode**: the signed attributes parse to the
returned content type, digest and signing time, `SignedAttrs::encode_verify` cannot reach its `panic!`, and the
resources of the embedded certificate are canonical chains (what the block iterators, `asn_count` and the coverage
checks rely on).  `Gen/BerLemmas2.lean`: the DER lemmas re-proved for both modes on top of the hand-proved facts that
the mode-parametrized readers hand on octets of their input (`Proofs/BerSub.lean`). -/
theorem sigobj_octets_either_mode (ber : Bool) (b : Bytes) (hb : AllBytes b) (o : CmsDer.SigObjD)
    (h : CmsDer.decodeSigObjM ber b = some o) :
    SigObj.parseAttrsM ber true o.attrs = some (o.contentType, o.messageDigest, o.signingTime) ∧
    (∃ msg, SigObj.encodeVerify o.attrs = some msg) ∧
    CertDer.ClaimCanon IpDer.maxAddr o.cert.v4 ∧ CertDer.ClaimCanon IpDer.maxAddr o.cert.v6 ∧
    CertDer.ClaimCanon AsDer.maxAs o.cert.asn := by
  obtain ⟨hp, cc, rest, hcc, hc⟩ := CmsDer.decodeSigObj_specM ber b o hb h
  exact ⟨hp, relaxed_encode_verify_cannot_panic ber true o.attrs _ _ _ hp, CertDer.takeCert_canonM ber cc o.cert rest hcc hc⟩

/-- the skip machine in either mode: what it accepts leaves a proper suffix, and its loop counter never decides -/
theorem skip_machine_either_mode (ber : Bool) (b : Bytes) :
    (∀ rest, CertDer.skipOneM ber b = some rest → rest <:+ b ∧ rest.length + 2 ≤ b.length) ∧
    (∀ k, CertDer.skipLoopM ber (b.length + 1 + k) b [] = CertDer.skipOneM ber b) :=
  ⟨fun rest h => CertDer.skipOne_suffixM ber b rest h, fun k => CertDer.skipOne_fuelM ber b k⟩

/-! ### bounded work: what a reader hands on is smaller, and the model's loop counters never decide

The implementation's loops carry no counter; they end because every value read is at least two octets long.  The
model's loops carry one (Lean wants the recursion structural).  These theorems show, for either mode, that content and
rest of every value read are together at least two octets shorter than the input — so the work of every loop is
bounded by the length of the input — and that no counter ever runs out: any counter at or above the length gives
the same result, so a refusal, a panic of an `unwrap()` (`none`) or a short list never comes from the counter. -/

theorem readers_hand_on_less (ber : Bool) :
    (∀ tag b c rest, takeOptConsM ber tag b = .ok c rest → c.length + rest.length + 2 ≤ b.length) ∧
    (∀ tag b c rest, takeOptPrimM ber tag b = .ok c rest → c.length + rest.length + 2 ≤ b.length) ∧
    (∀ b t c rest, readTlvM ber b = some (t, c, rest) → c.length + rest.length + 2 ≤ b.length) ∧
    (∀ k cur c rest, CertDer.indefBodyM ber k cur = some (c, rest) → c.length + rest.length + 2 ≤ cur.length) ∧
    (∀ k b v, octetLeavesM ber k b = some v → v.length ≤ b.length) :=
  ⟨AsDer.takeOptConsM_size ber, AsDer.takeOptPrimM_size ber, AsDer.readTlvM_size ber,
   AsDer.indefBodyM_size ber, AsDer.octetLeavesM_size ber⟩

theorem content_loops_never_run_out (ber : Bool) :
    (∀ {σ : Type} (tag : Nat) (f : σ → Bytes → Option σ) (b : Bytes) (s : σ) (k : Nat),
      CertDer.foldConsM ber tag f (b.length + 1 + k) b s = CertDer.foldConsM ber tag f (b.length + 1) b s) ∧
    (∀ {σ : Type} (tag : Nat) (f : σ → Bytes → Option σ) (b : Bytes) (s : σ) (k : Nat),
      CertDer.foldPrimM ber tag f (b.length + 1 + k) b s = CertDer.foldPrimM ber tag f (b.length + 1) b s) ∧
    (∀ (b : Bytes) (k : Nat), CertDer.skipAllM ber (b.length + k) b = CertDer.skipAllM ber b.length b) ∧
    (∀ (b : Bytes) (k : Nat), CertDer.indefBodyM ber (b.length + 1 + k) b = CertDer.indefBodyM ber (b.length + 1) b) ∧
    (∀ (b : Bytes) (k : Nat), octetLeavesM ber (b.length + k) b = octetLeavesM ber b.length b) :=
  ⟨fun tag f b s k => CertDer.foldConsM_fuel_free ber tag f b s k,
   fun tag f b s k => CertDer.foldPrimM_fuel_free ber tag f b s k,
   fun b k => CertDer.skipAllM_fuel ber _ _ b (by omega) (by omega),
   fun b k => CertDer.indefBodyM_fuel ber _ _ b (by omega) (by omega),
   fun b k => CertDer.octetLeavesM_fuel ber _ _ b (by omega) (by omega)⟩

/-- the loops over captured lists (manifest file list, CRL entries, ROA prefixes, ASPA providers, message CRL
entries in either mode): counting pass and iteration alike -/
theorem item_loops_never_run_out :
    (∀ b n k, Manifest.countLoop (b.length + k) b n = Manifest.countLoop b.length b n) ∧
    (∀ b k, Manifest.iterLoop (b.length + k) b = Manifest.iterLoop b.length b) ∧
    (∀ b serial k, Crl.containsLoop (b.length + k) b serial = Crl.containsLoop b.length b serial) ∧
    (∀ b n k check, capturePass Crl.takeOptEntry check (b.length + k) b n = capturePass Crl.takeOptEntry check b.length b n) ∧
    (∀ b k, iteratePass Crl.takeOptEntry (b.length + k) b = iteratePass Crl.takeOptEntry b.length b) ∧
    (∀ b n k check, capturePass Roa.takeOptAddr check (b.length + k) b n = capturePass Roa.takeOptAddr check b.length b n) ∧
    (∀ b k, iteratePass Roa.takeOptAddr (b.length + k) b = iteratePass Roa.takeOptAddr b.length b) ∧
    (∀ b k, iteratePass Roa.takeOptAsn (b.length + k) b = iteratePass Roa.takeOptAsn b.length b) ∧
    (∀ ber b n k check, capturePass (SigMsgDer.takeOptMsgEntryM ber) check (b.length + k) b n =
      capturePass (SigMsgDer.takeOptMsgEntryM ber) check b.length b n) ∧
    (∀ ber b k, iteratePass (SigMsgDer.takeOptMsgEntryM ber) (b.length + k) b =
      iteratePass (SigMsgDer.takeOptMsgEntryM ber) b.length b) :=
  ⟨fun b n k => FuelFree.countLoop_fuel _ _ b n (by omega) (by omega),
   fun b k => FuelFree.iterLoop_fuel _ _ b (by omega) (by omega),
   fun b serial k => FuelFree.containsLoop_fuel serial _ _ b (by omega) (by omega),
   fun b n k check => capturePass_fuel _ check FuelFree.crlEntry_shrinks _ _ b n (by omega) (by omega),
   fun b k => iteratePass_fuel _ FuelFree.crlEntry_shrinks _ _ b (by omega) (by omega),
   fun b n k check => capturePass_fuel _ check FuelFree.roaAddr_shrinks _ _ b n (by omega) (by omega),
   fun b k => iteratePass_fuel _ FuelFree.roaAddr_shrinks _ _ b (by omega) (by omega),
   fun b k => iteratePass_fuel _ FuelFree.aspaAsn_shrinks _ _ b (by omega) (by omega),
   fun ber b n k check => capturePass_fuel _ check (FuelFree.msgEntry_shrinks ber) _ _ b n (by omega) (by omega),
   fun ber b k => iteratePass_fuel _ (FuelFree.msgEntry_shrinks ber) _ _ b (by omega) (by omega)⟩

/-- … and the remaining loops: the RFC 3779 block lists, the ASPA provider check, the ROA address families, the
signed attributes (either mode), the comment and URI lines of a TAL -/
theorem remaining_loops_never_run_out :
    (∀ b k, AsDer.blocksLoop (b.length + k) b = AsDer.blocksLoop b.length b) ∧
    (∀ W b k, IpDer.blocksLoop W (b.length + k) b = IpDer.blocksLoop W b.length b) ∧
    (∀ maxLen customer b last n k, Roa.provLoop maxLen customer (b.length + k) b last n = Roa.provLoop maxLen customer b.length b last n) ∧
    (∀ b v4 v6 k, Roa.famLoop (b.length + k) b v4 v6 = Roa.famLoop b.length b v4 v6) ∧
    (∀ ber strict b p k, SigObj.parseLoopM ber strict (b.length + k) b p = SigObj.parseLoopM ber strict b.length b p) ∧
    (∀ b k, Tal.skipComments (b.length + k) b = Tal.skipComments b.length b) ∧
    (∀ b acc k, Tal.takeUris (b.length + 1 + k) b acc = Tal.takeUris (b.length + 1) b acc) :=
  ⟨fun b k => FuelFree.asBlocksLoop_fuel _ _ b (by omega) (by omega),
   fun W b k => FuelFree.ipBlocksLoop_fuel W _ _ b (by omega) (by omega),
   fun maxLen customer b last n k => FuelFree.provLoop_fuel maxLen customer _ _ b last n (by omega) (by omega),
   fun b v4 v6 k => FuelFree.famLoop_fuel _ _ b v4 v6 (by omega) (by omega),
   fun ber strict b p k => FuelFree.parseLoopM_fuel ber strict _ _ b p (by omega) (by omega),
   fun b k => FuelFree.skipComments_fuel _ _ b (by omega) (by omega),
   fun b acc k => FuelFree.takeUris_fuel _ _ b acc (by omega) (by omega)⟩

/-- a TAL line and what follows it are together one octet (the line feed) shorter than the text -/
theorem tal_lines_shrink (b l r : Bytes) (h : Tal.splitLine b = some (l, r)) : l.length + r.length + 1 = b.length :=
  FuelFree.splitLine_size b l r h

/-- **Relaxed mode extends strict mode.** Every octet string a strict decoder accepts is accepted by the relaxed
decoder with the same result — certificates, signed objects (also with the typed content check), identity
certificates, signed messages, and the walk over a message CRL's revocation list.  48 generated lemmas
(`Gen/BerMonoGen.lean`: for every definition, "the DER side did not refuse → the BER side returns the same"),
on top of the reader-level facts of `der_values_are_read_in_ber`. -/
theorem relaxed_extends_strict :
    (∀ b d, CertDer.decodeCert b = some d → CertDer.decodeCertM true b = some d) ∧
    (∀ b o, CmsDer.decodeSigObj b = some o → CmsDer.decodeSigObjM true b = some o) ∧
    (∀ ty b o, CmsDer.decodeTyped ty b = some o → CmsDer.decodeTypedM true ty b = some o) ∧
    (∀ b d, SigMsgDer.decodeIdCert b = some d → SigMsgDer.decodeIdCertM true b = some d) ∧
    (∀ b m, SigMsgDer.decodeSigMsg b = some m → SigMsgDer.decodeSigMsgM true b = some m) ∧
    (∀ cap l, SigMsgDer.msgRevokedSerials cap = some l → SigMsgDer.msgRevokedSerialsM true cap = some l) := by
  refine ⟨?_, ?_, ?_, ?_, ?_, ?_⟩
  · intro b d h; rw [CertDer.decodeCert_monoEq b (by simp [h]), h]
  · intro b o h; rw [CmsDer.decodeSigObj_monoEq b (by simp [h]), h]
  · intro ty b o h; rw [CmsDer.decodeTyped_monoEq ty b (by simp [h]), h]
  · intro b d h; rw [SigMsgDer.decodeIdCert_monoEq b (by simp [h]), h]
  · intro b m h; rw [SigMsgDer.decodeSigMsg_monoEq b (by simp [h]), h]
  · intro cap l h; rw [SigMsgDer.msgRevokedSerials_monoEq cap (by simp [h]), h]

/-- **Manifests, ROAs and ASPAs decoded in either mode** (`Manifest::decode`, `Roa::decode`, `Aspa::decode` with
`strict` true or false): the content was accepted by the content decoder — which runs in DER mode whatever the
envelope's mode — so the file list, the prefix lists and the provider set can be walked without failure
(`FileListIter`, `iter_uris`, `RoaIpAddressIter`, `ProviderAsIter` and their `unwrap()`s). -/
theorem typed_objects_accessors_either_mode (ber : Bool) (b : Bytes) (o : CmsDer.SigObjD) (base : Uri.Rsync) :
    (CmsDer.decodeTypedM ber "mft" b = some o →
      ∃ m es us, Manifest.decodeContent o.content = some m ∧ m.iter = some es ∧ es.length = m.len ∧
        Manifest.iterUris m base = some us ∧ us.length = m.len) ∧
    (CmsDer.decodeTypedM ber "roa" b = some o →
      ∃ c l4 l6, Roa.decodeContent o.content = some c ∧ Roa.iter c.v4 = some l4 ∧ Roa.iter c.v6 = some l6) ∧
    (CmsDer.decodeTypedM ber "aspa" b = some o →
      ∃ a ps, Roa.decodeAspa Consts.aspaObjMaxLen o.content = some a ∧ Roa.iterProviders a.providers = some ps ∧
        ps.length = a.count) := by
  have e1 : ("mft" = "roa") = False := by decide
  have e2 : ("mft" = "aspa") = False := by decide
  have e3 : ("aspa" = "roa") = False := by decide
  refine ⟨?_, ?_, ?_⟩
  · intro h
    unfold CmsDer.decodeTypedM at h
    cases hd : CmsDer.decodeSigObjM ber b with
    | none => simp [hd] at h
    | some o' =>
      simp only [hd, e1, e2, if_false, if_true] at h
      split at h
      · rename_i hc
        injection h with h; subst h
        cases hm : Manifest.decodeContent o'.content with
        | none => rw [hm] at hc; simp at hc
        | some m =>
          obtain ⟨es, h1, h2, _⟩ := C14.len_eq_iter _ m hm
          obtain ⟨es', us, g1, g2, g3, _, _⟩ := C14.iterUris_inside _ m base hm
          exact ⟨m, es, us, rfl, h1, h2, g2, g3⟩
      · cases h
  · intro h
    unfold CmsDer.decodeTypedM at h
    cases hd : CmsDer.decodeSigObjM ber b with
    | none => simp [hd] at h
    | some o' =>
      simp only [hd, if_true] at h
      split at h
      · rename_i hc
        injection h with h; subst h
        cases hm : Roa.decodeContent o'.content with
        | none => rw [hm] at hc; simp at hc
        | some c =>
          obtain ⟨l4, l6, h4, h6, _⟩ := C05.roa_decoded_iterates _ c hm
          exact ⟨c, l4, l6, rfl, h4, h6⟩
      · cases h
  · intro h
    unfold CmsDer.decodeTypedM at h
    cases hd : CmsDer.decodeSigObjM ber b with
    | none => simp [hd] at h
    | some o' =>
      simp only [hd, e3, if_false, if_true] at h
      split at h
      · rename_i hc
        injection h with h; subst h
        cases hm : Roa.decodeAspa Consts.aspaObjMaxLen o'.content with
        | none => rw [hm] at hc; simp at hc
        | some a =>
          obtain ⟨ps, hp, hl, _⟩ := C05.aspa_decoded_iterates _ _ a hm
          exact ⟨a, ps, rfl, hp, hl⟩
      · cases h

/-- **What the library writes is read back in either mode.**  The round trips of C05 are stated for the strict
decoders; with `strict_is_the_der_instance` and `relaxed_extends_strict` they hold for `strict = false` as well: a
signed object around a written certificate, and a signed protocol message with its identity certificate and CRL,
decode to the same values whichever mode the reader asks for. -/
theorem written_objects_read_back_in_either_mode (ber : Bool) :
    (∀ (ct content sid attrs md sig csig : Bytes) (st : X509.Civil) (d : CertDer.Decoded),
      CertEnc.WF d → CertDer.Forest d.issuer → CertDer.Forest d.subject → CertDer.oidOk ct = true → sid.length = 20 →
      SigObj.parseAttrs true attrs = some (ct, md, st) →
      CmsDer.decodeSigObjM ber (CmsEnc.encodeSigObj ct content (CertEnc.encodeCert d csig) sid attrs sig) =
        some { contentType := ct, content := content, cert := CertEnc.readBack d true csig, sid := sid, attrs := attrs,
               messageDigest := md, signingTime := st, signature := sig }) ∧
    (∀ (content sid attrs md sig csig lsig : Bytes) (st : X509.Civil)
      (c : SigMsgDer.IdCertD) (l : SigMsgDer.MsgCrlD) (rest : Bytes),
      IdEnc.WF c → CertDer.Forest c.issuer → CertDer.Forest c.subject →
      SigMsgEnc.WFCrl l → CertDer.Forest l.issuer → sid.length = 20 →
      SigObj.parseAttrs false attrs = some (Consts.oidProtocolContentType, md, st) →
      SigMsgDer.decodeSigMsgM ber (SigMsgEnc.encodeSigMsg content (IdEnc.encodeIdCert c csig) (SigMsgEnc.encodeMsgCrl l lsig) sid attrs sig ++ rest) =
        some { content := content, cert := IdEnc.readBack c (IdEnc.encodeTbsId c) csig,
               crl := { l with innerParam := true, outerParam := true, tbs := SigMsgEnc.encodeTbsMsgCrl l, signature := lsig },
               sid := sid, attrs := attrs, messageDigest := md, signature := sig }) := by
  refine ⟨?_, ?_⟩
  · intro ct content sid attrs md sig csig st d h hi hs hct hsid hp
    have := C05.sigobj_with_cert_roundtrip ct content sid attrs md sig csig st d h hi hs hct hsid hp
    cases ber with
    | false => rw [CmsDer.decodeSigObjM_false]; exact this
    | true => exact relaxed_extends_strict.2.1 _ _ this
  · intro content sid attrs md sig csig lsig st c l rest hc hci hcs hl hli hsid hp
    have := C05.sigmsg_roundtrip content sid attrs md sig csig lsig st c hc hci hcs l hl hli hsid hp rest
    cases ber with
    | false => rw [SigMsgDer.decodeSigMsgM_false]; exact this
    | true => exact relaxed_extends_strict.2.2.2.2.1 _ _ this

/-! the extension is proper: an indefinite-length SEQUENCE holding a NULL, an over-long length, a constructed OCTET
STRING in two segments and the truth value 0x01 are read in BER mode and refused in DER mode -/
example : Der.readTlvM true [0x30, 0x80, 0x05, 0x00, 0x00, 0x00, 0xAA] = some (0x30, [0x05, 0x00], [0xAA]) ∧
    Der.readTlv [0x30, 0x80, 0x05, 0x00, 0x00, 0x00, 0xAA] = none := by decide
example : Der.readTlvM true [0x04, 0x81, 0x01, 0x07] = some (0x04, [0x07], []) ∧ Der.readTlv [0x04, 0x81, 0x01, 0x07] = none := by
  decide
example : Der.takePrimM true Der.tagOctetString [0x24, 0x06, 0x04, 0x01, 0x0A, 0x04, 0x01, 0x0B] = some ([0x0A, 0x0B], []) ∧
    Der.takePrim Der.tagOctetString [0x24, 0x06, 0x04, 0x01, 0x0A, 0x04, 0x01, 0x0B] = none := by decide
example : (match CertDer.takeOptBoolM true [0x01, 0x01, 0x01] with | .ok x _ => x | _ => false) = true ∧
    (match CertDer.takeOptBool [0x01, 0x01, 0x01] with | .bad => true | _ => false) = true := by decide

end Rpki.Props.C04
