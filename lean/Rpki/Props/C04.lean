/-
  C04 — decoders never panic or run away.

  What a theorem can carry here is the repository's own reasoning behind its `unwrap()`,
  `panic!` and arithmetic sites; panic-freedom of bcder, quick-xml and aws-lc on arbitrary octets
  is not modelled (it is explored by the differential fuzz run of the check).  The theorems below
  are the guard lemmas, each about a model tied to the code by another property's correspondence.
-/
import Rpki.Props.C14
import Rpki.Props.C02
import Rpki.Props.C03
import Rpki.Proofs.DerLemmas
namespace Rpki.Props.C04
set_option autoImplicit false
open Rpki.Der
abbrev Bytes := List Nat

/-- **Manifest file list (`FileListIter::next` unwraps).** Whatever octets were captured at
decoding time, the later iteration never fails: the skipping pass and the taking pass decide
identically. -/
theorem manifest_iter_cannot_panic (b : Bytes) (m : Manifest.Content) (h : Manifest.decodeContent b = some m) :
    ∃ es, m.iter = some es ∧ es.length = m.len := by
  obtain ⟨es, h1, h2, _⟩ := C14.len_eq_iter b m h
  exact ⟨es, h1, h2⟩

/-- **Manifest URIs (`iter_uris` unwraps `join`).** -/
theorem manifest_uris_cannot_panic (b : Bytes) (m : Manifest.Content) (base : Uri.Rsync)
    (h : Manifest.decodeContent b = some m) : ∃ us, Manifest.iterUris m base = some us := by
  obtain ⟨_, us, _, h2, _⟩ := C14.iterUris_inside b m base h
  exact ⟨us, h2⟩

/-- **`SignedAttrs::encode_verify` (`panic!("overly long signed attrs")`).** The parser rejects
attribute sets above 65535 octets, so for every decoded object the verification input exists. -/
theorem encode_verify_cannot_panic (strict : Bool) (attrs ct md : Bytes) (st : X509.Civil)
    (h : SigObj.parseAttrs strict attrs = some (ct, md, st)) :
    ∃ msg, SigObj.encodeVerify attrs = some msg :=
  ⟨_, C02.encodeVerify_is_der attrs (C02.parseAttrs_len h)⟩

/-- **`asn_count`.** Total (never overflows) and saturating. -/
theorem asn_count_total (c : List Chain.Blk) : ∃ n, Chain.asnCount c = some n ∧ n ≤ 4294967295 :=
  ⟨_, C03.asnCount_spec c, Nat.min_le_left _ _⟩

/-- **ROA prefixes, ASPA providers, CRL entries (`…Iter::next` / `contains` unwrap).** These three
capturing decoders run a counting pass that calls an item reader and an extra check, and later
iterate the captured octets with the *same* item reader (the source anchors `roaIterUsesTake`,
`aspaIterUsesTake`, `crlIterUsesTake` are re-read on every run).  For every item reader and every
check: if the counting pass accepted, the iteration cannot fail, yields exactly as many items, and
every item passed the check. -/
theorem capture_iterate_parity {α : Type} (take : Bytes → Take α) (check : α → Bool) :
    ∀ (fuel : Nat) (b : Bytes) (n k : Nat), capturePass take check fuel b n = some k →
      ∃ items, iteratePass take fuel b = some items ∧ items.length + n = k ∧ ∀ a ∈ items, check a = true := by
  intro fuel
  induction fuel with
  | zero =>
    intro b n k h
    simp only [capturePass] at h
    split at h
    · injection h with h; exact ⟨[], rfl, by simpa using h, by simp⟩
    · cases h
  | succ f ih =>
    intro b n k h
    rw [capturePass] at h
    cases ht : take b with
    | absent =>
      simp only [ht] at h
      split at h
      · injection h with h; exact ⟨[], by rw [iteratePass, ht], by simpa using h, by simp⟩
      · cases h
    | bad => simp [ht] at h
    | ok a rest =>
      simp only [ht] at h
      by_cases hc : check a = true
      · simp only [hc, if_true] at h
        obtain ⟨items, h1, h2, h3⟩ := ih rest (n + 1) k h
        refine ⟨a :: items, by rw [iteratePass, ht]; simp only [h1]; rfl, by simp; omega, ?_⟩
        intro x hx
        rcases List.mem_cons.1 hx with e | e
        · rw [e]; exact hc
        · exact h3 x e
      · simp [hc] at h


/-- **Bounded consumption.** A value read by the TLV layer lies inside the input: header, content
and rest partition it, so nested decoding works on strictly shorter inputs and terminates. -/
theorem readTlv_partition (b : Bytes) (t : Nat) (c rest : Bytes) (h : readTlv b = some (t, c, rest)) :
    ∃ hdr, b = hdr ++ c ++ rest ∧ 2 ≤ hdr.length ∧ hdr.length ≤ 6 := by
  unfold readTlv at h
  cases b with
  | nil => cases h
  | cons t0 r =>
    simp only at h
    split at h
    · cases h
    · cases hl : readLen r with
      | none => simp [hl] at h
      | some p =>
        obtain ⟨l, r'⟩ := p
        simp only [hl] at h
        split at h
        · cases h
        · injection h with h; injection h with h1 h; injection h with h2 h3
          subst h1 h2 h3
          -- the length octets are a prefix of `r` ending where `r'` starts
          have key : ∃ lb, r = lb ++ r' ∧ 1 ≤ lb.length ∧ lb.length ≤ 5 := by
            unfold readLen at hl
            cases r with
            | nil => cases hl
            | cons n rr =>
              simp only at hl
              split at hl
              · injection hl with hl; injection hl with _ e; subst e; exact ⟨[n], rfl, by simp, by simp⟩
              · split at hl
                · cases rr with
                  | nil => cases hl
                  | cons a r2 =>
                    simp only at hl; split at hl
                    · injection hl with hl; injection hl with _ e; subst e; exact ⟨[n, a], rfl, by simp, by simp⟩
                    · cases hl
                · split at hl
                  · match rr, hl with
                    | a :: b2 :: r2, hl =>
                      simp only at hl; split at hl
                      · injection hl with hl; injection hl with _ e; subst e; exact ⟨[n, a, b2], rfl, by simp, by simp⟩
                      · cases hl
                    | [], hl => cases hl
                    | [_], hl => cases hl
                  · split at hl
                    · match rr, hl with
                      | a :: b2 :: c2 :: r2, hl =>
                        simp only at hl; split at hl
                        · injection hl with hl; injection hl with _ e; subst e; exact ⟨[n, a, b2, c2], rfl, by simp, by simp⟩
                        · cases hl
                      | [], hl => cases hl
                      | [_], hl => cases hl
                      | [_, _], hl => cases hl
                    · split at hl
                      · match rr, hl with
                        | a :: b2 :: c2 :: d2 :: r2, hl =>
                          simp only at hl; split at hl
                          · injection hl with hl; injection hl with _ e; subst e
                            exact ⟨[n, a, b2, c2, d2], rfl, by simp, by simp⟩
                          · cases hl
                        | [], hl => cases hl
                        | [_], hl => cases hl
                        | [_, _], hl => cases hl
                        | [_, _, _], hl => cases hl
                      · cases hl
          obtain ⟨lb, e, h1, h2⟩ := key
          refine ⟨t0 :: lb, ?_, by simp; omega, by simp; omega⟩
          rw [e]; simp [List.take_append_drop]

end Rpki.Props.C04
