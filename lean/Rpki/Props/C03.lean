/-
C03 — resource sets behave as exact, canonical sets of addresses / AS numbers.
Only property theorems and non-vacuity examples; lemmas are in Rpki/Proofs/Chain*.lean.
-/
import Rpki.Proofs.AsDerCodec
import Rpki.Proofs.IpDerCodec
import Rpki.Proofs.ResTextLemmas
import Rpki.Proofs.ResTextV6
import Rpki.Proofs.ResTextSets
import Rpki.Model.ProvMsg
import Rpki.Proofs.ChainPrefix
import Rpki.Proofs.ChainOps
import Rpki.Model.ResSetOps
import Rpki.Proofs.ProvMsgLemmas
namespace Rpki.C03
open Rpki.Chain Rpki.Consts

/-- Per-item membership agrees with the denoted set. -/
theorem containsItem_iff (M : Nat) (c : List Blk) (hc : Canon M c) (x : Nat) :
    containsItem c x = true ↔ mem c x := containsItem_iff' M c hc x

/-- The canonical form is unique: two canonical chains denoting the same set are identical, … -/
theorem canon_unique (M : Nat) (a b : List Blk) (ha : Canon M a) (hb : Canon M b)
    (h : ∀ x, mem a x ↔ mem b x) : a = b := canon_unique' M a b ha hb h

/-- … so `==` (block-wise comparison) is equality of the denoted sets. -/
theorem eq_iff_same_set (M : Nat) (a b : List Blk) (ha : Canon M a) (hb : Canon M b) :
    chainEq a b = true ↔ ∀ x, mem a x ↔ mem b x := by
  rw [chainEq_iff']
  constructor
  · intro h x; rw [h]
  · exact canon_unique' M a b ha hb

/-- **Collecting blocks.** Any finite sequence of well-formed blocks — sorted or not, overlapping,
adjacent, duplicated, touching 0 or the maximum — collects into a canonical chain that denotes
exactly the union of the blocks. -/
theorem fromIter_canon_den (M : Nat) (bs : List Blk) (h : ∀ b ∈ bs, b.lo ≤ b.hi ∧ b.hi ≤ M) :
    Canon M (fromIter M bs) ∧ ∀ x, mem (fromIter M bs) x ↔ ∃ b ∈ bs, b.lo ≤ x ∧ x ≤ b.hi :=
  fromIter_spec' M bs h

/-- Containment (`is_encompassed`, `contains`, `verify_covered`) is set inclusion. -/
theorem isEncompassed_iff (M : Nat) (a b : List Blk) (ha : Canon M a) (hb : Canon M b) :
    isEncompassed a b = true ↔ ∀ x, mem a x → mem b x := isEncompassed_iff' M a b ha hb

/-- `trim`: `ok` means inclusion; otherwise the result is the canonical chain of the intersection. -/
theorem trim_spec (M : Nat) (a b : List Blk) (ha : Canon M a) (hb : Canon M b) :
    match trim M a b with
    | .ok () => ∀ x, mem a x → mem b x
    | .error r => Canon M r ∧ ∀ x, mem r x ↔ (mem a x ∧ mem b x) := trim_spec' M a b ha hb

/-- Difference is canonical and denotes the set difference. -/
theorem difference_spec (M : Nat) (a b : List Blk) (ha : Canon M a) (hb : Canon M b) :
    Canon M (difference a b) ∧ ∀ x, mem (difference a b) x ↔ (mem a x ∧ ¬ mem b x) :=
  difference_spec' M a b ha hb

/-- Union is canonical and denotes the set union. -/
theorem union_spec (M : Nat) (a b : List Blk) (ha : Canon M a) (hb : Canon M b) :
    Canon M (union M a b) ∧ ∀ x, mem (union M a b) x ↔ (mem a x ∨ mem b x) := union_spec' M a b ha hb

/-- Intersection is canonical and denotes the set intersection. -/
theorem inter_spec (M : Nat) (a b : List Blk) (ha : Canon M a) (hb : Canon M b) :
    Canon M (inter M a b) ∧ ∀ x, mem (inter M a b) x ↔ (mem a x ∧ mem b x) := inter_spec' M a b ha hb

/-- **Issuance.** Whatever `verify_issued` returns is canonical and a subset of the issuer's set:
the claim itself when covered under the refuse policy (an error exactly when it is not covered), the
intersection under the trimming policy, the issuer's set for `inherit`, the empty set for `missing`. -/
theorem verifyIssued_subset (M : Nat) (issuer : List Blk) (hi : Canon M issuer) (claim : Claim) (trimMode : Bool)
    (hc : ∀ c, claim = .blocks c → Canon M c) :
    match verifyIssued M issuer claim trimMode with
    | some r =>
      Canon M r ∧ (∀ x, mem r x → mem issuer x) ∧
      (match claim with
       | .missing => r = []
       | .inherit => r = issuer
       | .blocks c => if trimMode then ∀ x, mem r x ↔ (mem c x ∧ mem issuer x)
                      else r = c ∧ ∀ x, mem c x → mem issuer x)
    | none => ∃ c, claim = .blocks c ∧ trimMode = false ∧ ¬ ∀ x, mem c x → mem issuer x :=
  verifyIssued_spec' M issuer hi claim trimMode hc

/-- A single block (a ROA prefix, a range) is contained exactly when all its items are in the set. -/
theorem containsBlock_iff (M : Nat) (c : List Blk) (hc : Canon M c) (b : Blk) (hb : b.lo ≤ b.hi) :
    containsBlock c b = true ↔ ∀ x, b.lo ≤ x → x ≤ b.hi → mem c x := containsBlock_iff' M c hc b hb

/-- … and intersects exactly when some item of it is. -/
theorem intersectsBlock_iff (M : Nat) (c : List Blk) (hc : Canon M c) (b : Blk) (hb : b.lo ≤ b.hi) :
    intersectsBlock c b = true ↔ ∃ x, b.lo ≤ x ∧ x ≤ b.hi ∧ mem c x :=
  intersectsBlock_iff' c (fun r hr => (hc.1 r hr).1) b hb

/-- The ASN count never panics; it is the number of items when that fits 32 bits and saturates
otherwise (the full AS space has 2^32 items). -/
theorem asnCount_spec (c : List Blk) : asnCount c = some (min 4294967295 (total c)) := asnCount_spec' c

/-- When `into_prefix` reports a prefix the range is exactly that aligned power-of-two block.
-/
theorem intoPrefix_sound (W lo hi len : Nat) (h : intoPrefix W lo hi = some len) :
    lo % 2 ^ (W - len) = 0 ∧ hi = lo + 2 ^ (W - len) - 1 := Chain.intoPrefix_sound W lo hi len h

/-- … and conversely every aligned power-of-two block is reported as a prefix of its length
(`into_prefix` is complete, so canonical chains store prefixes as prefixes). -/
theorem intoPrefix_complete (W k lo : Nat) (hk : k ≤ W) (hal : lo % 2 ^ k = 0) (hhi : lo + 2 ^ k - 1 < 2 ^ W) :
    intoPrefix W lo (lo + 2 ^ k - 1) = some (W - k) := Chain.intoPrefix_complete W k lo hk hal hhi

/-- **Range-to-prefix decomposition.** `to_v4_prefixes` / `to_v6_prefixes` return aligned prefixes
that tile the range exactly, in ascending order (with the fuel the caller uses, `2W + 2` ≥ the
number of steps): an address is in one of the prefixes iff it is in the range. -/
theorem toPrefixes_tiles (W start stop : Nat) (h1 : start ≤ stop) (h2 : stop < 2 ^ W) :
    Tiles W (toPrefixes W (2 * W + 2) start stop) start stop ∧
    ∀ x, (∃ p ∈ toPrefixes W (2 * W + 2) start stop, pfxLo W p ≤ x ∧ x ≤ pfxHi W p) ↔ (start ≤ x ∧ x ≤ stop) := by
  have t := toPrefixes_tiles_caller W start stop h1 h2
  refine ⟨t, ?_⟩
  have hne : toPrefixes W (2 * W + 2) start stop ≠ [] := by
    intro e; rw [e] at t; simp only [Tiles] at t; omega
  exact tiles_mem W _ start stop hne t


/-! ## the RFC 3779 AS resources extension in DER -/

/-- **Decoding the extension.** Whatever octets `AsResources::take_from` accepts, the result is
`inherit` or a canonical chain … -/
theorem asExt_decode_canonical (b : List Nat) (hb : ∀ x ∈ b, x < 256) (cl : Claim) (h : AsDer.decodeExt b = some cl) :
    cl = .inherit ∨ ∃ c, cl = .blocks c ∧ Canon AsDer.maxAs c := AsDer.decodeExt_sound b hb cl h

/-- … denoting exactly the union of the listed ids and ranges (any order, overlaps, adjacency). -/
theorem asBlocks_decode_den (content : List Nat) (hb : ∀ x ∈ content, x < 256) (c : List Blk)
    (h : AsDer.decodeBlocks content = some c) :
    ∃ bs, AsDer.blocksLoop content.length content = some bs ∧ ∀ x, mem c x ↔ ∃ b ∈ bs, b.lo ≤ x ∧ x ≤ b.hi :=
  AsDer.decodeBlocks_den content hb c h

/-- **Round trip.** The extension written for a canonical set, or for `inherit`, decodes to exactly
that.  (The size hypothesis is the real encoder's domain: in the model length octets are unbounded
naturals, so the statement also holds without it, but bcder's 0x84 form ends at 2^32 - 1.) -/
theorem asExt_roundtrip (c : List Blk) (hc : Canon AsDer.maxAs c)
    (_hsize : ((c.map AsDer.encodeBlock).flatten).length < 2 ^ 32) :
    AsDer.decodeExt (AsDer.encodeExt (.blocks c)) = some (.blocks c) ∧
    AsDer.decodeExt (AsDer.encodeExt .inherit) = some .inherit :=
  ⟨AsDer.decodeExt_encodeExt_blocks c hc, AsDer.decodeExt_encodeExt_inherit⟩

/-- a canonical chain is a fixed point of `from_iter` -/
theorem fromIter_canon_id (M : Nat) (c : List Blk) (hc : Canon M c) : fromIter M c = c :=
  AsDer.fromIter_canon_id M c hc


/-! ## the RFC 3779 IP address blocks in DER -/

/-- **One prefix.** The BIT STRING content written for a prefix (`Prefix: PrimitiveContent`) is read
back by `Prefix::from_bit_string` as the same address and length, for every length 0…128. -/
theorem ipPrefix_roundtrip (a len : Nat) (hlen : len ≤ 128) (ha : a < 2 ^ 128) (hmin : IpDer.toMin a len = a) :
    IpDer.prefixOfContent (IpDer.encodePrefixContent a len) = some (a, len) :=
  IpDer.prefixOfContent_encode a len hlen ha hmin

/-- **One block.** Every well-formed block — a prefix or a range, written in the shortest form
with `min_to_prefix` / `max_to_prefix` — is read back as itself, whatever follows it. -/
theorem ipBlock_roundtrip (b : Blk) (hb : b.lo ≤ b.hi) (hhi : b.hi ≤ IpDer.maxAddr) (rest : List Nat) :
    IpDer.takeOptBlock 128 (IpDer.encodeBlock b ++ rest) = .ok b rest :=
  IpDer.takeOptBlock_encodeBlock b hb hhi rest

/-- **A whole set.** Every canonical chain of address blocks, encoded by `IpBlocks::encode_ref`, is
decoded by `IpBlocks::take_from_with_family` as the same chain — no bound on the number of blocks. -/
theorem ipBlocks_roundtrip (c : List Blk) (hc : Canon IpDer.maxAddr c) :
    IpDer.decodeBlocks 128 (IpDer.encodeBlocks c) = some c := IpDer.decodeBlocks_encodeBlocks c hc

/-- **Decoding.** Whatever octets the reader accepts — blocks in any order, overlapping, adjacent,
ranges that are prefixes — the result is a canonical chain … -/
theorem ipBlocks_decode_canonical (W : Nat) (b : List Nat) (hb : ∀ x ∈ b, x < 256) (c : List Blk)
    (h : IpDer.decodeBlocks W b = some c) : Canon IpDer.maxAddr c := IpDer.decodeBlocks_sound W b hb c h

/-- … denoting exactly the union of the blocks listed in the encoding. -/
theorem ipBlocks_decode_den (W : Nat) (b : List Nat) (hb : ∀ x ∈ b, x < 256) (c : List Blk)
    (h : IpDer.decodeBlocks W b = some c) :
    ∃ content rest bs, Der.takeCons Der.tagSeq b = some (content, rest) ∧
      IpDer.blocksLoop W content.length content = some bs ∧
      ∀ x, mem c x ↔ ∃ blk ∈ bs, blk.lo ≤ x ∧ x ≤ blk.hi := IpDer.decodeBlocks_den W b hb c h

/-- **IPv4 in the shared 128-bit space.** A block read with the IPv4 family starts on and ends before a
2^96 boundary: it is a range of IPv4 addresses, nothing of it leaks into the low 96 bits. -/
theorem ipBlock_v4_shape (b : List Nat) (blk : Blk) (rest : List Nat)
    (h : IpDer.takeOptBlock 32 b = .ok blk rest) : blk.lo % 2 ^ 96 = 0 ∧ blk.hi % 2 ^ 96 = 2 ^ 96 - 1 :=
  IpDer.takeOptBlock_v4_shape' b blk rest h


/-! ## text forms (`Model/ResText.lean`; the formatters and the parsers are each tied to the library
by `as-fmt`, `ip-fmt`, `as-parse`, `ip-parse`) -/

/-- **AS sets.** The text form of every canonical AS set parses back to the same set. -/
theorem as_text_roundtrip (c : List Blk) (hc : Canon 4294967295 c) :
    ResText.parseAs (ResText.fmtAs c) = some c := ResText.parseAs_fmt c hc

/-- Decimal numbers are read back, and different numbers are written differently. -/
theorem decimal_roundtrip (n : Nat) (h : n < 2 ^ 32) :
    ResText.parseU32 (ResText.decimal n) = some n ∧ ∀ m, ResText.decimal m = ResText.decimal n → m = n :=
  ⟨ResText.parseU32_decimal n h, fun m hm => ResText.decimal_injective m n hm⟩

/-- **IPv4 addresses** in dotted-quad form and **IPv6 addresses** in the RFC 5952 form the
formatter writes (first longest run of zero groups compressed, IPv4-mapped addresses in mixed
notation) are read back as the same address — for all 2^32 and all 2^128 addresses. -/
theorem address_text_roundtrip :
    (∀ a, a < 2 ^ 32 → ResText.parseV4 (ResText.fmtV4 a) = some a) ∧
    (∀ a, a < 2 ^ 128 → ResText.parseV6 (ResText.fmtV6 a) = some a) :=
  ⟨ResText.parseV4_fmtV4, ResText.parseV6_fmtV6⟩

/-- **IPv4 sets.** The text form of any list of IPv4 blocks — prefixes with their length, ranges,
single addresses — parses back to blocks with the same bounds (a `/32` is written as a bare
address and read as a one-address range: the same set). -/
theorem ipv4_text_roundtrip (ts : List ResText.TBlk) (h : ∀ t ∈ ts, ResText.V4Shaped t) :
    (ResText.parseIpItems true (ResText.fmtIp true ts)).map (·.map ResText.tblkBounds) =
      some (ts.map ResText.tblkBounds) := ResText.parseIpItems_fmt_v4 ts h


/-- **IP sets.** The text form of every canonical IPv6 set, and of every canonical IPv4 set, parses
back — items collected by `from_iter` — to the same set: prefixes with their length, ranges,
single addresses, IPv4-mapped IPv6 blocks included. -/
theorem ip_text_set_roundtrip (c : List Blk) (hc : Canon (2 ^ 128 - 1) c) :
    (ResText.parseIpItems false (ResText.fmtIp false (c.map ResText.tagged))).map
        (fun ts => fromIter (2 ^ 128 - 1) (ts.map ResText.tblkBounds)) = some c ∧
    ((∀ b ∈ c, b.lo % 2 ^ 96 = 0 ∧ b.hi % 2 ^ 96 = 2 ^ 96 - 1) →
      (ResText.parseIpItems true (ResText.fmtIp true (c.map ResText.tagged))).map
        (fun ts => fromIter (2 ^ 128 - 1) (ts.map ResText.tblkBounds)) = some c) :=
  ⟨ResText.ip6_text_set_roundtrip c hc, fun h4 => ResText.ip4_text_set_roundtrip c hc h4⟩

example : ResText.parseV6 (ResText.fmtV6 (2 ^ 112 + 2 ^ 48 + 5)) = some (2 ^ 112 + 2 ^ 48 + 5) :=
  ResText.parseV6_fmtV6 _ (by decide)
example : ResText.V4Shaped (.pfx (10 * 2 ^ 120) 8) := by
  refine ⟨by decide, by decide, by decide, by decide⟩


/-! ## resource-limit application (`RequestResourceLimit::apply_to`, modelled in `Model/ProvMsg.lean`,
tied by the `limit` op) -/

/-- one resource type: the result is the limit when it is given and lies inside the entitled set, the
entitled set when no limit is given, and there is no result exactly when a given limit sticks out -/
theorem limit_pick_spec (M : Nat) (want : Option (List Blk)) (have_ : List Blk)
    (hw : ∀ w, want = some w → Canon M w) (hh : Canon M have_) :
    (∀ r, ProvMsg.pick want have_ = some r ↔
        (want = none ∧ r = have_) ∨ (∃ w, want = some w ∧ r = w ∧ ∀ x, mem w x → mem have_ x)) := by
  intro r
  cases want with
  | none => simp [ProvMsg.pick, eq_comm]
  | some w =>
    have := isEncompassed_iff' M w have_ (hw w rfl) hh
    by_cases h : isEncompassed w have_ = true
    · simp only [ProvMsg.pick, h, if_true, Option.some.injEq, reduceCtorEq, false_and, false_or]
      constructor
      · intro e; exact ⟨w, rfl, e.symm, this.1 h⟩
      · rintro ⟨w', e, rfl, _⟩; exact e
    · simp only [ProvMsg.pick, h, reduceCtorEq, false_and, false_or, Option.some.injEq]
      constructor
      · intro e; simp at e
      · rintro ⟨w', e, _, hsub⟩
        subst e
        exact absurd (this.2 hsub) h

/-- **Applying a limit** gives a result exactly when every limited resource type lies inside the
entitled set; the result is then the limit for the limited types and the entitled resources for the
others — in particular never more than the entitled set. -/
theorem limit_apply_spec (l : ProvMsg.Limit) (s : ProvMsg.ResSet)
    (hla : ∀ w, l.asn = some w → Canon 4294967295 w) (hl4 : ∀ w, l.v4 = some w → Canon (2 ^ 128 - 1) w)
    (hl6 : ∀ w, l.v6 = some w → Canon (2 ^ 128 - 1) w)
    (ha : Canon 4294967295 s.asn) (h4 : Canon (2 ^ 128 - 1) s.v4) (h6 : Canon (2 ^ 128 - 1) s.v6) (r : ProvMsg.ResSet) :
    ProvMsg.applyTo l s = some r ↔
      ProvMsg.pick l.asn s.asn = some r.asn ∧ ProvMsg.pick l.v4 s.v4 = some r.v4 ∧ ProvMsg.pick l.v6 s.v6 = some r.v6 := by
  unfold ProvMsg.applyTo
  by_cases he : l.isEmpty = true
  · have he' := he
    simp only [ProvMsg.Limit.isEmpty, Bool.and_eq_true, Option.isNone_iff_eq_none] at he'
    obtain ⟨⟨e1, e2⟩, e3⟩ := he'
    simp only [he, if_true, e1, e2, e3, ProvMsg.pick, Option.some.injEq]
    constructor
    · intro e; subst e; exact ⟨rfl, rfl, rfl⟩
    · rintro ⟨a, b, c⟩
      cases r; cases s
      simp only at a b c
      subst a; subst b; subst c; rfl
  · simp only [he, Bool.false_eq_true, if_false]
    cases h1 : ProvMsg.pick l.asn s.asn with
    | none => simp
    | some a =>
      cases h2 : ProvMsg.pick l.v4 s.v4 with
      | none => simp
      | some b =>
        cases h3 : ProvMsg.pick l.v6 s.v6 with
        | none => simp
        | some c =>
          simp only [Option.some.injEq]
          constructor
          · intro e; subst e; exact ⟨rfl, rfl, rfl⟩
          · rintro ⟨rfl, rfl, rfl⟩; rfl


/-! ## `ResourceSet`: the three chains together (`Model/ResSetOps.lean`, tied by the `rset` / `rset-has` ops) -/
section ResourceSets
open Rpki.ResSetOps Rpki.ProvMsg

/-- all three chains canonical (IPv4 in the 128-bit space, as the library keeps it) -/
def SetCanon (s : ResSet) : Prop := Canon M32 s.asn ∧ Canon M128 s.v4 ∧ Canon M128 s.v6

/-- same members in every family -/
def SetSame (a b : ResSet) : Prop :=
  (∀ x, mem a.asn x ↔ mem b.asn x) ∧ (∀ x, mem a.v4 x ↔ mem b.v4 x) ∧ (∀ x, mem a.v6 x ↔ mem b.v6 x)

theorem canon_no_members (M : Nat) (c : List Blk) (hc : Canon M c) (h : ∀ x, ¬ mem c x) : c = [] :=
  canon_unique' M c [] hc (canon_nil M)
    (fun x => ⟨fun hx => absurd hx (h x), fun hx => absurd hx (mem_nil x)⟩)

/-- **Union / intersection of resource sets** are canonical in every family and denote the union / intersection
family by family. -/
theorem resset_union_spec (a b : ResSet) (ha : SetCanon a) (hb : SetCanon b) :
    SetCanon (ResSetOps.union a b) ∧
    (∀ x, mem (ResSetOps.union a b).asn x ↔ (mem a.asn x ∨ mem b.asn x)) ∧
    (∀ x, mem (ResSetOps.union a b).v4 x ↔ (mem a.v4 x ∨ mem b.v4 x)) ∧
    (∀ x, mem (ResSetOps.union a b).v6 x ↔ (mem a.v6 x ∨ mem b.v6 x)) := by
  have u1 := union_spec' M32 a.asn b.asn ha.1 hb.1
  have u2 := union_spec' M128 a.v4 b.v4 ha.2.1 hb.2.1
  have u3 := union_spec' M128 a.v6 b.v6 ha.2.2 hb.2.2
  exact ⟨⟨u1.1, u2.1, u3.1⟩, u1.2, u2.2, u3.2⟩

theorem resset_inter_spec (a b : ResSet) (ha : SetCanon a) (hb : SetCanon b) :
    SetCanon (ResSetOps.inter a b) ∧
    (∀ x, mem (ResSetOps.inter a b).asn x ↔ (mem a.asn x ∧ mem b.asn x)) ∧
    (∀ x, mem (ResSetOps.inter a b).v4 x ↔ (mem a.v4 x ∧ mem b.v4 x)) ∧
    (∀ x, mem (ResSetOps.inter a b).v6 x ↔ (mem a.v6 x ∧ mem b.v6 x)) := by
  have u1 := inter_spec' M32 a.asn b.asn ha.1 hb.1
  have u2 := inter_spec' M128 a.v4 b.v4 ha.2.1 hb.2.1
  have u3 := inter_spec' M128 a.v6 b.v6 ha.2.2 hb.2.2
  exact ⟨⟨u1.1, u2.1, u3.1⟩, u1.2, u2.2, u3.2⟩

/-- **Difference**: "added" is what the first set has and the second lacks, "removed" the reverse, both canonical. -/
theorem resset_diff_spec (a b : ResSet) (ha : SetCanon a) (hb : SetCanon b) :
    SetCanon (ResSetOps.diff a b).1 ∧ SetCanon (ResSetOps.diff a b).2 ∧
    (∀ x, mem (ResSetOps.diff a b).1.asn x ↔ (mem a.asn x ∧ ¬ mem b.asn x)) ∧
    (∀ x, mem (ResSetOps.diff a b).1.v4 x ↔ (mem a.v4 x ∧ ¬ mem b.v4 x)) ∧
    (∀ x, mem (ResSetOps.diff a b).1.v6 x ↔ (mem a.v6 x ∧ ¬ mem b.v6 x)) ∧
    (∀ x, mem (ResSetOps.diff a b).2.asn x ↔ (mem b.asn x ∧ ¬ mem a.asn x)) ∧
    (∀ x, mem (ResSetOps.diff a b).2.v4 x ↔ (mem b.v4 x ∧ ¬ mem a.v4 x)) ∧
    (∀ x, mem (ResSetOps.diff a b).2.v6 x ↔ (mem b.v6 x ∧ ¬ mem a.v6 x)) := by
  have d1 := difference_spec' M32 a.asn b.asn ha.1 hb.1
  have d2 := difference_spec' M128 a.v4 b.v4 ha.2.1 hb.2.1
  have d3 := difference_spec' M128 a.v6 b.v6 ha.2.2 hb.2.2
  have e1 := difference_spec' M32 b.asn a.asn hb.1 ha.1
  have e2 := difference_spec' M128 b.v4 a.v4 hb.2.1 ha.2.1
  have e3 := difference_spec' M128 b.v6 a.v6 hb.2.2 ha.2.2
  exact ⟨⟨d1.1, d2.1, d3.1⟩, ⟨e1.1, e2.1, e3.1⟩, d1.2, d2.2, d3.2, e1.2, e2.2, e3.2⟩

/-- **No difference means equal**: `ResourceDiff::is_empty` holds exactly when the two sets are the same value. -/
theorem resset_diff_empty_iff_eq (a b : ResSet) (ha : SetCanon a) (hb : SetCanon b) :
    diffIsEmpty (ResSetOps.diff a b) = true ↔ a = b := by
  have key : ∀ (M : Nat) (x y : List Blk), Canon M x → Canon M y →
      ((difference x y).isEmpty = true ∧ (difference y x).isEmpty = true ↔ x = y) := by
    intro M x y hx hy
    have dxy := difference_spec' M x y hx hy
    have dyx := difference_spec' M y x hy hx
    constructor
    · rintro ⟨e1, e2⟩
      rw [List.isEmpty_iff] at e1 e2
      apply canon_unique' M x y hx hy
      intro z
      constructor
      · intro hz
        by_cases hy' : mem y z
        · exact hy'
        · have : mem (difference x y) z := (dxy.2 z).2 ⟨hz, hy'⟩
          rw [e1] at this; obtain ⟨_, hb', _⟩ := this; cases hb'
      · intro hz
        by_cases hx' : mem x z
        · exact hx'
        · have : mem (difference y x) z := (dyx.2 z).2 ⟨hz, hx'⟩
          rw [e2] at this; obtain ⟨_, hb', _⟩ := this; cases hb'
    · rintro rfl
      have e : difference x x = [] := canon_no_members M _ dxy.1 (fun z hz => ((dxy.2 z).1 hz).2 ((dxy.2 z).1 hz).1)
      rw [e]; exact ⟨rfl, rfl⟩
  have k1 := key M32 a.asn b.asn ha.1 hb.1
  have k2 := key M128 a.v4 b.v4 ha.2.1 hb.2.1
  have k3 := key M128 a.v6 b.v6 ha.2.2 hb.2.2
  unfold diffIsEmpty ResSetOps.isEmpty ResSetOps.diff
  simp only [Bool.and_eq_true]
  constructor
  · rintro ⟨⟨⟨p1, p2⟩, p3⟩, ⟨q1, q2⟩, q3⟩
    have := k1.1 ⟨p1, q1⟩; have := k2.1 ⟨p2, q2⟩; have := k3.1 ⟨p3, q3⟩
    cases a; cases b; simp_all
  · rintro rfl
    exact ⟨⟨⟨(k1.2 rfl).1, (k2.2 rfl).1⟩, (k3.2 rfl).1⟩, ⟨(k1.2 rfl).2, (k2.2 rfl).2⟩, (k3.2 rfl).2⟩

/-- **Containment** of resource sets is inclusion in every family; `contains_asn` is membership. -/
theorem resset_contains_iff (a b : ResSet) (ha : SetCanon a) (hb : SetCanon b) :
    ResSetOps.contains a b = true ↔
      (∀ x, mem b.asn x → mem a.asn x) ∧ (∀ x, mem b.v4 x → mem a.v4 x) ∧ (∀ x, mem b.v6 x → mem a.v6 x) := by
  unfold ResSetOps.contains
  rw [Bool.and_eq_true, Bool.and_eq_true, isEncompassed_iff' M32 b.asn a.asn hb.1 ha.1,
    isEncompassed_iff' M128 b.v4 a.v4 hb.2.1 ha.2.1, isEncompassed_iff' M128 b.v6 a.v6 hb.2.2 ha.2.2]
  exact ⟨fun ⟨⟨p, q⟩, r⟩ => ⟨p, q, r⟩, fun ⟨p, q, r⟩ => ⟨⟨p, q⟩, r⟩⟩

theorem resset_containsAsn_iff (a : ResSet) (ha : SetCanon a) (x : Nat) (hx : x ≤ M32) :
    containsAsn a x = true ↔ mem a.asn x := by
  unfold containsAsn
  have hc : Canon M32 [⟨x, x⟩] := by
    refine ⟨?_, List.pairwise_singleton _ _⟩
    intro b hb; simp only [List.mem_singleton] at hb; subst hb; exact ⟨Nat.le_refl _, hx⟩
  rw [isEncompassed_iff' M32 _ a.asn hc ha.1]
  constructor
  · intro h; exact h x ⟨⟨x, x⟩, by simp, Nat.le_refl _, Nat.le_refl _⟩
  · rintro h y ⟨b, hb, h1, h2⟩
    simp only [List.mem_singleton] at hb; subst hb
    have : y = x := Nat.le_antisymm h2 h1
    subst this; exact h

/-- a ROA address (a 128-bit range without a family) is reported as contained exactly when one block of the IPv4
or of the IPv6 chain covers its whole range -/
theorem resset_containsRoa_iff (a : ResSet) (lo hi : Nat) :
    containsRoa a lo hi = true ↔ (∃ r ∈ a.v4, r.lo ≤ lo ∧ hi ≤ r.hi) ∨ (∃ r ∈ a.v6, r.lo ≤ lo ∧ hi ≤ r.hi) := by
  unfold containsRoa
  simp only [Bool.or_eq_true, List.any_eq_true, Bool.and_eq_true, decide_eq_true_eq]

/-- **Text round trip of a resource set**: the three text forms a canonical set prints (`Display` of its chains,
which is also what its serde form and the RFC 6492 attributes carry) are read back by `from_strs` as the same set —
IPv4 chains being chains of IPv4 blocks (low 96 bits all zero / all one, as the library keeps them). -/
theorem resset_text_roundtrip (s : ResSet) (hs : SetCanon s)
    (h4 : ∀ b ∈ s.v4, b.lo % 2 ^ 96 = 0 ∧ b.hi % 2 ^ 96 = 2 ^ 96 - 1) :
    fromStrs (ResText.fmtAs s.asn) (fmtV4 s.v4) (fmtV6 s.v6) = some s := by
  unfold fromStrs
  rw [ProvMsg.readAs_fmt s.asn hs.1, ProvMsg.readIp_fmt_v4 s.v4 hs.2.1 h4, ProvMsg.readIp_fmt_v6 s.v6 hs.2.2]

end ResourceSets

/-! ## Non-vacuity -/

example : Canon 4294967295 [⟨0, 2⟩, ⟨4, 4⟩, ⟨4294967294, 4294967295⟩] := by
  refine ⟨?_, ?_⟩
  · intro b hb; simp at hb; rcases hb with rfl | rfl | rfl <;> decide
  · simp [List.pairwise_cons]
example : IpDer.decodeBlocks 32 (IpDer.encodeBlocks [⟨10 * 2 ^ 120, 11 * 2 ^ 120 - 1⟩]) = some [⟨10 * 2 ^ 120, 11 * 2 ^ 120 - 1⟩] := by decide
example : IpDer.decodeBlocks 128 [0x30, 8, 0x30, 6, 3, 1, 0, 3, 1, 0] = some [⟨0, IpDer.maxAddr⟩] := by decide
example : fromIter 100 [⟨10, 20⟩, ⟨30, 40⟩, ⟨15, 35⟩] = [⟨10, 40⟩] := by decide
example : difference [⟨0, 10⟩] [⟨3, 4⟩, ⟨10, 12⟩] = [⟨0, 2⟩, ⟨5, 9⟩] := by decide
example : verifyIssued 100 [⟨0, 50⟩] (.blocks [⟨40, 60⟩]) true = some [⟨40, 50⟩] := by decide
example : verifyIssued 100 [⟨0, 50⟩] (.blocks [⟨40, 60⟩]) false = none := by
  simp [verifyIssued, isEncompassed, isEncompassedAux]

end Rpki.C03
