/-
C03 — resource sets behave as exact, canonical sets of addresses / AS numbers.
Only property theorems and non-vacuity examples; lemmas are in Rpki/Proofs/Chain*.lean.
-/
import Rpki.Proofs.ChainLemmas
namespace Rpki.C03
open Rpki.Chain Rpki.Consts

/-- Per-item membership agrees with the denoted set. -/
theorem containsItem_iff (M : Nat) (c : List Blk) (hc : Canon M c) (x : Nat) :
    containsItem c x = true ↔ mem c x := containsItem_iff' M c hc x

/-- The canonical form is unique: two canonical chains denoting the same set are identical, … -/
theorem canon_unique (M : Nat) (a b : List Blk) (ha : Canon M a) (hb : Canon M b)
    (h : ∀ x, mem a x ↔ mem b x) : a = b := canon_unique' M a b ha hb h

/-- … so `==` (block-wise comparison) is equality of the denoted sets. -/
theorem eq_iff_same_set (M : Nat) (a b : List Blk) (ha : Canon M a) (hb : Canon M b) :
    chainEq a b = true ↔ ∀ x, mem a x ↔ mem b x := by
  rw [chainEq_iff']
  constructor
  · intro h x; rw [h]
  · exact canon_unique' M a b ha hb

/-! ## Non-vacuity -/

example : Canon 4294967295 [⟨0, 2⟩, ⟨4, 4⟩, ⟨4294967294, 4294967295⟩] := by
  refine ⟨?_, ?_⟩
  · intro b hb; simp at hb; rcases hb with rfl | rfl | rfl <;> decide
  · simp [List.pairwise_cons]
example : fromIter 100 [⟨10, 20⟩, ⟨30, 40⟩, ⟨15, 35⟩] = [⟨10, 40⟩] := by decide
example : difference [⟨0, 10⟩] [⟨3, 4⟩, ⟨10, 12⟩] = [⟨0, 2⟩, ⟨5, 9⟩] := by decide

end Rpki.C03
