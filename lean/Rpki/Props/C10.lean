/-
  C10 — CA protocol CMS is accepted iff signed under the peer key, current and not revoked.
  Property theorems over `Rpki/Model/SigMsg.lean`; the signature-input fact comes from C02.
-/
import Rpki.Props.C02
import Rpki.Model.SigMsg
import Rpki.Proofs.CrlDerLemmas
import Rpki.Gen.BerEq
import Rpki.Gen.BerLemmas
import Rpki.Gen.BerMonoGen
import Rpki.Proofs.SigMsgEncLemmas
namespace Rpki.Props.C10
set_option autoImplicit false
open Rpki.SigObj Rpki.SigMsg Rpki.Der
abbrev Bytes := List Nat

theorem msg_sigVerifies_iff (m : Msg) (hl : m.attrs.length < 65536) :
    SigMsg.sigVerifies m = true ↔ m.sigKeyOk = true ∧ m.sigInput = tlv 0x31 m.attrs := by
  unfold SigMsg.sigVerifies
  rw [C02.encodeVerify_is_der m.attrs hl]
  simp

theorem windowOk_iff (v : X509.Validity) (when : Int) : windowOk v when = true ↔ v.nb ≤ when ∧ when ≤ v.na := by
  unfold windowOk X509.verifyAt
  by_cases h1 : when < v.nb
  · simp [h1] <;> omega
  · by_cases h2 : when > v.na
    · simp [h1, h2] <;> omega
    · simp [h1, h2] <;> omega

theorem akiOk_iff (aki : Option Bytes) (peer : Bytes) : akiOk aki peer = true ↔ ∀ a, aki = some a → a = peer := by
  unfold akiOk
  cases aki with
  | none => simp
  | some a => simp

theorem eeValid_iff (c : IdFacts) (peer : Bytes) (when : Int) :
    eeValid c peer when = true ↔
      c.ski = c.keyId ∧ (c.validity.nb ≤ when ∧ when ≤ c.validity.na) ∧
      (∀ a, c.aki = some a → a = peer) ∧ c.basicCa ≠ some true ∧ c.sigOk = true := by
  unfold eeValid
  simp only [Bool.and_eq_true, beq_iff_eq, windowOk_iff, akiOk_iff, bne_iff_ne, ne_eq]
  constructor
  · rintro ⟨⟨⟨⟨a, b⟩, c'⟩, d⟩, e⟩; exact ⟨a, b, c', d, e⟩
  · rintro ⟨a, b, c', d, e⟩; exact ⟨⟨⟨⟨a, b⟩, c'⟩, d⟩, e⟩

theorem crlValid_iff (c : CrlFacts) (peer : Bytes) (when : Int) :
    crlValid c peer when = true ↔
      c.algMatch = true ∧ c.sigOk = true ∧ c.thisUpdate ≤ when ∧ when ≤ c.nextUpdate ∧
      (∀ a, c.aki = some a → a = peer) := by
  unfold crlValid
  simp only [Bool.and_eq_true, Bool.not_eq_true', decide_eq_false_iff_not, akiOk_iff, gt_iff_lt, Int.not_lt]
  constructor
  · rintro ⟨⟨⟨⟨a, b⟩, c'⟩, d⟩, e⟩; exact ⟨a, b, c', d, e⟩
  · rintro ⟨a, b, c', d, e⟩; exact ⟨⟨⟨⟨a, b⟩, c'⟩, d⟩, e⟩

/-- **Acceptance, exactly.** A signed protocol message validates against a peer key at a time iff:
it carries the protocol content type, its signed attributes contain exactly one content-type (equal
to it), message-digest and signing-time (other attributes are admitted and stay inside the signed
bytes), the digest attribute is the digest of the content, the signature was made with the EE key
over the DER SET OF encoding of **all** signed attributes, the signer identifier is the EE
certificate's key identifier which is the hash of its key, the EE certificate is signed by the
peer key, current and not a CA (AKI, if present, names the peer key), the CRL is signed by the
peer key, current (AKI as before), and does not list the EE certificate's serial number. -/
theorem validateAt_iff (digest : Bytes → Bytes) (m : Msg) (peer : Bytes) (when : Int) :
    SigMsg.validateAt digest m peer when = true ↔
      m.contentType = protocolCt ∧
      (∃ md st, parseAttrs false m.attrs = some (m.contentType, md, st) ∧ digest m.content = md) ∧
      m.sid = m.ee.ski ∧ m.sigKeyOk = true ∧ m.sigInput = tlv 0x31 m.attrs ∧
      eeValid m.ee peer when = true ∧ crlValid m.crl peer when = true ∧
      m.ee.serial ∉ m.crl.revoked := by
  unfold SigMsg.validateAt SigMsg.decodeOk
  by_cases hct : m.contentType = protocolCt
  · simp only [hct, ne_eq, not_true_eq_false, if_false, true_and]
    cases hp : parseAttrs false m.attrs with
    | none => simp
    | some t =>
      obtain ⟨ct, md, st⟩ := t
      have hl := C02.parseAttrs_len hp
      by_cases hc : ct = protocolCt
      · subst hc
        simp only [not_true_eq_false, if_false, Bool.and_eq_true, beq_iff_eq, msg_sigVerifies_iff m hl,
          Bool.not_eq_true', List.contains_eq_mem, decide_eq_false_iff_not]
        constructor
        · rintro ⟨⟨⟨⟨⟨a, b⟩, c, d⟩, e⟩, f⟩, g⟩
          exact ⟨⟨md, st, rfl, b⟩, a, c, d, e, f, g⟩
        · rintro ⟨⟨md', st', e1, b⟩, a, c, d, e, f, g⟩
          injection e1 with e1; injection e1 with _ e1; injection e1 with e1 _
          subst e1
          exact ⟨⟨⟨⟨⟨a, b⟩, c, d⟩, e⟩, f⟩, g⟩
      · simp only [hc, not_false_eq_true, if_true, Bool.false_eq_true, false_iff]
        rintro ⟨⟨md', st', e1, _⟩, _⟩
        injection e1 with e1; injection e1 with e1 _
        exact hc e1
  · simp [hct]

/-- **Every single violation is rejected.** -/
theorem single_fault_rejects (digest : Bytes → Bytes) (m : Msg) (peer : Bytes) (when : Int)
    (hbad : m.sigKeyOk = false ∨ m.sigInput ≠ tlv 0x31 m.attrs ∨ m.sid ≠ m.ee.ski ∨
      (∀ md st, parseAttrs false m.attrs = some (m.contentType, md, st) → digest m.content ≠ md) ∨
      m.ee.sigOk = false ∨ when < m.ee.validity.nb ∨ m.ee.validity.na < when ∨ m.ee.basicCa = some true ∨
      m.ee.ski ≠ m.ee.keyId ∨
      m.crl.sigOk = false ∨ when < m.crl.thisUpdate ∨ m.crl.nextUpdate < when ∨
      m.ee.serial ∈ m.crl.revoked) :
    SigMsg.validateAt digest m peer when = false := by
  cases h : SigMsg.validateAt digest m peer when with
  | false => rfl
  | true =>
    obtain ⟨_, ⟨md, st, hp, hd⟩, hsid, hk, hi, hee, hcrl, hrev⟩ := (validateAt_iff digest m peer when).1 h
    obtain ⟨e1, ⟨e2, e3⟩, _, e5, e6⟩ := (eeValid_iff m.ee peer when).1 hee
    obtain ⟨_, c2, c3, c4, _⟩ := (crlValid_iff m.crl peer when).1 hcrl
    rcases hbad with hb | hb | hb | hb | hb | hb | hb | hb | hb | hb | hb | hb | hb
    · simp [hk] at hb
    · exact absurd hi hb
    · exact absurd hsid hb
    · exact absurd hd (hb md st hp)
    · simp [e6] at hb
    · omega
    · omega
    · exact absurd hb e5
    · exact absurd e1 hb
    · simp [c2] at hb
    · omega
    · omega
    · exact absurd hb hrev

/-- **Messages created by the library** (signed attributes `attrs` carrying the protocol content
type, the digest of the data and a signing time; one-off EE key `eeKey`; EE certificate and empty
CRL issued by `issuer` for the validity `v`) validate against a peer key exactly when that key is
the issuing key and the evaluation time lies inside the validity. -/
theorem created_validates_iff (digest : Bytes → Bytes) (data : Bytes) (v : X509.Validity)
    (issuer peer eeKey serial attrs : Bytes) (st : X509.Civil)
    (hattrs : parseAttrs false attrs = some (protocolCt, digest data, st)) (when : Int) :
    SigMsg.validateAt digest (created digest data v issuer peer eeKey serial attrs) peer when = true ↔
      issuer = peer ∧ v.nb ≤ when ∧ when ≤ v.na := by
  have hl := C02.parseAttrs_len hattrs
  rw [validateAt_iff, eeValid_iff, crlValid_iff]
  simp only [created, C02.encodeVerify_is_der attrs hl, Option.getD_some, beq_iff_eq, hattrs]
  constructor
  · rintro ⟨_, _, _, _, _, ⟨_, hv, _, _, hs⟩, _, _⟩
    exact ⟨hs, hv.1, hv.2⟩
  · rintro ⟨hi, h1, h2⟩
    subst hi
    simp [h1, h2]

/-! ### the same on octets (strict decoding)

`Model/SigMsgDer.lean` reads a whole protocol message from its octets — ContentInfo, SignedData, the
identity certificate, the CRL with the module's own entry reader, the signed attributes in the relaxed
attribute mode (tied to `SignedMessage::decode` and `IdCert::decode` by the `smsgd` / `idcd` operations and
by every C10 case, whose model verdict is computed from the octets).  Acceptance implies every condition of
the statement for what was read; the inputs left outside are the three verdicts of the signature primitive
and the octets the message signature was made over. -/
section Octets
open Rpki.SigMsgDer

theorem accepted_message_octets (b : Bytes) (m : SigMsgD) (hd : decodeSigMsg b = some m)
    (sigKeyOk eeSigOk crlSigOk : Bool) (sigInput peer : Bytes) (when : Int)
    (h : SigMsg.validateAt Sha.sha256N (toMsg m sigKeyOk sigInput eeSigOk crlSigOk) peer when = true) :
    Sha.sha256N m.content = m.messageDigest ∧ sigKeyOk = true ∧ sigInput = tlv 0x31 m.attrs ∧
    m.sid = m.cert.ski ∧ m.cert.ski = Sha.sha1N m.cert.keyBits ∧ eeSigOk = true ∧
    m.cert.validity.nb ≤ when ∧ when ≤ m.cert.validity.na ∧ (∀ a, m.cert.aki = some a → a = peer) ∧
    m.cert.basicCa ≠ some true ∧
    m.crl.innerParam = m.crl.outerParam ∧ crlSigOk = true ∧
    CertDer.civilToEpoch m.crl.thisUpdate ≤ when ∧ when ≤ CertDer.civilToEpoch m.crl.nextUpdate ∧
    (∀ a, m.crl.aki = some a → a = peer) ∧
    (∀ l, msgRevokedSerials m.crl.revoked = some l → m.cert.serial ∉ l) := by
  obtain ⟨st, hp⟩ := decodeSigMsg_spec b m hd
  obtain ⟨_, ⟨md, st', h1, h2⟩, h3, h4, h5, h6, h7, h8⟩ := (validateAt_iff _ _ peer when).1 h
  have hp' : parseAttrs false m.attrs = some (Consts.oidProtocolContentType, md, st') := h1
  rw [hp] at hp'
  simp only [Option.some.injEq, Prod.mk.injEq] at hp'
  obtain ⟨e1, e2, e3, e4, e5⟩ := (eeValid_iff _ peer when).1 h6
  obtain ⟨c1, c2, c3, c4, c5⟩ := (crlValid_iff _ peer when).1 h7
  refine ⟨by rw [hp'.2.1]; exact h2, h4, h5, h3, e1, e5, e2.1, e2.2, e3, e4, ?_, c2, c3, c4, c5, ?_⟩
  · exact eq_of_beq c1
  · intro l hl
    have : (toMsg m sigKeyOk sigInput eeSigOk crlSigOk).crl.revoked = l := by
      show (msgRevokedSerials m.crl.revoked).getD [] = l
      rw [hl]; rfl
    rw [← this]; exact h8

end Octets

/-! ### the same in either decoding mode

The protocol wrappers `ProvisioningCms::decode` / `PublicationCms::decode` read the message in relaxed (BER) mode.
`decodeSigMsgM ber` is the mode-parametrized decoder (`Gen/BerModel.lean`; `ber = false` is `decodeSigMsg`, a
theorem), tied to the library by the `msgr` / `smsgdr` operations. -/
section EitherMode
open Rpki.SigMsgDer

theorem accepted_message_octets_either_mode (ber : Bool) (b : Bytes) (m : SigMsgD) (hd : decodeSigMsgM ber b = some m)
    (sigKeyOk eeSigOk crlSigOk : Bool) (sigInput peer : Bytes) (when : Int)
    (h : SigMsg.validateAt Sha.sha256N (toMsgM ber m sigKeyOk sigInput eeSigOk crlSigOk) peer when = true) :
    Sha.sha256N m.content = m.messageDigest ∧ sigKeyOk = true ∧ sigInput = tlv 0x31 m.attrs ∧
    m.sid = m.cert.ski ∧ m.cert.ski = Sha.sha1N m.cert.keyBits ∧ eeSigOk = true ∧
    m.cert.validity.nb ≤ when ∧ when ≤ m.cert.validity.na ∧ (∀ a, m.cert.aki = some a → a = peer) ∧
    m.cert.basicCa ≠ some true ∧
    m.crl.innerParam = m.crl.outerParam ∧ crlSigOk = true ∧
    CertDer.civilToEpoch m.crl.thisUpdate ≤ when ∧ when ≤ CertDer.civilToEpoch m.crl.nextUpdate ∧
    (∀ a, m.crl.aki = some a → a = peer) ∧
    (∀ l, msgRevokedSerialsM ber m.crl.revoked = some l → m.cert.serial ∉ l) := by
  obtain ⟨st, hp⟩ := decodeSigMsg_specM ber b m hd
  obtain ⟨_, ⟨md, st', h1, h2⟩, h3, h4, h5, h6, h7, h8⟩ := (validateAt_iff _ _ peer when).1 h
  have hp' : SigObj.parseAttrsM ber false m.attrs = some (Consts.oidProtocolContentType, md, st') :=
    C02.parseAttrs_any_mode ber false m.attrs _ h1
  rw [hp] at hp'
  simp only [Option.some.injEq, Prod.mk.injEq] at hp'
  obtain ⟨e1, e2, e3, e4, e5⟩ := (eeValid_iff _ peer when).1 h6
  obtain ⟨c1, c2, c3, c4, c5⟩ := (crlValid_iff _ peer when).1 h7
  refine ⟨by rw [hp'.2.1]; exact h2, h4, h5, h3, e1, e5, e2.1, e2.2, e3, e4, ?_, c2, c3, c4, c5, ?_⟩
  · exact eq_of_beq c1
  · intro l hl
    have : (toMsgM ber m sigKeyOk sigInput eeSigOk crlSigOk).crl.revoked = l := by
      show (msgRevokedSerialsM ber m.crl.revoked).getD [] = l
      rw [hl]; rfl
    rw [← this]; exact h8

end EitherMode

/-! ### created messages, on octets

`SignedMessage::create` as the writer models see it (`Model/SigMsgEnc.lean`, `Model/IdEnc.lean`: tied to the library
byte for byte by the `bytes sigmsg` / `bytes idcert` operations): an EE identity certificate for a one-off key with
the subject key identifier of that key, issued under the key with identifier `K` for the requested validity, not a
CA; a CRL for the same window under the same key with an empty list; signed attributes with the protocol content
type and the digest of the content.  Reading the written octets back and validating them is the statement's
"messages created by the library validate for every time within their validity and for no other key" — end to
end from the octets, the verdicts of the signature primitive being the only inputs. -/
section Created
open Rpki.SigMsgDer

theorem created_message_octets (content K attrs sig csig lsig : Bytes) (st : X509.Civil)
    (c : IdCertD) (hc : IdEnc.WF c) (hci : CertDer.Forest c.issuer) (hcs : CertDer.Forest c.subject)
    (l : MsgCrlD) (hl : SigMsgEnc.WFCrl l) (hli : CertDer.Forest l.issuer)
    (hski : c.ski = Sha.sha1N c.keyBits) (haki : c.aki = some K) (hbc : c.basicCa = none)
    (hlaki : l.aki = some K) (hrev : l.revoked = []) (hthis : l.thisUpdate = c.notBefore) (hnext : l.nextUpdate = c.notAfter)
    (hp : parseAttrs false attrs = some (Consts.oidProtocolContentType, Sha.sha256N content, st))
    (rest peer : Bytes) (when : Int) :
    ∃ m, decodeSigMsg (SigMsgEnc.encodeSigMsg content (IdEnc.encodeIdCert c csig) (SigMsgEnc.encodeMsgCrl l lsig)
          c.ski attrs sig ++ rest) = some m ∧
      (SigMsg.validateAt Sha.sha256N (toMsg m true (tlv 0x31 attrs) true true) peer when = true ↔
        (peer = K ∧ CertDer.civilToEpoch c.notBefore ≤ when ∧ when ≤ CertDer.civilToEpoch c.notAfter)) := by
  have hd := SigMsgEnc.decodeSigMsg_built content c.ski attrs (Sha.sha256N content) sig csig lsig st c hc hci hcs l hl hli
    hc.ski hp rest
  refine ⟨_, hd, ?_⟩
  rw [validateAt_iff]
  have hser : msgRevokedSerials ([] : Bytes) = some [] := by decide
  simp only [toMsg, IdEnc.readBack, eeValid_iff, crlValid_iff, hski, haki, hbc, hlaki, hrev, hthis, hnext, hser,
    Option.getD_some, List.not_mem_nil, not_false_eq_true, and_true, true_and, beq_self_eq_true, ne_eq,
    reduceCtorEq, Option.some.injEq, forall_eq']
  constructor
  · rintro ⟨_, _, ⟨hw, hk⟩, _, _, hk2⟩
    exact ⟨hk.symm, hw.1, hw.2⟩
  · rintro ⟨rfl, h1, h2⟩
    exact ⟨rfl, ⟨_, st, hp, rfl⟩, ⟨⟨h1, h2⟩, rfl⟩, h1, h2, rfl⟩

end Created

/-! ### exactly when, on octets (strict decoding) -/
section Iff
open Rpki.SigMsgDer

/-- **A decoded message validates exactly when** the digest attribute read from the octets is the SHA-256 of the
content, the signature was made with the EE key over the DER SET OF all signed attributes, the signer identifier is
the EE certificate's subject key identifier, which is the SHA-1 of its key bits, the EE certificate is signed by the
peer key, current and not a CA, the CRL is signed by the peer key, consistent, current, and the walk over its list
does not meet the EE certificate's serial number — all read from the octets, the three signature verdicts and the
signature input being the only other inputs. -/
theorem message_octets_accepted_iff (b : Bytes) (m : SigMsgD) (hd : decodeSigMsg b = some m)
    (sigKeyOk eeSigOk crlSigOk : Bool) (sigInput peer : Bytes) (when : Int) :
    SigMsg.validateAt Sha.sha256N (toMsg m sigKeyOk sigInput eeSigOk crlSigOk) peer when = true ↔
    (Sha.sha256N m.content = m.messageDigest ∧ sigKeyOk = true ∧ sigInput = tlv 0x31 m.attrs ∧
     m.sid = m.cert.ski ∧ m.cert.ski = Sha.sha1N m.cert.keyBits ∧ eeSigOk = true ∧
     m.cert.validity.nb ≤ when ∧ when ≤ m.cert.validity.na ∧ (∀ a, m.cert.aki = some a → a = peer) ∧
     m.cert.basicCa ≠ some true ∧
     m.crl.innerParam = m.crl.outerParam ∧ crlSigOk = true ∧
     CertDer.civilToEpoch m.crl.thisUpdate ≤ when ∧ when ≤ CertDer.civilToEpoch m.crl.nextUpdate ∧
     (∀ a, m.crl.aki = some a → a = peer) ∧
     (∀ l, msgRevokedSerials m.crl.revoked = some l → m.cert.serial ∉ l)) := by
  constructor
  · exact accepted_message_octets b m hd sigKeyOk eeSigOk crlSigOk sigInput peer when
  · rintro ⟨h1, h2, h3, h4, h5, h6, h7, h8, h9, h10, h11, h12, h13, h14, h15, h16⟩
    obtain ⟨st, hp⟩ := decodeSigMsg_spec b m hd
    obtain ⟨l, hl⟩ : ∃ l, msgRevokedSerials m.crl.revoked = some l := by
      obtain ⟨n, hn⟩ := decodeSigMsg_revoked b m hd
      obtain ⟨items, hi, _, _⟩ :=
        Der.capture_iterate_parity takeOptMsgEntry (fun _ => true) m.crl.revoked.length m.crl.revoked 0 n hn
      exact ⟨items.map (·.serial), by unfold msgRevokedSerials; rw [hi]; rfl⟩
    rw [validateAt_iff]
    refine ⟨rfl, ⟨m.messageDigest, st, hp, h1⟩, h4, h2, h3, ?_, ?_, ?_⟩
    · rw [eeValid_iff]; exact ⟨h5, ⟨h7, h8⟩, h9, h10, h6⟩
    · rw [crlValid_iff]; exact ⟨by simp [toMsg, h11], h12, h13, h14, h15⟩
    · show m.cert.serial ∉ (msgRevokedSerials m.crl.revoked).getD []
      rw [hl]; exact h16 l hl

end Iff

end Rpki.Props.C10
