/-
  C09 — RRDP files round-trip and hostile XML is rejected within fixed bounds.
  Property theorems; the lemmas are in `Rpki/Proofs/RrdpLemmas.lean` and `Rpki/Proofs/XmlLemmas.lean`.
-/
import Rpki.Proofs.RrdpLemmas
import Rpki.Proofs.XmlLemmas
import Rpki.Proofs.RrdpDoc
namespace Rpki.Props.C09
set_option autoImplicit false
open Rpki.Rrdp Rpki.Xml
abbrev Bytes := List Nat

/-! ### the read budget -/

/-- **Per-element bound.** After `reset_and_limit(limit)` with a non-zero limit, whatever the parser
does next (any sequence of `fill_buf`/`consume` respecting the `BufRead` contract, the source
offering at most `B` octets per `fill_buf`), at most `limit + B` octets are pulled from the source
before a read is refused: the element limit plus one buffer. -/
theorem budget (B limit : Nat) (hl : 0 < limit) (hsmall : limit < u64Max) (r0 : Run) (ops : List Op)
    (hB : r0.lastFill ≤ B) (hwf : WF B ops) (hops : ∀ op ∈ ops, ∀ l, op ≠ .reset l) :
    (run (step r0 (.reset limit)) ops).pulled ≤ limit + B :=
  Rrdp.budget B limit hl hsmall r0 ops hB hwf hops

/-- the bound is attained: it cannot be improved -/
theorem budget_tight (B limit : Nat) (hlB : limit ≤ B) (r0 : Run) :
    WF B [.fill limit, .consume limit, .fill B, .consume B] ∧
    (run (step r0 (.reset limit)) [.fill limit, .consume limit, .fill B, .consume B]).pulled = limit + B :=
  Rrdp.budget_tight B limit hlB r0

/-- once the trip is over the limit the next read is refused -/
theorem refused_after (r : Run) (avail : Nat) (h1 : r.c.limit > 0) (h2 : r.c.trip > r.c.limit)
    (h3 : r.refused = false) : (step r (.fill avail)).refused = true := Rrdp.refused_after r avail h1 h2 h3

/-- the limits the RRDP parsers configure are non-zero and far below 2^64, so `budget` applies -/
theorem limits_admissible :
    0 < Rpki.Consts.rrdpMaxHeaderSize ∧ Rpki.Consts.rrdpMaxHeaderSize < u64Max ∧
    0 < Rpki.Consts.rrdpMaxFileSize ∧ Rpki.Consts.rrdpMaxFileSize < u64Max := by decide

/-! ### delta chain and origins -/

/-- **Delta chain.** `sort_and_verify_deltas` never panics and reports success exactly when the
retained deltas (the newest `limit` of the sorted list, all of them without a limit) have
consecutive serial numbers. -/
theorem sortAndVerify_iff (serials : List Nat) (lim : Option Nat) (h : ∀ s ∈ serials, s ≤ u64Max) :
    ∃ b, sortAndVerify serials lim = .ok b ∧ (b = true ↔ Consecutive (retained serials lim)) :=
  Rrdp.sortAndVerify_iff serials lim h

theorem retained_spec (l : List Nat) (lim : Option Nat) :
    (retained l lim).Pairwise (· ≤ ·) ∧ (∃ pre, sortSerials l = pre ++ retained l lim) ∧
    (retained l lim).length = (match lim with | some k => min k l.length | none => l.length) ∧
    (sortSerials l).Perm l :=
  ⟨retained_sorted l lim, retained_suffix l lim, retained_length l lim, sortSerials_perm l⟩

/-- **Origins.** The origin check succeeds exactly when the snapshot URI and every delta URI have
the authority of the notification URI (compared ignoring ASCII case). -/
theorem hasMatchingOrigins_iff (base snapshot : Uri.Https) (deltas : List Uri.Https) :
    hasMatchingOrigins base snapshot deltas = true ↔
      eqAuthority base snapshot = true ∧ ∀ d ∈ deltas, eqAuthority base d = true :=
  Rrdp.hasMatchingOrigins_iff base snapshot deltas

/-! ### what the writers emit can be read back -/

/-- **Attribute values.** Whatever octets a URI, hash, serial or session id contains, the written
attribute value contains no raw quote or `<`, every `&` starts a predefined entity, and
un-escaping gives back exactly the original. -/
theorem attr_roundtrip (b : Bytes) :
    unescapeAll (escapeAttr b) = some b ∧ 34 ∉ escapeAttr b ∧ 60 ∉ escapeAttr b :=
  ⟨unescape_escapeAttr b, (escapeAttr_safe b).1, (escapeAttr_safe b).2⟩

theorem pcdata_roundtrip (b : Bytes) : unescapeAll (escapePcdata b) = some b ∧ 60 ∉ escapePcdata b :=
  ⟨unescape_escapePcdata b, escapePcdata_safe b⟩

/-- **Object bytes.** Base64 text written for an object decodes to exactly the object, with any
amount of white space (the writer's line break and indentation) around or inside it; and nothing
else decodes to it. -/
theorem object_roundtrip (d t : Bytes) (hd : ∀ x ∈ d, x < 256) (h : skipWs t = b64Encode d) :
    xmlB64Decode t = some d := xmlB64Decode_of_skipWs t d hd h

theorem object_decode_iff (t d : Bytes) :
    xmlB64Decode t = some d ↔ skipWs t = b64Encode d ∧ ∀ x ∈ d, x < 256 := xmlB64Decode_iff t d

theorem b64_text_is_clean (d : Bytes) (hd : ∀ x ∈ d, x < 256) :
    skipWs (b64Encode d) = b64Encode d ∧ ∀ x ∈ b64Encode d, 43 ≤ x ∧ x ≤ 122 :=
  ⟨b64Encode_no_ws d hd, mem_b64Encode_range d⟩

/-! ### whole files on the reference reader -/

/-- **Notification files.** What `NotificationFile::write_xml` emits is read back by the reference
reader as exactly the tree of its fields (session, serial, snapshot and delta references in order),
for all field values; and distinct values are written differently. -/
theorem notification_read_back (n : Notification) :
    XmlDoc.parseDoc (writeNotification n) = some (notificationTree n) := Rrdp.notification_read_back n

theorem notification_writer_injective (a b : Notification) (h : writeNotification a = writeNotification b) :
    a = b := Rrdp.writeNotification_injective a b h

/-- **Snapshot and delta files.** The same for `Snapshot::write_xml` / `Delta::write_xml` with any
list of publish / update / withdraw elements (objects of any length, including zero), element order
preserved. -/
theorem file_read_back (root session : Bytes) (serial : Nat) (elems : List Elem) (hroot : XmlDoc.NameOk root) :
    XmlDoc.parseDoc (writeFile root session serial elems) = some (fileTree root session serial elems) :=
  Rrdp.file_read_back_all root session serial elems hroot

theorem file_writer_injective (root root' session session' : Bytes) (serial serial' : Nat) (elems elems' : List Elem)
    (hroot : XmlDoc.NameOk root) (hroot' : XmlDoc.NameOk root') (ho : ∀ e ∈ elems, e.Octets) (ho' : ∀ e ∈ elems', e.Octets)
    (h : writeFile root session serial elems = writeFile root' session' serial' elems') :
    root = root' ∧ session = session' ∧ serial = serial' ∧ elems = elems' :=
  Rrdp.writeFile_injective root root' session session' serial serial' elems elems' hroot hroot' ho ho' h

/-- the fields come back from the tree: URIs un-escape, object text decodes -/
theorem publish_fields (uri d : Bytes) (hne : d ≠ []) (hd : ∀ x ∈ d, x < 256) :
    elemTree (.publish uri d) = .elem sPublish [(sUri, escapeAttr uri)] (some (.cons (.text (b64Encode d)) .nil)) ∧
      unescapeAll (escapeAttr uri) = some uri ∧ xmlB64Decode (b64Encode d) = some d :=
  Rrdp.elemTree_publish_fields uri d hne hd


/-! ### non-vacuity -/

example : sortAndVerify [5, 3, 4] none = .ok true ∧ sortAndVerify [5, 3, 4, 9] (some 3) = .ok false ∧
    sortAndVerify [18446744073709551615, 18446744073709551615] none = .ok false ∧
    sortAndVerify [4, 5] (some 0) = .ok true := by decide
example : escapeAttr [60, 34, 38] = [38,108,116,59, 38,113,117,111,116,59, 38,97,109,112,59] := by decide
example : b64Encode [77, 97] = [84, 87, 69, 61] ∧ b64Decode [84, 87, 69, 61] = some [77, 97] := by decide

end Rpki.Props.C09
