/-
C07 — RTR PDUs survive the wire unchanged; broken streams end in errors, not hangs.
Only property theorems and non-vacuity examples; lemmas are in Rpki/Proofs/RtrPdu*.lean.
-/
import Rpki.Proofs.RtrPduSkip
namespace Rpki.C07
open Rpki.Rtr Rpki.Consts

/-- The length field equals the number of bytes written. -/
theorem length_field (it : Item) (hw : it.WF) : it.encode.length = it.hdr.length := encode_length it hw

/-- Every payload PDU and End of Data PDU, written and read back, yields the same PDU (item,
flags/action, version, session, serial, timing), and reading stops exactly at its end. -/
theorem decode_encode (it : Item) (hw : it.WF) (rest : Bytes) :
    readPayload (it.encode ++ rest) = .ok (it, rest) := readPayload_encode it hw rest

/-- read PDUs until the stream is empty (fuel bounds the number of PDUs) -/
def readAll : Nat → Bytes → Option (List Item)
  | 0, _ => none
  | fuel + 1, s =>
    if s = [] then some []
    else match readPayload s with
      | .ok (it, rest) => (readAll fuel rest).map (it :: ·)
      | .error _ => none

/-- A whole sequence of PDUs written back to back reads back as the same sequence. -/
theorem stream_roundtrip (ps : List Item) (hw : ∀ p ∈ ps, p.WF) :
    readAll (ps.length + 1) (ps.flatMap Item.encode) = some ps := by
  induction ps with
  | nil => simp [readAll]
  | cons p rest ih =>
    have hp := hw p (by simp)
    have hne : ¬ (List.flatMap Item.encode (p :: rest) = []) := by
      have : p.encode ≠ [] := by cases p <;> simp [Item.encode, encHdr]
      intro e
      simp only [List.flatMap_cons, List.append_eq_nil_iff] at e
      exact this e.1
    rw [readAll, if_neg hne]
    simp only [List.flatMap_cons, List.length_cons]
    rw [readPayload_encode p hp]
    simp only
    rw [ih (fun q hq => hw q (by simp [hq]))]
    rfl

/-- `Payload::new` yields a well-formed PDU for every item that fits the wire … -/
theorem newPdu_wf (version flags : Nat) (p : PayloadItem) (hp : p.WF) (hv : version < 256) (hf : flags < 256)
    (hsize : match p with
      | .routerKey _ _ info => sizeRouterKeyFixed + info.length < 4294967296
      | .aspa _ ps => sizeAspaFixed + ps.length < 4294967296
      | _ => True) : (newPdu version flags p).WF := by
  cases p with
  | origin v4 addr plen ml asn =>
    cases v4 with
    | true =>
      obtain ⟨h1, h2, h3, h4, h5⟩ := hp
      have : ml.getD plen < 256 := by
        cases ml with
        | none => simp; omega
        | some m => have := h4 m rfl; simp; omega
      simp only [newPdu, Item.WF, Hdr.WF, pduIpv4Prefix, sizeIpv4Prefix]
      exact ⟨⟨hv, by omega, by omega, by omega⟩, trivial, trivial, hf, by omega, this, by omega, h1, h5⟩
    | false =>
      obtain ⟨h1, h2, h3, h4, h5⟩ := hp
      have : ml.getD plen < 256 := by
        cases ml with
        | none => simp; omega
        | some m => have := h4 m rfl; simp; omega
      simp only [newPdu, Item.WF, Hdr.WF, pduIpv6Prefix, sizeIpv6Prefix]
      exact ⟨⟨hv, by omega, by omega, by omega⟩, trivial, trivial, hf, by omega, this, by omega, h1, h5⟩
  | routerKey ski asn info =>
    obtain ⟨h1, h2⟩ := hp
    simp only [newPdu, Item.WF, Hdr.WF, pduRouterKey, sizeRouterKeyFixed] at hsize ⊢
    exact ⟨⟨hv, by omega, by omega, hsize⟩, trivial, trivial, h1, h2⟩
  | aspa c ps =>
    obtain ⟨h1, h2⟩ := hp
    simp only [newPdu, Item.WF, Hdr.WF, pduAspa, sizeAspaFixed] at hsize ⊢
    exact ⟨⟨hv, by omega, by omega, hsize⟩, trivial, trivial, h2, h1⟩

/-- … and converting the PDU back gives the same action and item (origins compare by resolved
max length; a withdrawn ASPA carries no providers). -/
theorem payload_roundtrip (version flags : Nat) (p : PayloadItem) (hp : p.WF) (hf : flags < 256) :
    toPayload (newPdu version flags p) = some (Action.fromFlags flags, expectBack flags p) :=
  toPayload_newPdu version flags p hp hf

/-- Payload types are gated by protocol version: origins from 0, router keys from 1, ASPA from 2. -/
theorem version_gating (version flags : Nat) (p : PayloadItem) :
    (newIfSupported version flags p).isSome ↔ p.minVersion ≤ version := by
  unfold newIfSupported
  by_cases h : p.minVersion > version
  · simp [h] <;> omega
  · simp [h] <;> omega

/-- A stream that ends anywhere inside a PDU ends the read with an end-of-file error. -/
theorem truncation (it : Item) (hw : it.WF) (k : Nat) (hk : k < it.encode.length) :
    readPayload (it.encode.take k) = .error .eof := readPayload_truncated it hw k hk

/-- Whatever is accepted consumed exactly the announced number of bytes (≥ 8) of the input, and the
item carries the header that was on the wire: reading never runs past the PDU. -/
theorem bounded (s : Bytes) (it : Item) (rest : Bytes) (e : readPayload s = .ok (it, rest)) :
    ∃ used, s = used ++ rest ∧ used.length = it.hdr.length ∧ 8 ≤ used.length ∧ it.hdr = decHdr (s.take 8) :=
  readPayload_consumed s it rest e

/-- A header announcing an unknown payload type is rejected after the 8 header bytes. -/
theorem bad_type (h : Hdr) (hh : h.WF) (rest : Bytes)
    (hp : h.pdu ≠ pduIpv4Prefix ∧ h.pdu ≠ pduIpv6Prefix ∧ h.pdu ≠ pduRouterKey ∧ h.pdu ≠ pduAspa ∧ h.pdu ≠ pduEndOfData) :
    readPayload (encHdr h ++ rest) = .error .invalid := by
  unfold readPayload
  rw [readHdr_encHdr h hh]
  simp only
  unfold readItem
  rw [if_neg hp.1, if_neg hp.2.1, if_neg hp.2.2.1, if_neg hp.2.2.2.1, if_neg hp.2.2.2.2]

/-- A wrong length for a fixed-size PDU, or a bad End-of-Data version, is rejected without reading on. -/
theorem bad_length_fixed (h : Hdr) (hh : h.WF) (rest : Bytes) :
    (h.pdu = pduIpv4Prefix → h.length ≠ sizeIpv4Prefix → readPayload (encHdr h ++ rest) = .error .invalid) ∧
    (h.pdu = pduIpv6Prefix → h.length ≠ sizeIpv6Prefix → readPayload (encHdr h ++ rest) = .error .invalid) ∧
    (h.pdu = pduEndOfData → 3 ≤ h.version → readPayload (encHdr h ++ rest) = .error .invalid) := by
  refine ⟨?_, ?_, ?_⟩
  · intro hp hl
    unfold readPayload; rw [readHdr_encHdr h hh]; simp only
    unfold readItem; rw [if_pos hp]
    unfold readV4 readBody; rw [if_pos hl]
  · intro hp hl
    unfold readPayload; rw [readHdr_encHdr h hh]; simp only
    unfold readItem; rw [if_neg (by rw [hp]; decide), if_pos hp]
    unfold readV6 readBody; rw [if_pos hl]
  · intro hp hv
    unfold readPayload; rw [readHdr_encHdr h hh]; simp only
    unfold readItem
    rw [if_neg (by rw [hp]; decide), if_neg (by rw [hp]; decide), if_neg (by rw [hp]; decide),
      if_neg (by rw [hp]; decide), if_pos hp]
    unfold readEod; rw [if_neg (by omega), if_neg (by omega)]

/-- `Error::skip_payload` terminates on every stream under every chunking of the reads: success
after exactly the announced payload when it is there, an end-of-file error when the stream ends
early, `invalid` when the announced length is smaller than a header. -/
theorem skip_terminates (h : Hdr) (s : Bytes) (sched : List Nat) :
    skipPayload (h.length + 2) h s sched =
      some (if h.length < 8 then .error .invalid
            else if h.length - 8 ≤ s.length then .ok (s.drop (h.length - 8)) else .error .eof) :=
  skipPayload_spec h s sched

/-- Control PDUs: what `X::read` accepts is exactly a header with the right type and length
followed by the rest of the struct. -/
theorem control_roundtrip (pdu size : Nat) (h : Hdr) (hh : h.WF) (body rest : Bytes)
    (hp : h.pdu = pdu) (hl : h.length = size) (hb : body.length = size - sizeHeader) :
    readFixed pdu size (encHdr h ++ (body ++ rest)) = .ok (h, body, rest) := by
  unfold readFixed
  rw [readHdr_encHdr h hh]
  simp only
  rw [if_neg (by simp [hp]), if_neg (by simp [hl]), readExact_append _ _ _ hb]

/-- `X::try_read` is `X::read` on every stream whose first header is not an Error PDU's; on an Error PDU's header it
returns that header after exactly eight octets; it never fails where `read` succeeds. -/
theorem try_read_spec (pdu size : Nat) (s : Bytes) :
    (∀ h r, readHdr s = .ok (h, r) → h.pdu = pduError → tryReadFixed pdu size s = .ok (.inr h, r)) ∧
    (∀ h r, readHdr s = .ok (h, r) → h.pdu ≠ pduError →
      tryReadFixed pdu size s = (match readFixed pdu size s with
        | .ok (h', b, rest) => .ok (.inl (h', b), rest)
        | .error e => .error e)) ∧
    (∀ e, readHdr s = .error e → tryReadFixed pdu size s = .error e) := by
  refine ⟨?_, ?_, ?_⟩
  · intro h r hr hp
    unfold tryReadFixed; rw [hr]; simp [hp]
  · intro h r hr hp
    unfold tryReadFixed readFixed; rw [hr]
    simp only [hp, if_false]
    split
    · rfl
    · split
      · rfl
      · cases readExact (size - sizeHeader) r with
        | error e => rfl
        | ok q => rfl
  · intro e he
    unfold tryReadFixed; rw [he]

/-! ## Non-vacuity -/

def exItem : Item := .v4 ⟨1, 4, 0, 20⟩ 1 24 24 0 3232235776 64496
example : exItem.WF := by
  refine ⟨⟨by decide, by decide, by decide, by decide⟩, rfl, rfl, ?_⟩
  decide
example : exItem.encode = [1, 4, 0, 0, 0, 0, 0, 20, 1, 24, 24, 0, 192, 168, 1, 0, 0, 0, 251, 240] := by decide
example : (match readPayload (exItem.encode.take 19) with | .error .eof => true | _ => false) = true := by decide
example : (match skipPayload 20 ⟨1, 10, 0, 16⟩ [1, 2, 3] [1, 1, 1] with | some (.error .eof) => true | _ => false) = true := by decide

end Rpki.C07
