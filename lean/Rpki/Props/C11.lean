/-
  C11 — CA protocol XML round-trips and stays well-formed.

  The three protocols write their messages through one generic element writer (`xml::encode`)
  and read them through one generic reader.  The theorems are about that layer, for every tree:
  what the writer emits is read back to the same tree, attribute values and Base64 contents come
  back exactly, and distinct trees are written differently.  That each message type maps its
  fields to and from such a tree faithfully is established by the correspondence run (library
  writer vs library reader on generated messages, and the Lean reference reader on the bytes).
-/
import Rpki.Proofs.XmlDocLemmas
import Rpki.Proofs.XmlLemmas
import Rpki.Proofs.PubMsgLemmas
import Rpki.Proofs.IdxMsgLemmas
import Rpki.Proofs.ProvMsgLemmas
namespace Rpki.Props.C11
set_option autoImplicit false
open Rpki.Xml Rpki.XmlDoc
abbrev Bytes := List Nat

/-- **Documents.** For every tree whose names are XML names, whose attribute values contain no raw
quote or `<`, and whose text lines are non-empty, free of `<` and of surrounding white space (no two
text lines in a row), the reference reader returns exactly the tree that was written. -/
theorem document_roundtrip (n : Node) (h : n.WF) (hroot : ∃ name attrs body, n = .elem name attrs body) :
    parseDoc (writeDoc n) = some n := parse_write n h hroot

/-- Distinct well-formed trees are written as distinct documents. -/
theorem writer_injective (a b : Node) (ha : a.WF) (hb : b.WF)
    (hra : ∃ name attrs body, a = .elem name attrs body) (hrb : ∃ name attrs body, b = .elem name attrs body)
    (h : writeDoc a = writeDoc b) : a = b := writeDoc_injective a b ha hb hra hrb h

/-- **Attribute values** (handles, tags, class names, URIs, resource sets): whatever octets the value
contains — including `< > & " '` — the escaped form is an admissible attribute value of the
document theorem, and un-escaping it gives back the value. -/
theorem attribute_value_roundtrip (v : Bytes) :
    ValueOk (escapeAttr v) ∧ unescapeAll (escapeAttr v) = some v :=
  ⟨⟨(escapeAttr_safe v).1, (escapeAttr_safe v).2⟩, unescape_escapeAttr v⟩

/-- **Object contents**: the Base64 text of any octet string is an admissible text line when the
object is not empty, and decodes to exactly the object. -/
theorem object_text_roundtrip (d : Bytes) (hd : ∀ x ∈ d, x < 256) (hne : d ≠ []) :
    TextOk (b64Encode d) ∧ xmlB64Decode (b64Encode d) = some d := by
  have hr := mem_b64Encode_range d
  have hnil : b64Encode d ≠ [] := by
    cases d with
    | nil => exact absurd rfl hne
    | cons a t =>
      cases t with
      | nil => simp [b64Encode]
      | cons b t2 => cases t2 <;> simp [b64Encode]
  have nows : ∀ c ∈ b64Encode d, isWs c = false := by
    intro c hc
    have := hr c hc
    unfold isWs
    simp only [Bool.or_eq_false_iff, decide_eq_false_iff_not]
    omega
  refine ⟨⟨hnil, ?_, ?_, ?_⟩, xmlB64Decode_of_skipWs _ d hd (b64Encode_no_ws d hd)⟩
  · intro h60; have h := hr 60 h60
    -- 60 lies in the range of the alphabet but is not one of its characters
    have hne60 : ∀ v, b64Char v ≠ 60 := by
      intro v; unfold b64Char; repeat' split
      all_goals omega
    clear h
    -- every octet of the text is some `b64Char v` or the padding `=`
    have key : ∀ (d : Bytes) (c : Nat), c ∈ b64Encode d → (∃ v, c = b64Char v) ∨ c = 61 := by
      intro d
      induction d using b64Encode.induct with
      | case1 => intro c hc; simp [b64Encode] at hc
      | case2 a => intro c hc; simp only [b64Encode, List.mem_cons, List.mem_nil_iff, or_false] at hc
                   rcases hc with h | h | h | h
                   · exact Or.inl ⟨_, h⟩
                   · exact Or.inl ⟨_, h⟩
                   · exact Or.inr h
                   · exact Or.inr h
      | case3 a b => intro c hc; simp only [b64Encode, List.mem_cons, List.mem_nil_iff, or_false] at hc
                     rcases hc with h | h | h | h
                     · exact Or.inl ⟨_, h⟩
                     · exact Or.inl ⟨_, h⟩
                     · exact Or.inl ⟨_, h⟩
                     · exact Or.inr h
      | case4 a b c' rest ih => intro c hc; simp only [b64Encode, List.mem_cons] at hc
                                rcases hc with h | h | h | h | h
                                · exact Or.inl ⟨_, h⟩
                                · exact Or.inl ⟨_, h⟩
                                · exact Or.inl ⟨_, h⟩
                                · exact Or.inl ⟨_, h⟩
                                · exact ih c h
    rcases key d 60 h60 with ⟨v, hv⟩ | h
    · exact hne60 v hv.symm
    · omega
  · intro c hc
    cases hb : b64Encode d with
    | nil => exact absurd hb hnil
    | cons x xs => rw [hb] at hc; simp at hc; subst hc; exact nows x (by rw [hb]; simp)
  · intro c hc
    exact nows c (List.mem_of_getLast? hc)

/-- the reader joins adjacent text lines and rejects a bare text root: the side conditions of
`document_roundtrip` are necessary -/
theorem side_conditions_needed :
    parseDoc (writeDoc (.elem [97] [] (some (.cons (.text [120]) (.cons (.text [121]) .nil))))) =
      some (.elem [97] [] (some (.cons (.text [120, 10, 32, 32, 121]) .nil))) ∧
    parseDoc (writeDoc (.text [120])) = none :=
  ⟨adjacent_text_lines_are_joined.1, text_root_is_rejected.2⟩

/-! ## RFC 8181 messages (`Model/PubMsg.lean`, tied to `publication::Message` by the `pubx` op) -/

/-- **Publication protocol, message level.** Every message the public constructors can build — list
query, success, any delta of publish / update / withdraw elements with any tags, URIs and object
contents (empty objects included), any list reply, any sequence of error reports — is written as a
document that the reference reader reads back as the same message, up to the two representation
choices `norm` names (an absent tag is written as the empty tag; an error reply without reports is
written like an empty list reply). -/
theorem publication_roundtrip (m : PubMsg.Msg) (hw : m.WF) : PubMsg.read (PubMsg.write m) = some (PubMsg.norm m) :=
  PubMsg.read_write_any m hw

/-- … the written document is well-formed for the generic document theorem when no object is empty … -/
theorem publication_tree_wf (m : PubMsg.Msg) (hw : m.WF) (hp : m.Plain) : (PubMsg.toTree m).WF :=
  PubMsg.toTree_WF m hw hp

/-- … and two messages that are written alike are the same message (up to `norm`). -/
theorem publication_injective (a b : PubMsg.Msg) (ha : a.WF) (hb : b.WF) (h : PubMsg.write a = PubMsg.write b) :
    PubMsg.norm a = PubMsg.norm b := PubMsg.write_injective_any a b ha hb h

/-- the two representation choices are real: these pairs of distinct messages are written alike -/
theorem publication_norm_needed (u h : List Nat) :
    PubMsg.write (.delta [.withdraw none u h]) = PubMsg.write (.delta [.withdraw (some []) u h]) ∧
    PubMsg.write (.errors []) = PubMsg.write (.listReply []) := PubMsg.norm_needed u h


/-! ## RFC 8183 messages (`Model/IdxMsg.lean`, tied to the four identity-exchange types by the `idx` op) -/

/-- **Identity exchange, message level.** Every child request, parent response, publisher request
and repository response — any handles, service and repository URIs, tags (absent, empty or not),
certificate octets (empty included) — is written as a document that the reference reader reads
back as exactly the same message. -/
theorem idexchange_roundtrip (m : IdxMsg.Msg) (hw : m.WF) : IdxMsg.read (IdxMsg.write m) = some m :=
  IdxMsg.read_write m hw

/-- Two setup messages that are written alike are the same message. -/
theorem idexchange_injective (a b : IdxMsg.Msg) (ha : a.WF) (hb : b.WF) (h : IdxMsg.write a = IdxMsg.write b) : a = b :=
  IdxMsg.write_injective a b ha hb h

/-- The written tree meets the side conditions of the document theorem whenever the certificate is not empty. -/
theorem idexchange_tree_wf (m : IdxMsg.Msg) (hw : m.WF) (hne : m.cert ≠ []) : (IdxMsg.toTree m).WF :=
  IdxMsg.toTree_WF m hw hne


/-! ## RFC 6492 messages (`Model/ProvMsg.lean`, tied to `provisioning::Message` by the `prvx` op) -/

/-- **Provisioning protocol, message level.** Every list, list response (any number of classes,
each with any canonical AS / IPv4 / IPv6 resource set, any time in the four-digit years, any
number of issued certificates with or without request limits, any certificate octets), issuance
request and response, revocation request and response (a key identifier of any length) and error
response is written as a document that the reference reader — including its readers of the
resource-set text, the time and the two Base64 flavours — reads back as exactly the same
message. -/
theorem provisioning_roundtrip (m : ProvMsg.Msg) (hw : m.WF) : ProvMsg.read (ProvMsg.write m) = some m :=
  ProvMsg.read_write m hw

/-- Two provisioning messages that are written alike are the same message. -/
theorem provisioning_injective (a b : ProvMsg.Msg) (ha : a.WF) (hb : b.WF) (h : ProvMsg.write a = ProvMsg.write b) :
    a = b := ProvMsg.write_injective a b ha hb h

/-- The subject key identifier of a revocation survives its unpadded URL-safe Base64 form, whatever
its length; the `resource_set_notafter` time survives its RFC 3339 form. -/
theorem provisioning_fields (k : List Nat) (hk : PubMsg.BytesOk k) (c : X509.Civil)
    (h : c.y < 10000 ∧ c.m < 100 ∧ c.d < 100 ∧ c.h < 100 ∧ c.mi < 100 ∧ c.s < 100) :
    ProvMsg.unB64Url (ProvMsg.b64Url k) = some k ∧ ProvMsg.readTime (ProvMsg.rfc3339 c) = some c :=
  ⟨ProvMsg.unB64Url_b64Url k hk, ProvMsg.readTime_rfc3339 c h⟩


end Rpki.Props.C11
