/-
C15 — SLURM: a payload is dropped exactly when some filter of its kind matches; JSON round trip;
assertions yield exactly their payload.
-/
import Rpki.Proofs.SlurmLemmas
import Rpki.Proofs.PrefixOrder
import Rpki.Proofs.JsonTextTyped
import Rpki.Proofs.JsonReadLemmas
import Rpki.Proofs.JsonPrettyLemmas
namespace Rpki.C15
open Rpki.Slurm Rpki.Prefix Rpki.Consts

/-- a prefix filter matches an origin: at least one criterion is present, every present criterion holds -/
def matchesPrefix (pf : PrefixFilter) (o : Origin) : Prop :=
  (pf.pfx.isSome ∨ pf.asn.isSome) ∧ (∀ q, pf.pfx = some q → covers q o.mlp.pfx = true) ∧
  (∀ a, pf.asn = some a → a = o.asn)

def matchesKey (bf : BgpsecFilter) (k : RouterKey) : Prop :=
  (bf.ski.isSome ∨ bf.asn.isSome) ∧ (∀ s, bf.ski = some s → s = k.ski) ∧ (∀ a, bf.asn = some a → a = k.asn)

theorem dropOrigin_iff (pf : PrefixFilter) (o : Origin) : pf.dropOrigin o = true ↔ matchesPrefix pf o := by
  obtain ⟨p, a, c⟩ := pf
  unfold PrefixFilter.dropOrigin matchesPrefix andOr
  cases p <;> cases a <;> simp

theorem dropKey_iff (bf : BgpsecFilter) (k : RouterKey) : bf.dropKey k = true ↔ matchesKey bf k := by
  obtain ⟨s, a, c⟩ := bf
  unfold BgpsecFilter.dropKey matchesKey andOr
  cases s <;> cases a <;> simp

/-- A payload item is dropped exactly when one of the filters *for that kind of item* matches. -/
theorem drop_iff (f : Filters) (p : Payload) :
    f.dropPayload p = true ↔
      (∃ o, p = .origin o ∧ ∃ pf ∈ f.pfs, matchesPrefix pf o) ∨
      (∃ k, p = .routerKey k ∧ ∃ bf ∈ f.bgpsec, matchesKey bf k) ∨
      (∃ a, p = .aspa a ∧ ∃ af ∈ f.aspa.getD [], af.customer = some a.customer) := by
  have hflag : slurmDropAllKinds = true := rfl
  unfold Filters.dropPayload
  simp only [hflag, if_true, Bool.or_eq_true, List.any_eq_true]
  cases p with
  | origin o =>
    simp only [PrefixFilter.dropPayload, BgpsecFilter.dropPayload, AspaFilter.dropPayload, dropOrigin_iff]
    simp
  | routerKey k =>
    simp only [PrefixFilter.dropPayload, BgpsecFilter.dropPayload, AspaFilter.dropPayload, dropKey_iff]
    simp
  | aspa a =>
    simp only [PrefixFilter.dropPayload, BgpsecFilter.dropPayload, AspaFilter.dropPayload]
    simp only [Bool.false_eq_true, and_false, exists_false, false_or, reduceCtorEq, false_and,
      Payload.aspa.injEq, exists_eq_left']
    constructor
    · rintro ⟨af, h1, h2⟩
      refine ⟨af, h1, ?_⟩
      unfold AspaFilter.dropAspa at h2
      cases hc : af.customer with
      | none => simp [hc] at h2
      | some c => simp [hc] at h2; rw [h2]
    · rintro ⟨af, h1, h2⟩
      exact ⟨af, h1, by unfold AspaFilter.dropAspa; simp [h2]⟩

/-- The prefix criterion is inclusion of the origin's address range (for well-formed prefixes). -/
theorem prefix_criterion_is_range (q : Pfx) (o : Origin) (hq : WF q) (ho : WF o.mlp.pfx) :
    covers q o.mlp.pfx = true ↔ q.isV4 = o.mlp.pfx.isV4 ∧ q.lo ≤ o.mlp.pfx.lo ∧ o.mlp.pfx.hi ≤ q.hi :=
  covers_iff_range' q o.mlp.pfx hq ho

/-- Filters with no criteria match nothing. -/
theorem no_criteria_no_match (o : Origin) (k : RouterKey) (a : Aspa) (c1 c2 c3 : Option Bytes) :
    (PrefixFilter.mk none none c1).dropPayload (.origin o) = false ∧
    (BgpsecFilter.mk none none c2).dropPayload (.routerKey k) = false ∧
    (AspaFilter.mk none c3).dropPayload (.aspa a) = false := by
  simp [PrefixFilter.dropPayload, PrefixFilter.dropOrigin, BgpsecFilter.dropPayload, BgpsecFilter.dropKey,
    AspaFilter.dropPayload, AspaFilter.dropAspa, andOr]

/-- Serialising a file to its JSON tree and parsing it back gives an equal file. -/
theorem json_roundtrip (f : SlurmFile) (h : f.WF) : SlurmFile.fromJson f.toJson = some f :=
  SlurmFile.roundtrip f h

/-- **JSON text, any tree.** The reference reader gives back the tree a text was written from —
nested arrays and objects, numbers, strings with every octet value (serde_json's escapes for `"`,
`\\` and the control characters, everything else as it is); prefixes and Base64 values come back as
the strings they were written as (`erase`). -/
theorem json_text_tree_roundtrip (j : Json) : JsonText.parse (JsonText.render j) = some (JsonText.erase j) :=
  JsonText.parse_render j

/-- **JSON text of a file.** What `SlurmFile::to_string` writes (compared byte for byte with the
library on every case) is read back — text to tree, the strings under `prefix`, `SKI` and
`routerPublicKey` through `Prefix::from_str` / the Base64 reader, then the field deserialisers — as the
file it was written for. -/
theorem json_text_roundtrip (f : SlurmFile) (hw : f.WF) (ht : JsonText.FileTextWF f) :
    JsonText.readFile (JsonText.fileText f) = some f := JsonText.readFile_fileText f hw ht

/-- **`from_str` after `to_string`.** The model of serde_json's reader (`Model/JsonRead.lean`: white
space, every escape of RFC 8259 with surrogate pairs, the number grammar, no trailing commas, nothing
after the value; compared with `SlurmFile::from_str` on written and on mutated texts) reads the text
the writer model produces for a well-formed file back as that file — the statement's "serialising a
file to JSON and parsing it back gives an equal file", on octets in both directions. -/
theorem from_str_to_string (f : SlurmFile) (hw : f.WF) (ht : JsonText.FileTextWF f) :
    JsonRead.readFile (JsonText.fileText f) = some f := JsonRead.readFile_fileText f hw ht

/-- **`from_str` after `to_string_pretty`.** The pretty form (`serde_json`'s `PrettyFormatter`: every element
and member on its own line, indented by two spaces per level, `"name": value`; `Model/JsonPretty.lean`, compared
byte for byte with `SlurmFile::to_string_pretty`) is read back by the reader model as the file, too. -/
theorem from_str_to_string_pretty (f : SlurmFile) (hw : f.WF) (ht : JsonText.FileTextWF f) :
    JsonRead.readFile (JsonText.fileTextPretty f) = some f := JsonRead.readFile_fileTextPretty f hw ht

/-- On what the writer produces, the serde_json reader model and the reference reader agree (for every tree). -/
theorem readers_agree_on_written_text (j : Json) :
    JsonRead.readText (JsonText.render j) = JsonText.parse (JsonText.render j) := by
  rw [JsonRead.readText_render, JsonText.parse_render]

/-- Files with the same text are the same file. -/
theorem json_text_injective (f g : SlurmFile) (hf : f.WF) (hg : g.WF) (tf : JsonText.FileTextWF f)
    (tg : JsonText.FileTextWF g) (h : JsonText.fileText f = JsonText.fileText g) : f = g := by
  have h1 := JsonText.readFile_fileText f hf tf
  rw [h, JsonText.readFile_fileText g hg tg] at h1
  cases h1; rfl

/-- Each assertion yields the payload item with exactly its fields, in the order
prefix – BGPsec – ASPA. -/
theorem assertions_payload (a : Assertions) :
    a.payloads = a.pas.map (fun x => Payload.origin ⟨x.mlp, x.asn⟩)
      ++ a.bgpsec.map (fun x => Payload.routerKey ⟨x.ski, x.asn, x.key⟩)
      ++ (a.aspa.getD []).map (fun x => Payload.aspa ⟨x.customer, x.providers⟩) := rfl

/-- `SlurmFile::new` chooses version 2 exactly when ASPA entries are present. -/
theorem new_version (f : Filters) (a : Assertions) :
    (SlurmFile.new f a).version = (if a.aspa.isSome ∨ f.aspa.isSome then 2 else 1) ∧
    (SlurmFile.new f a).filters = f ∧ (SlurmFile.new f a).assertions = a := by
  unfold SlurmFile.new
  cases a.aspa <;> cases f.aspa <;> simp

/-! ## Non-vacuity -/

def exFilters : Filters := ⟨[], [⟨none, some 5, none⟩], none⟩
example : exFilters.dropPayload (.routerKey ⟨[], 5, []⟩) = true := by decide
example : exFilters.dropPayload (.routerKey ⟨[], 6, []⟩) = false := by decide
example : (SlurmFile.mk 1 exFilters ⟨[], [], none⟩).WF := by
  refine ⟨Or.inl rfl, ⟨by simp [exFilters], ?_, by simp [exFilters]⟩, by simp, by simp, by simp⟩
  intro x hx; simp [exFilters] at hx; subst hx
  exact ⟨by simp [okOptU32, U32], by simp⟩

-- the text hypotheses hold for a file with a prefix filter, and its text is what one expects
def exFile : SlurmFile := ⟨1, ⟨[⟨some ⟨8, 10 * 2 ^ 120⟩, some 5, some [34, 10]⟩], [], none⟩, ⟨[], [], none⟩⟩
example : JsonText.FileTextWF exFile := by
  refine ⟨?_, by simp [exFile], by simp [exFile], by simp [exFile]⟩
  intro x hx; simp [exFile] at hx; subst hx
  intro p hp; cases hp
  exact PfxText.wf_of_newV4 (10 * 2 ^ 24) 8 _ (by omega) (by omega) (by decide)

end Rpki.C15
