/-
C17 — X.509 times and validity windows mean what the calendar says; serial numbers round-trip.
Only property theorems and non-vacuity examples; lemmas are in Rpki/Proofs/X509*.lean.
-/
import Rpki.Proofs.X509Time
import Rpki.Proofs.X509Serial3
import Rpki.Proofs.InstantLemmas
namespace Rpki.C17
open Rpki.X509 Rpki.Consts

/-! ## Time -/

/-- Every calendar second of the years 0–9999 encodes and decodes back to the same instant,
with `take_from` … -/
theorem time_roundtrip (c : Civil) (hv : validCivil c = true) (hy : c.y ≤ 9999) :
    decodeTime (encodeVaried c).1 (encodeVaried c).2 = some c :=
  time_roundtrip_with utcPivot rfl c hv hy

/-- … and with `take_opt_from` (which carries its own copy of the pivot). -/
theorem time_roundtrip_opt (c : Civil) (hv : validCivil c = true) (hy : c.y ≤ 9999) :
    decodeTimeOpt (encodeVaried c).1 (encodeVaried c).2 = some c :=
  time_roundtrip_with utcPivotOpt rfl c hv hy

/-- UTCTime exactly for 1950–2049, GeneralizedTime otherwise; widths 13 and 15. -/
theorem encode_tag_width (c : Civil) :
    ((encodeVaried c).1 = .utc ↔ 1950 ≤ c.y ∧ c.y ≤ 2049) ∧
    ((encodeVaried c).1 = .utc → (encodeVaried c).2.length = 13) ∧
    ((encodeVaried c).1 = .generalized → (encodeVaried c).2.length = 15) := by
  unfold encodeVaried utcYearMin utcYearMax
  by_cases hw : c.y < 1950 ∨ c.y > 2049
  · have : ¬ (1950 ≤ c.y ∧ c.y ≤ 2049) := by omega
    simp [hw, this, pad2, pad4]
  · have : (1950 ≤ c.y ∧ c.y ≤ 2049) := by omega
    simp [hw, this, pad2]

/-- Decoding accepts only the fixed-width all-digit 'Z'-terminated form naming a real calendar
date and time, with the two-digit year pivot at 50. -/
theorem decode_sound (tag : TimeTag) (bs : Bytes) (c : Civil) (h : decodeTime tag bs = some c) :
    validCivil c = true ∧
    bs = (match tag with | .utc => pad2 (c.y % 100) | .generalized => pad4 c.y)
          ++ pad2 c.m ++ pad2 c.d ++ pad2 c.h ++ pad2 c.mi ++ pad2 c.s ++ [90] ∧
    (tag = .utc → 1950 ≤ c.y ∧ c.y ≤ 2049) ∧ c.y ≤ 9999 := by
  unfold decodeTime decodeTimeWith at h
  cases tag with
  | utc =>
    simp only at h
    cases h1 : readChars 2 bs with
    | none => simp [h1] at h
    | some p =>
      obtain ⟨yy, r⟩ := p
      simp only [h1] at h
      have ⟨e1, hyy⟩ := readChars2_inv _ _ _ h1
      have ⟨hv, hy, hr⟩ := readRest_inv _ _ _ h
      have hp : utcPivot = 50 := rfl
      rw [hp] at hy
      have hmod : c.y % 100 = yy := by rw [hy]; split <;> omega
      refine ⟨hv, ?_, (fun _ => by rw [hy]; split <;> omega), (by rw [hy]; split <;> omega)⟩
      simp only [hmod]
      rw [e1, hr]; simp
  | generalized =>
    simp only at h
    cases h1 : readChars 4 bs with
    | none => simp [h1] at h
    | some p =>
      obtain ⟨y, r⟩ := p
      simp only [h1] at h
      have ⟨e1, hyy⟩ := readChars4_inv _ _ _ h1
      have ⟨hv, hy, hr⟩ := readRest_inv _ _ _ h
      refine ⟨hv, ?_, (fun h => by cases h), (by omega)⟩
      simp only [hy]
      rw [e1, hr]; simp

/-! ## Validity windows -/

/-- A window accepts an evaluation time exactly when not-before ≤ time ≤ not-after. -/
theorem validity_iff (v : Validity) (now : Int) : verifyAt v now = .ok () ↔ v.nb ≤ now ∧ now ≤ v.na := by
  unfold verifyAt
  by_cases h1 : now < v.nb
  · simp [h1] <;> omega
  · by_cases h2 : now > v.na
    · simp [h1, h2] <;> omega
    · simp [h1, h2] <;> omega

/-- **Calendar order is the order of instants.** `x509::Time` compares instants (`chrono::DateTime`);
for real calendar times the instant — seconds counted through the proleptic Gregorian calendar,
`Model/Instant.lean`, tied to `Time::timestamp` on every day of the years 1–9999 — is earlier exactly
when the civil time (year, month, day, hour, minute, second) is earlier, and different civil times are
different instants. -/
theorem calendar_order_is_instant_order (a b : Civil) (ha : validCivil a = true) (hb : validCivil b = true) :
    (unixOf a < unixOf b ↔ civilLt a b) ∧ (unixOf a = unixOf b ↔ a = b) := by
  unfold unixOf
  constructor
  · have := secsOf_lt_iff a b ha hb
    constructor
    · intro h; exact this.1 (by omega)
    · intro h; have := this.2 h; omega
  · constructor
    · intro h; exact secsOf_injective a b ha hb (by omega)
    · intro h; rw [h]

/-- A window given by two calendar times accepts a calendar time exactly when that time is not before
the first and not after the second **on the calendar**. -/
theorem validity_iff_calendar (nb na t : Civil) (h1 : validCivil nb = true) (h2 : validCivil na = true)
    (h3 : validCivil t = true) :
    verifyAt ⟨unixOf nb, unixOf na⟩ (unixOf t) = .ok () ↔ ¬ civilLt t nb ∧ ¬ civilLt na t := by
  rw [validity_iff]
  have a := (calendar_order_is_instant_order t nb h3 h1).1
  have b := (calendar_order_is_instant_order na t h2 h3).1
  simp only
  constructor
  · rintro ⟨x, y⟩
    exact ⟨fun h => by have := a.2 h; omega, fun h => by have := b.2 h; omega⟩
  · rintro ⟨x, y⟩
    constructor
    · apply Int.not_lt.mp; intro h; exact x (a.1 h)
    · apply Int.not_lt.mp; intro h; exact y (b.1 h)

/-- **Years from a date.** `Time::years_from_date` keeps month, day and time of day (29 February becomes
28 February) and names a real calendar time whenever its argument does; with zero years and no leap day
it is the identity. -/
theorem years_from_date_spec (years : Int) (c : Civil) (h : validCivil c = true) :
    validCivil (yearsFromDate years c) = true ∧
    (yearsFromDate years c).m = c.m ∧ (yearsFromDate years c).h = c.h ∧ (yearsFromDate years c).mi = c.mi ∧
    ((c.d = 29 ∧ c.m = 2) → (yearsFromDate years c).d = 28) ∧
    (¬ (c.d = 29 ∧ c.m = 2) → (yearsFromDate years c).d = c.d) ∧
    (¬ (c.d = 29 ∧ c.m = 2) → yearsFromDate 0 c = c) := by
  refine ⟨yearsFromDate_valid years c h, rfl, rfl, rfl, ?_, ?_, ?_⟩
  · intro hl; simp [yearsFromDate, hl]
  · intro hl; simp [yearsFromDate, hl]
  · intro hl
    have hs : min c.s 59 = c.s := by
      have := (valid_parts c h).2.2.2.2.2.2; omega
    obtain ⟨y, m, d, hh, mi, s⟩ := c
    simp only [yearsFromDate] at *
    simp [hl, hs]

/-- Trimming two windows gives their intersection. -/
theorem trim_inter (a b : Validity) (now : Int) :
    verifyAt (trim a b) now = .ok () ↔ verifyAt a now = .ok () ∧ verifyAt b now = .ok () := by
  rw [validity_iff, validity_iff, validity_iff]
  unfold trim
  simp only
  omega

/-! ## Serial numbers -/

/-- `from_slice` accepts exactly non-empty slices of ≤ 20 octets with value < 2^159 and keeps the value. -/
theorem serial_fromSlice (s : Bytes) (hs : AllBytes s) :
    (∀ a, fromSlice s = .ok a → s ≠ [] ∧ s.length ≤ 20 ∧ a = List.replicate (20 - s.length) 0 ++ s ∧
      toNatBE a = toNatBE s ∧ VS a) ∧
    (s ≠ [] → s.length ≤ 20 → toNatBE s * 2 < 256 ^ 20 →
      fromSlice s = .ok (List.replicate (20 - s.length) 0 ++ s)) := fromSlice_spec s hs

/-- Serial numbers round-trip through their decimal text … -/
theorem serial_dec_roundtrip (a : Bytes) (ha : VS a) : fromStr (encodeDec a) = some a :=
  dec_roundtrip' a ha

/-- … parsing a decimal string yields exactly its value, and fails exactly on non-digits or overflow. -/
theorem serial_fromStr_value (t a : Bytes) (h : fromStr t = some a) :
    t.all isDigit = true ∧ toNatBE a = digitsVal t 0 ∧ VS a := by
  have := fromStrAux_sound t zero20 a vs_zero h
  have hz : toNatBE zero20 = 0 := by unfold zero20; exact toNatBE_replicate_zero 20
  rw [hz] at this; exact this

theorem serial_fromStr_complete (t : Bytes) (hd : t.all isDigit = true) (hv : digitsVal t 0 * 2 < 256 ^ 20) :
    ∃ a, fromStr t = some a := by
  have hz : toNatBE zero20 = 0 := by unfold zero20; exact toNatBE_replicate_zero 20
  exact fromStrAux_complete t zero20 vs_zero hd (by rw [hz]; exact hv)

/-- The DER INTEGER content is the minimal non-negative form of the value and decodes back. -/
theorem serial_der_roundtrip (a : Bytes) (ha : VS a) :
    decodeSerialContent (encodeContent a) = some a ∧
    toNatBE (encodeContent a) = toNatBE a ∧ (encodeContent a).headD 0 < 128 ∧ encodeContent a ≠ [] ∧
    ¬ ((encodeContent a).length ≥ 2 ∧ (encodeContent a).headD 0 = 0 ∧ (encodeContent a).getD 1 0 < 128) :=
  der_roundtrip' a ha

/-- Both text and array order are numeric order. -/
theorem serial_order (a b : Bytes) (ha : VS a) (hb : VS b) :
    lexCmp a b = compare (toNatBE a) (toNatBE b) :=
  lexCmp_eq_compare a b (by rw [ha.1, hb.1]) ha.2.1 hb.2.1

/-! ## Non-vacuity -/

example : validCivil ⟨2024, 2, 29, 23, 59, 59⟩ = true ∧
    encodeVaried ⟨2024, 2, 29, 23, 59, 59⟩ = (.utc, [50, 52, 48, 50, 50, 57, 50, 51, 53, 57, 53, 57, 90]) := by decide
example : decodeTime .utc [53, 48, 48, 49, 48, 49, 48, 48, 48, 48, 48, 48, 90] = some ⟨1950, 1, 1, 0, 0, 0⟩ := by decide
example : decodeTime .utc [43, 53, 48, 49, 48, 49, 48, 48, 48, 48, 48, 48, 90] = none := by decide
example : verifyAt ⟨10, 20⟩ 10 = .ok () ∧ verifyAt ⟨10, 20⟩ 21 = .error .tooOld := by decide
example : VS (List.replicate 19 0 ++ [128]) ∧ encodeContent (List.replicate 19 0 ++ [128]) = [0, 128] := by
  refine ⟨⟨by decide, ?_, by decide⟩, by decide⟩
  intro b hb; simp at hb; rcases hb with h | h <;> omega

end Rpki.C17
