/-
  C01 — certificate validation: only correctly issued certificates, resources never grow.
  Property theorems over `Rpki/Model/Cert.lean`; the resource part rests on C03's
  `verifyIssued_subset`.
-/
import Rpki.Props.C03
import Rpki.Model.Cert
import Rpki.Proofs.CertDerLemmas
namespace Rpki.Props.C01
open Rpki.Chain Rpki.Cert

/-- the claimed blocks of a decoded certificate are canonical chains (they are produced by
`from_iter`, see `C03.fromIter_canon_den`) -/
def ClaimsCanon (f : Facts) : Prop :=
  (∀ c, f.v4 = .blocks c → Canon maxV4 c) ∧ (∀ c, f.v6 = .blocks c → Canon maxV6 c) ∧
  (∀ c, f.asn = .blocks c → Canon maxAs c)

def RC.Canon (r : RC) : Prop := Chain.Canon maxV4 r.v4 ∧ Chain.Canon maxV6 r.v6 ∧ Chain.Canon maxAs r.asn

/-- `r`'s resources are a subset of `i`'s in every family -/
def RC.Sub (r i : RC) : Prop :=
  (∀ x, mem r.v4 x → mem i.v4 x) ∧ (∀ x, mem r.v6 x → mem i.v6 x) ∧ (∀ x, mem r.asn x → mem i.asn x)

theorem validityOk_iff (f : Facts) (now : Int) :
    validityOk f now = true ↔ f.validity.nb ≤ now ∧ now ≤ f.validity.na := by
  unfold validityOk X509.verifyAt
  by_cases h1 : now < f.validity.nb
  · simp [h1] <;> omega
  · by_cases h2 : now > f.validity.na
    · simp [h1, h2] <;> omega
    · simp [h1, h2] <;> omega

theorem issuerClaim_iff (f : Facts) (i : RC) :
    issuerClaim f i = true ↔ f.aki = some i.ski ∧ f.aia = true := by
  unfold issuerClaim
  cases h : f.aki with
  | none => simp
  | some a => simp

/-- **Issued certificates (CA and EE).** Verification succeeds exactly when the evaluation time is
inside the validity window, the authority key identifier is the issuer's subject key identifier
(and an AIA is present), the signature verifies under the issuer's key, and the resources are
admissible; the result carries exactly the resources `verify_issued` computes. -/
theorem verifyIssuedCert_iff (f : Facts) (i : RC) (now : Int) (r : RC) :
    verifyIssuedCert f i now = some r ↔
      (f.validity.nb ≤ now ∧ now ≤ f.validity.na) ∧ f.aki = some i.ski ∧ f.aia = true ∧
      f.sigOk = true ∧ verifyResources f i = some r := by
  unfold verifyIssuedCert
  by_cases hv : validityOk f now = true
  · by_cases hc : issuerClaim f i = true
    · by_cases hs : f.sigOk = true
      · have hv' := (validityOk_iff f now).1 hv
        have hc' := (issuerClaim_iff f i).1 hc
        simp [hv, hc, hs, hv', hc'.1, hc'.2]
      · simp only [hv, hc, hs, Bool.not_true, Bool.false_eq_true, if_false, Bool.not_false, if_true]
        simp [hs]
    · simp only [hv, hc, Bool.not_true, Bool.false_eq_true, if_false, Bool.not_false, if_true]
      have : ¬ (f.aki = some i.ski ∧ f.aia = true) := fun h => hc ((issuerClaim_iff f i).2 h)
      constructor
      · intro h; cases h
      · rintro ⟨_, h1, h2, _⟩; exact absurd ⟨h1, h2⟩ this
  · simp only [hv, Bool.not_false, if_true]
    have : ¬ (f.validity.nb ≤ now ∧ now ≤ f.validity.na) := fun h => hv ((validityOk_iff f now).2 h)
    constructor
    · intro h; cases h
    · rintro ⟨h1, _⟩; exact absurd h1 this

theorem validateCa_iff (f : Facts) (i : RC) (now : Int) (r : RC) :
    validateCa f i now = some r ↔ inspectCa f = true ∧ verifyIssuedCert f i now = some r := by
  unfold validateCa; by_cases h : inspectCa f = true <;> simp [h]

theorem validateEe_iff (f : Facts) (i : RC) (now : Int) (r : RC) :
    validateEe f i now = some r ↔ inspectEe f = true ∧ verifyIssuedCert f i now = some r := by
  unfold validateEe; by_cases h : inspectEe f = true <;> simp [h]

theorem inspectBasics_ski {f : Facts} (h : inspectBasics f = true) : f.ski = f.keyId := by
  unfold inspectBasics at h
  simp only [Bool.and_eq_true, beq_iff_eq] at h
  exact h.1.2

/-- **What acceptance implies (CA).** -/
theorem validateCa_sound (f : Facts) (i : RC) (now : Int) (r : RC) (h : validateCa f i now = some r) :
    f.sigOk = true ∧ f.validity.nb ≤ now ∧ now ≤ f.validity.na ∧ f.aki = some i.ski ∧ f.ski = f.keyId := by
  obtain ⟨hi, hv⟩ := (validateCa_iff f i now r).1 h
  obtain ⟨⟨h1, h2⟩, h3, _, h5, _⟩ := (verifyIssuedCert_iff f i now r).1 hv
  have hb : inspectBasics f = true := by
    unfold inspectCa at hi; simp only [Bool.and_eq_true] at hi; exact hi.1.1
  exact ⟨h5, h1, h2, h3, inspectBasics_ski hb⟩

/-- **What acceptance implies (EE).** -/
theorem validateEe_sound (f : Facts) (i : RC) (now : Int) (r : RC) (h : validateEe f i now = some r) :
    f.sigOk = true ∧ f.validity.nb ≤ now ∧ now ≤ f.validity.na ∧ f.aki = some i.ski ∧ f.ski = f.keyId := by
  obtain ⟨hi, hv⟩ := (validateEe_iff f i now r).1 h
  obtain ⟨⟨h1, h2⟩, h3, _, h5, _⟩ := (verifyIssuedCert_iff f i now r).1 hv
  have hb : inspectBasics f = true := by
    unfold inspectEe at hi; simp only [Bool.and_eq_true] at hi; exact hi.1.1.1.1.1.1
  exact ⟨h5, h1, h2, h3, inspectBasics_ski hb⟩

/-- **What acceptance implies (router certificate).** -/
theorem validateRouter_sound (f : Facts) (i : RC) (now : Int) (h : validateRouter f i now = true) :
    f.sigOk = true ∧ f.validity.nb ≤ now ∧ now ≤ f.validity.na ∧ f.aki = some i.ski ∧ f.ski = f.keyId ∧
    (verifyIssued maxAs i.asn f.asn f.trim).isSome = true := by
  unfold validateRouter at h
  by_cases h0 : inspectRouter f = true
  · by_cases hv : validityOk f now = true
    · by_cases hc : issuerClaim f i = true
      · by_cases hs : f.sigOk = true
        · simp only [h0, hv, hc, hs, Bool.not_true, Bool.false_eq_true, if_false] at h
          have hv' := (validityOk_iff f now).1 hv
          have hk : f.ski = f.keyId := by
            unfold inspectRouter at h0; simp only [Bool.and_eq_true, beq_iff_eq] at h0
            exact h0.1.1.1.1.1.1.1.1.2
          exact ⟨hs, hv'.1, hv'.2, ((issuerClaim_iff f i).1 hc).1, hk, h⟩
        · simp [h0, hv, hc, hs] at h
      · simp [h0, hv, hc] at h
    · simp [h0, hv] at h
  · simp [h0] at h

/-- **Trust anchors.** Accepted only with a valid self-signature, inside the validity window,
with the key identifier matching the key, and with no inherited resources; the result carries
exactly the listed blocks. -/
theorem validateTa_sound (f : Facts) (now : Int) (r : RC) (h : validateTa f now = some r) :
    f.sigOk = true ∧ f.validity.nb ≤ now ∧ now ≤ f.validity.na ∧ f.ski = f.keyId ∧
    f.v4 ≠ .inherit ∧ f.v6 ≠ .inherit ∧ f.asn ≠ .inherit ∧
    fromResources f.v4 = some r.v4 ∧ fromResources f.v6 = some r.v6 ∧ fromResources f.asn = some r.asn := by
  unfold validateTa at h
  by_cases h0 : inspectTa f = true
  · by_cases hv : validityOk f now = true
    · simp only [h0, hv, Bool.not_true, Bool.false_eq_true, if_false] at h
      have hv' := (validityOk_iff f now).1 hv
      have hk : f.ski = f.keyId := by
        unfold inspectTa at h0; simp only [Bool.and_eq_true] at h0
        exact inspectBasics_ski h0.1.1.1.1
      cases h4 : fromResources f.v4 with
      | none => simp [h4] at h
      | some a =>
        cases h6 : fromResources f.v6 with
        | none => simp [h4, h6] at h
        | some b =>
          cases ha : fromResources f.asn with
          | none => simp [h4, h6, ha] at h
          | some c =>
            simp only [h4, h6, ha] at h
            by_cases hs : f.sigOk = true
            · simp only [hs, if_true] at h
              injection h with h; subst h
              refine ⟨hs, hv'.1, hv'.2, hk, ?_, ?_, ?_, rfl, rfl, rfl⟩ <;>
              · intro e; simp [e, fromResources] at *
            · simp [hs] at h
    · simp [h0, hv] at h
  · simp [h0] at h

/-! ### resources never grow -/

theorem verifyResources_sub (f : Facts) (i r : RC) (hf : ClaimsCanon f) (hi : RC.Canon i)
    (h : verifyResources f i = some r) :
    RC.Canon r ∧ RC.Sub r i ∧ r.ski = f.ski ∧
    verifyIssued maxV4 i.v4 f.v4 f.trim = some r.v4 ∧
    verifyIssued maxV6 i.v6 f.v6 f.trim = some r.v6 ∧
    verifyIssued maxAs i.asn f.asn f.trim = some r.asn := by
  unfold verifyResources at h
  have s4 := C03.verifyIssued_subset maxV4 i.v4 hi.1 f.v4 f.trim hf.1
  have s6 := C03.verifyIssued_subset maxV6 i.v6 hi.2.1 f.v6 f.trim hf.2.1
  have sa := C03.verifyIssued_subset maxAs i.asn hi.2.2 f.asn f.trim hf.2.2
  cases h4 : verifyIssued maxV4 i.v4 f.v4 f.trim with
  | none => simp [h4] at h
  | some a =>
    cases h6 : verifyIssued maxV6 i.v6 f.v6 f.trim with
    | none => simp [h4, h6] at h
    | some b =>
      cases ha : verifyIssued maxAs i.asn f.asn f.trim with
      | none => simp [h4, h6, ha] at h
      | some c =>
        simp only [h4, h6, ha] at h s4 s6 sa
        injection h with h; subst h
        exact ⟨⟨s4.1, s6.1, sa.1⟩, ⟨s4.2.1, s6.2.1, sa.2.1⟩, rfl, rfl, rfl, rfl⟩

/-- **Resources never grow (one step).** Whatever a CA or EE certificate claims, the validated
resources are canonical and a subset of the issuer's validated resources, in every family; they
are exactly `verify_issued` of the claim (see `C03.verifyIssued_subset` for its four exact cases:
empty for a missing extension, the issuer's own under `inherit`, exactly the claimed blocks under
the no-overclaim policy when covered — rejection otherwise —, the intersection under trimming). -/
theorem validated_subset (f : Facts) (i r : RC) (now : Int) (hf : ClaimsCanon f) (hi : RC.Canon i)
    (h : validateCa f i now = some r ∨ validateEe f i now = some r) :
    RC.Canon r ∧ RC.Sub r i := by
  have hv : verifyIssuedCert f i now = some r := by
    rcases h with h | h
    · exact ((validateCa_iff f i now r).1 h).2
    · exact ((validateEe_iff f i now r).1 h).2
  have := verifyResources_sub f i r hf hi ((verifyIssuedCert_iff f i now r).1 hv).2.2.2.2
  exact ⟨this.1, this.2.1⟩

theorem vi_refuse_blocks (M : Nat) (issuer c r : List Blk) (hi : Chain.Canon M issuer) (hc : Chain.Canon M c)
    (h : verifyIssued M issuer (.blocks c) false = some r) : r = c ∧ ∀ x, mem c x → mem issuer x := by
  have := C03.verifyIssued_subset M issuer hi (.blocks c) false (by intro c' e; cases e; exact hc)
  rw [h] at this
  simpa using this.2.2

/-- **No-overclaim certificates claiming anything outside the issuer are rejected.** -/
theorem overclaim_rejected (f : Facts) (i : RC) (now : Int) (hf : ClaimsCanon f) (hi : RC.Canon i)
    (ht : f.trim = false)
    (hout : (∃ c x, f.v4 = .blocks c ∧ mem c x ∧ ¬ mem i.v4 x) ∨
            (∃ c x, f.v6 = .blocks c ∧ mem c x ∧ ¬ mem i.v6 x) ∨
            (∃ c x, f.asn = .blocks c ∧ mem c x ∧ ¬ mem i.asn x)) :
    validateCa f i now = none ∧ validateEe f i now = none := by
  have key : ∀ r, verifyResources f i ≠ some r := by
    intro r h
    obtain ⟨_, _, _, e4, e6, ea⟩ := verifyResources_sub f i r hf hi h
    rcases hout with ⟨c, x, hc, hm, hn⟩ | ⟨c, x, hc, hm, hn⟩ | ⟨c, x, hc, hm, hn⟩
    · rw [hc, ht] at e4; exact hn ((vi_refuse_blocks _ _ _ _ hi.1 (hf.1 c hc) e4).2 x hm)
    · rw [hc, ht] at e6; exact hn ((vi_refuse_blocks _ _ _ _ hi.2.1 (hf.2.1 c hc) e6).2 x hm)
    · rw [hc, ht] at ea; exact hn ((vi_refuse_blocks _ _ _ _ hi.2.2 (hf.2.2 c hc) ea).2 x hm)
  have hv : verifyIssuedCert f i now = none := by
    cases h : verifyIssuedCert f i now with
    | none => rfl
    | some r => exact absurd ((verifyIssuedCert_iff f i now r).1 h).2.2.2.2 (key r)
  constructor
  · unfold validateCa; split <;> simp [hv]
  · unfold validateEe; split <;> simp [hv]

/-- a trust anchor's result is canonical when its listed blocks are -/
theorem validateTa_canon (f : Facts) (now : Int) (r : RC) (hf : ClaimsCanon f) (h : validateTa f now = some r) :
    RC.Canon r := by
  obtain ⟨_, _, _, _, _, _, _, e4, e6, ea⟩ := validateTa_sound f now r h
  refine ⟨?_, ?_, ?_⟩
  · cases hc : f.v4 with
    | missing => simp [hc, fromResources] at e4; rw [e4]; exact canon_nil _
    | inherit => simp [hc, fromResources] at e4
    | blocks c => simp [hc, fromResources] at e4; (first | rw [← e4] | rw [e4]); exact hf.1 c hc
  · cases hc : f.v6 with
    | missing => simp [hc, fromResources] at e6; rw [e6]; exact canon_nil _
    | inherit => simp [hc, fromResources] at e6
    | blocks c => simp [hc, fromResources] at e6; (first | rw [← e6] | rw [e6]); exact hf.2.1 c hc
  · cases hc : f.asn with
    | missing => simp [hc, fromResources] at ea; rw [ea]; exact canon_nil _
    | inherit => simp [hc, fromResources] at ea
    | blocks c => simp [hc, fromResources] at ea; (first | rw [← ea] | rw [ea]); exact hf.2.2 c hc

/-- validation down a chain of CA certificates (each at its own evaluation time) -/
def validateChain (rc : RC) : List (Facts × Int) → Option RC
  | [] => some rc
  | (f, now) :: rest => match validateCa f rc now with
    | none => none
    | some r => validateChain r rest

/-- **Resources never grow (whole chain).** Along TA → CA* → EE the validated resources of every
certificate are a subset of the trust anchor's, whatever the certificates claim. -/
theorem chain_monotone (cas : List (Facts × Int)) (rc r : RC) (hrc : RC.Canon rc)
    (hf : ∀ p ∈ cas, ClaimsCanon p.1) (h : validateChain rc cas = some r) :
    RC.Canon r ∧ RC.Sub r rc := by
  induction cas generalizing rc with
  | nil =>
    simp only [validateChain] at h; injection h with h; subst h
    exact ⟨hrc, fun _ h => h, fun _ h => h, fun _ h => h⟩
  | cons p rest ih =>
    obtain ⟨f, now⟩ := p
    simp only [validateChain] at h
    cases hv : validateCa f rc now with
    | none => simp [hv] at h
    | some r1 =>
      simp only [hv] at h
      have s1 := validated_subset f rc r1 now (hf (f, now) (by simp)) hrc (Or.inl hv)
      have s2 := ih r1 s1.1 (fun p hp => hf p (by simp [hp])) h
      exact ⟨s2.1, fun x hx => s1.2.1 x (s2.2.1 x hx), fun x hx => s1.2.2.1 x (s2.2.2.1 x hx),
        fun x hx => s1.2.2.2 x (s2.2.2.2 x hx)⟩

theorem chain_ee_monotone (cas : List (Facts × Int)) (ta : Facts) (t0 : Int) (ee : Facts) (now : Int)
    (rta rca r : RC) (hta : ClaimsCanon ta) (hf : ∀ p ∈ cas, ClaimsCanon p.1) (hee : ClaimsCanon ee)
    (h0 : validateTa ta t0 = some rta) (h1 : validateChain rta cas = some rca)
    (h2 : validateEe ee rca now = some r) : RC.Sub r rta := by
  have c0 := validateTa_canon ta t0 rta hta h0
  have s1 := chain_monotone cas rta rca c0 hf h1
  have s2 := validated_subset ee rca r now hee s1.1 (Or.inr h2)
  exact ⟨fun x hx => s1.2.1 x (s2.2.1 x hx), fun x hx => s1.2.2.1 x (s2.2.2.1 x hx),
    fun x hx => s1.2.2.2 x (s2.2.2.2 x hx)⟩

/-! ### every single fault turns acceptance into rejection -/

/-- Changing one input of an accepted CA/EE certificate to a non-conforming value — a signature that
no longer verifies (any change to the signed bytes, the signature or the issuer key), an evaluation
time outside the window, another authority key identifier, a subject key identifier that is not
the hash of the key — yields rejection. -/
theorem single_fault_rejects (f : Facts) (i : RC) (now : Int)
    (hbad : f.sigOk = false ∨ now < f.validity.nb ∨ f.validity.na < now ∨ f.aki ≠ some i.ski ∨ f.ski ≠ f.keyId) :
    validateCa f i now = none ∧ validateEe f i now = none ∧ validateRouter f i now = false := by
  refine ⟨?_, ?_, ?_⟩
  · cases h : validateCa f i now with
    | none => rfl
    | some r =>
      obtain ⟨a, b, c, d, e⟩ := validateCa_sound f i now r h
      rcases hbad with h | h | h | h | h
      · simp [a] at h
      · omega
      · omega
      · exact absurd d h
      · exact absurd e h
  · cases h : validateEe f i now with
    | none => rfl
    | some r =>
      obtain ⟨a, b, c, d, e⟩ := validateEe_sound f i now r h
      rcases hbad with h | h | h | h | h
      · simp [a] at h
      · omega
      · omega
      · exact absurd d h
      · exact absurd e h
  · cases h : validateRouter f i now with
    | false => rfl
    | true =>
      obtain ⟨a, b, c, d, e, _⟩ := validateRouter_sound f i now h
      rcases hbad with h | h | h | h | h
      · simp [a] at h
      · omega
      · omega
      · exact absurd d h
      · exact absurd e h

theorem single_fault_rejects_ta (f : Facts) (now : Int)
    (hbad : f.sigOk = false ∨ now < f.validity.nb ∨ f.validity.na < now ∨ f.ski ≠ f.keyId ∨
            f.v4 = .inherit ∨ f.v6 = .inherit ∨ f.asn = .inherit) :
    validateTa f now = none := by
  cases h : validateTa f now with
  | none => rfl
  | some r =>
    obtain ⟨a, b, c, d, e4, e6, ea, _⟩ := validateTa_sound f now r h
    rcases hbad with h | h | h | h | h | h | h
    · simp [a] at h
    · omega
    · omega
    · exact absurd d h
    · exact absurd h e4
    · exact absurd h e6
    · exact absurd h ea

/-! ### non-vacuity: a concrete certificate is accepted, and its tampered variants are not -/

def exTa : Facts := {
  sigOk := true
  validity := ⟨10, 20⟩
  ski := [1]
  keyId := [1]
  aki := none
  basicCa := some true
  kuCa := true
  eku := false
  crl := false
  aia := false
  caRepo := true
  mft := true
  signedObj := false
  notify := false
  trim := false
  v4 := .blocks [⟨10, 20⟩]
  v6 := .missing
  asn := .blocks [⟨1, 5⟩] }
def exCa : Facts := { exTa with
  ski := [2]
  keyId := [2]
  aki := some [1]
  crl := true
  aia := true
  v4 := .blocks [⟨12, 15⟩]
  asn := .inherit }

example : validateTa exTa 15 = some ⟨[1], [⟨10, 20⟩], [], [⟨1, 5⟩]⟩ := by
  simp [validateTa, inspectTa, inspectBasics, inspectCaBasics, exTa, validityOk, X509.verifyAt, fromResources]
example : validateCa exCa ⟨[1], [⟨10, 20⟩], [], [⟨1, 5⟩]⟩ 15 = some ⟨[2], [⟨12, 15⟩], [], [⟨1, 5⟩]⟩ := by
  simp [validateCa, inspectCa, inspectBasics, inspectCaBasics, inspectIssued, exCa, exTa, verifyIssuedCert,
    validityOk, X509.verifyAt, issuerClaim, verifyResources, verifyIssued, isEncompassed, isEncompassedAux]

/-! ### the same on octets

The theorems above speak about the record of facts a decoder extracted.  `Model/CertDer.lean` is that
decoder (tied to `Cert::decode` by the `certd` operations and by every C01 case, whose model verdict is
computed from the octets): for *every* octet string the statements hold with the facts it yields — the
hypothesis `ClaimsCanon` is discharged, the key identifier is the SHA-1 of the key bits read from the
octets, and the only input left outside is the verdict of the signature primitive. -/
section Octets
open Rpki.CertDer Rpki.Der

theorem claimsCanon_of_octets (b : List Nat) (d : Decoded) (hb : AllBytes b) (h : decodeCert b = some d)
    (router strict sigOk : Bool) : ClaimsCanon (toFacts d router strict sigOk) := by
  obtain ⟨h4, h6, ha⟩ := decodeCert_canon b d hb h
  refine ⟨?_, ?_, ?_⟩
  · intro c hc
    have := shiftV4_canon d.v4 h4
    show Canon (2 ^ 32 - 1) c
    have e : shiftV4 d.v4 = .blocks c := hc
    rw [e] at this; exact this
  · intro c hc
    have e : d.v6 = .blocks c := hc
    rw [e] at h6; exact h6
  · intro c hc
    have e : d.asn = .blocks c := hc
    rw [e] at ha; exact ha

/-- **CA / EE certificates, from the octets.** If the octets decode and validation under a (canonical)
issuer succeeds, then the signature verdict was positive, the time is inside the window read from the
octets, the AKI read from them is the issuer's SKI, the SKI is the SHA-1 of the key bits, and the validated
resources are canonical and contained in the issuer's. -/
theorem accepted_octets (b : List Nat) (d : Decoded) (hb : AllBytes b) (hd : decodeCert b = some d)
    (strict sigOk : Bool) (i r : RC) (now : Int) (hi : RC.Canon i)
    (h : validateCa (toFacts d false strict sigOk) i now = some r ∨
         validateEe (toFacts d false strict sigOk) i now = some r) :
    sigOk = true ∧ d.validity.nb ≤ now ∧ now ≤ d.validity.na ∧ d.aki = some i.ski ∧
    d.ski = Sha.sha1N d.keyBits ∧ RC.Canon r ∧ RC.Sub r i := by
  have hc := claimsCanon_of_octets b d hb hd false strict sigOk
  have hs := validated_subset _ i r now hc hi h
  rcases h with h | h
  · obtain ⟨a1, a2, a3, a4, a5⟩ := validateCa_sound _ i now r h
    exact ⟨a1, a2, a3, a4, a5, hs.1, hs.2⟩
  · obtain ⟨a1, a2, a3, a4, a5⟩ := validateEe_sound _ i now r h
    exact ⟨a1, a2, a3, a4, a5, hs.1, hs.2⟩

/-- **Router certificates, from the octets.** -/
theorem accepted_octets_router (b : List Nat) (d : Decoded) (hd : decodeCert b = some d)
    (strict sigOk : Bool) (i : RC) (now : Int)
    (h : validateRouter (toFacts d true strict sigOk) i now = true) :
    sigOk = true ∧ d.validity.nb ≤ now ∧ now ≤ d.validity.na ∧ d.aki = some i.ski ∧
    d.ski = Sha.sha1N d.keyBits ∧ d.keyAlg = .ecP256 := by
  obtain ⟨a1, a2, a3, a4, a5, _⟩ := validateRouter_sound _ i now h
  refine ⟨a1, a2, a3, a4, a5, ?_⟩
  unfold validateRouter at h
  by_cases h0 : inspectRouter (toFacts d true strict sigOk) = true
  · unfold inspectRouter at h0
    simp only [Bool.and_eq_true] at h0
    have hk := h0.1.1.1.1.1.1.1.1.1.1.2
    have : (toFacts d true strict sigOk).keyAlgOk = (d.keyAlg == .ecP256) := rfl
    rw [this] at hk
    exact eq_of_beq hk
  · simp [h0] at h

/-- **Trust anchors, from the octets.** -/
theorem accepted_octets_ta (b : List Nat) (d : Decoded) (hb : AllBytes b) (hd : decodeCert b = some d)
    (strict sigOk : Bool) (r : RC) (now : Int)
    (h : validateTa (toFacts d false strict sigOk) now = some r) :
    sigOk = true ∧ d.validity.nb ≤ now ∧ now ≤ d.validity.na ∧ d.ski = Sha.sha1N d.keyBits ∧
    d.v4 ≠ .inherit ∧ d.v6 ≠ .inherit ∧ d.asn ≠ .inherit ∧ RC.Canon r := by
  have hc := claimsCanon_of_octets b d hb hd false strict sigOk
  obtain ⟨a1, a2, a3, a4, a5, a6, a7, _⟩ := validateTa_sound _ now r h
  refine ⟨a1, a2, a3, a4, ?_, a6, a7, validateTa_canon _ now r hc h⟩
  intro e
  apply a5
  show shiftV4 d.v4 = .inherit
  rw [e]; rfl

/-- **Any single non-conforming input rejects, from the octets**: a negative signature verdict, a time
outside the window read from the octets, an AKI other than the issuer's SKI, an SKI other than the SHA-1 of
the key bits. -/
theorem tampered_octets_rejected (b : List Nat) (d : Decoded) (_hd : decodeCert b = some d)
    (router strict sigOk : Bool) (i : RC) (now : Int)
    (hbad : sigOk = false ∨ now < d.validity.nb ∨ d.validity.na < now ∨ d.aki ≠ some i.ski ∨
            d.ski ≠ Sha.sha1N d.keyBits) :
    validateCa (toFacts d router strict sigOk) i now = none ∧
    validateEe (toFacts d router strict sigOk) i now = none ∧
    validateRouter (toFacts d router strict sigOk) i now = false :=
  single_fault_rejects _ i now hbad

end Octets

end Rpki.Props.C01
