/-
  C05 — built objects decode back to themselves and look the same either way.

  Proved here (for all inputs) is the part of the statement that lives in the repository's own
  hand-assembled layouts, on the models tied to the code by C14, C17, C02 and C03:
  the TLV layer round trip, the capture layout rule ("a captured sub-encoding holds the content of
  the SEQUENCE OF, not the SEQUENCE"), the manifest content codec, times, serial numbers and the
  signed-attribute set.  The outer X.509 / CMS envelopes, CRLs, CSRs and identity certificates are
  covered by the correspondence run (builder → decoder → validator → re-encoder → every accessor on
  both values).
-/
import Rpki.Proofs.ManifestCodec
import Rpki.Proofs.RoaCodec
import Rpki.Proofs.DerLemmas
import Rpki.Props.C17
import Rpki.Props.C02
import Rpki.Proofs.CrlCodec
import Rpki.Proofs.CertEncLemmas
import Rpki.Proofs.CertEncCert
import Rpki.Proofs.CrlEncLemmas
import Rpki.Proofs.CmsEncLemmas
import Rpki.Proofs.IdEncLemmas
import Rpki.Proofs.SigMsgEncLemmas
import Rpki.Proofs.CsrEncLemmas
import Rpki.Proofs.RtaEncLemmas
namespace Rpki.Props.C05
set_option autoImplicit false
open Rpki.Der
abbrev Bytes := List Nat

/-- **TLV layer.** Whatever is encoded is read back, with nothing consumed beyond it. -/
theorem tlv_roundtrip (t : Nat) (c rest : Bytes) (ht : t % 32 ≠ 31) (hc : c.length < 2 ^ 32) :
    readTlv (tlv t c ++ rest) = some (t, c, rest) := readTlv_tlv t c rest ht hc

/-- **Capture layout.** A captured sub-encoding that holds the *content* of a SEQUENCE OF (the
concatenated items) is read back item by item — this is the layout the decoders capture and, after
the repair, the builders too … -/
theorem capture_content_iterates (items : List (Nat × Bytes))
    (h : ∀ p ∈ items, p.1 % 32 ≠ 31 ∧ p.2.length < 2 ^ 32) :
    ∀ fuel, items.length ≤ fuel → readAll fuel (encodeAll items) = some items := by
  induction items with
  | nil => intro fuel _; cases fuel <;> simp [readAll, encodeAll]
  | cons p ps ih =>
    intro fuel hf
    obtain ⟨t, c⟩ := p
    cases fuel with
    | zero => simp at hf
    | succ f =>
      have hp := h (t, c) (by simp)
      have e : encodeAll ((t, c) :: ps) = tlv t c ++ encodeAll ps := by simp [encodeAll]
      have hne : tlv t c ++ encodeAll ps ≠ [] := by simp [tlv]
      rw [e, readAll, if_neg hne, readTlv_tlv t c _ hp.1 hp.2]
      simp only
      rw [ih (fun q hq => h q (by simp [hq])) f (by simpa using hf)]
      rfl

/-- … whereas a capture that includes the SEQUENCE header reads back as ONE value (the whole
list), not as the items: the layout the ROA and ASPA builders used before the repair, which is
why iterating a freshly built attestation failed. -/
theorem capture_with_header_is_one_value (items : List (Nat × Bytes))
    (hsize : (encodeAll items).length < 2 ^ 32) (fuel : Nat) (hf : 1 ≤ fuel) :
    readAll fuel (tlv 0x30 (encodeAll items)) = some [(0x30, encodeAll items)] := by
  cases fuel with
  | zero => simp at hf
  | succ f =>
    have hne : tlv 0x30 (encodeAll items) ≠ [] := by simp [tlv]
    have := readTlv_tlv 0x30 (encodeAll items) [] (by decide) hsize
    rw [List.append_nil] at this
    rw [readAll, if_neg hne, this]
    cases f <;> simp [readAll]

/-- **Manifest content.** Whatever `ManifestContent::new` + `encode_ref` produce from a serial
number, two calendar times in order and any list of entries with legal names is decoded to exactly
those values; the reported length is the number of entries and the iterator yields them. -/
theorem manifest_decode_encode (number : Bytes) (tu nu : X509.Civil) (es : List Manifest.Entry)
    (hn : X509.VS number) (htu : X509.validCivil tu = true) (hnu : X509.validCivil nu = true)
    (hy1 : tu.y ≤ 9999) (hy2 : nu.y ≤ 9999) (hord : Manifest.civilKey tu ≤ Manifest.civilKey nu)
    (hes : ∀ e ∈ es, Manifest.EntryOk e) (hsize : (Manifest.encodeFileList es).length < 2 ^ 31) :
    ∃ m, Manifest.decodeContent (Manifest.encodeContent number tu nu es) = some m ∧
      m.number = number ∧ m.thisUpdate = tu ∧ m.nextUpdate = nu ∧ m.len = es.length ∧
      m.fileList = Manifest.encodeFileList es ∧ m.iter = some es :=
  Manifest.decode_encode number tu nu es hn htu hnu hy1 hy2 hord hes hsize

/-- … and encoding the decoded value again reproduces the same octets. -/
theorem manifest_reencode (number : Bytes) (tu nu : X509.Civil) (es : List Manifest.Entry)
    (hn : X509.VS number) (htu : X509.validCivil tu = true) (hnu : X509.validCivil nu = true)
    (hy1 : tu.y ≤ 9999) (hy2 : nu.y ≤ 9999) (hord : Manifest.civilKey tu ≤ Manifest.civilKey nu)
    (hes : ∀ e ∈ es, Manifest.EntryOk e) (hsize : (Manifest.encodeFileList es).length < 2 ^ 31) :
    ∀ m es', Manifest.decodeContent (Manifest.encodeContent number tu nu es) = some m → m.iter = some es' →
      Manifest.encodeContent m.number m.thisUpdate m.nextUpdate es' = Manifest.encodeContent number tu nu es :=
  Manifest.reencode number tu nu es hn htu hnu hy1 hy2 hord hes hsize

/-- **CRL revocation list.** Whatever list of entries (valid serial numbers and calendar dates, any
order, duplicates allowed) the builder encodes, the decoder's counting pass accepts it, the iterator
yields exactly those entries, and `contains` answers membership of the serial number — it never
fails. -/
theorem crl_list_roundtrip (es : List Crl.Entry) (h : ∀ e ∈ es, Crl.EntryOk e) (s : Bytes) :
    Crl.capture (Crl.encodeList es) = some es.length ∧ Crl.entries (Crl.encodeList es) = some es ∧
    Crl.contains (Crl.encodeList es) s = some (decide (∃ e ∈ es, e.serial = s)) :=
  ⟨Crl.capture_encode es h, Crl.entries_encode es h, Crl.contains_encode es h s⟩

/-- For ARBITRARY captured octets the counting pass accepted (a decoded CRL, not necessarily one of
ours): the lookup cannot fail and reports a serial revoked iff the iterator lists it. -/
theorem crl_lookup_agrees_with_iteration (b : Bytes) (n : Nat) (h : Crl.capture b = some n) (s : Bytes) :
    ∃ es, Crl.entries b = some es ∧ es.length = n ∧ Crl.contains b s = some (decide (∃ e ∈ es, e.serial = s)) :=
  Crl.contains_after_capture b n h s


/-- **Times** (both encodings) and **serial numbers** (minimal DER) round-trip — C17. -/
theorem time_roundtrip (c : X509.Civil) (hv : X509.validCivil c = true) (hy : c.y ≤ 9999) :
    X509.decodeTime (X509.encodeVaried c).1 (X509.encodeVaried c).2 = some c := C17.time_roundtrip c hv hy

theorem serial_roundtrip (a : Bytes) (ha : X509.VS a) :
    X509.decodeSerialContent (X509.encodeContent a) = some a := (C17.serial_der_roundtrip a ha).1

/-- **Signed attributes.** The three attributes the builder writes are accepted by the reader in
whatever order the DER SET OF sorting puts them, and the signature input is their DER encoding. -/
theorem signed_attrs_roundtrip (ct md tc : Bytes) (tag : X509.TimeTag) (st : X509.Civil)
    (hct : SigObj.oidOk ct = true) (ht : X509.decodeTime tag tc = some st) (l : List Bytes)
    (hperm : l.Perm [SigObj.attr SigObj.oidContentType (tlv tagOid ct), SigObj.attr SigObj.oidMessageDigest (tlv tagOctetString md),
                     SigObj.attr SigObj.oidSigningTime (tlv (SigObj.timeOctet tag) tc)])
    (hlen : l.flatten.length ≤ 0xFFFF) :
    SigObj.parseAttrs true l.flatten = some (ct, md, st) ∧
    SigObj.encodeVerify l.flatten = some (tlv 0x31 l.flatten) :=
  ⟨C02.attrs_any_order true ct md tc tag st hct ht l hperm hlen,
   C02.encodeVerify_is_der l.flatten (by omega)⟩

/-! ## ROA and ASPA eContent (`Model/Roa.lean`, tied to `RoaBuilder` / `AspaBuilder` / `Roa::decode` /
`Aspa::decode` by the `roax`, `road`, `aspax`, `aspad` correspondence ops) -/

/-- **ROA.** For every AS number and every two lists of profile-conforming addresses — any count,
any order, duplicates, empty families — the eContent the builder writes is accepted by the decoder
as the same captured values, whatever follows it, and iterating the captured lists yields exactly
the addresses given to the builder. -/
theorem roa_content_roundtrip (asId : Nat) (h : asId < 2 ^ 32) (a4 a6 : List Roa.Addr)
    (h4 : ∀ a ∈ a4, a.WF ∧ Roa.addrOk 32 a = true) (h6 : ∀ a ∈ a6, a.WF ∧ Roa.addrOk 128 a = true)
    (trailing : Bytes) :
    Roa.decodeContent (Roa.encodeContent ⟨asId, Roa.encodeAddrs a4, Roa.encodeAddrs a6⟩ ++ trailing)
      = some ⟨asId, Roa.encodeAddrs a4, Roa.encodeAddrs a6⟩ ∧
    Roa.iter (Roa.encodeAddrs a4) = some a4 ∧ Roa.iter (Roa.encodeAddrs a6) = some a6 :=
  ⟨Roa.decodeContent_encodeContent asId h a4 a6 h4 h6 trailing,
   Roa.iter_encodeAddrs a4 (fun a ha => (h4 a ha).1), Roa.iter_encodeAddrs a6 (fun a ha => (h6 a ha).1)⟩

/-- **ROA, decoded side.** Whatever octets the decoder accepts, both address lists iterate without
failure (`RoaIpAddressIter::next` unwraps) and every address has its length and maxLength inside
its family. -/
theorem roa_decoded_iterates (b : Bytes) (c : Roa.Content) (h : Roa.decodeContent b = some c) :
    ∃ l4 l6, Roa.iter c.v4 = some l4 ∧ Roa.iter c.v6 = some l6 ∧
      (∀ a ∈ l4, Roa.addrOk 32 a = true) ∧ (∀ a ∈ l6, Roa.addrOk 128 a = true) := Roa.decodeContent_sound b c h

/-- **ASPA.** Every customer and every non-empty, strictly ascending provider list without the
customer and within the size limit round-trips, and the provider iterator yields the list. -/
theorem aspa_content_roundtrip (maxLen cust : Nat) (ps : List Nat) (hc : cust < 2 ^ 32) (hps : ∀ p ∈ ps, p < 2 ^ 32)
    (hne : ps ≠ []) (hinc : Roa.StrictInc ps) (hnot : cust ∉ ps) (hlen : ps.length ≤ maxLen) (trailing : Bytes) :
    Roa.decodeAspa maxLen (Roa.encodeAspa cust (Roa.encodeProviders ps) ++ trailing)
      = some ⟨cust, Roa.encodeProviders ps, ps.length⟩ ∧
    Roa.iterProviders (Roa.encodeProviders ps) = some ps :=
  ⟨Roa.decodeAspa_encodeAspa maxLen cust ps hc hps hne hinc hnot hlen trailing, Roa.iterProviders_encode ps hps⟩

/-- **ASPA, decoded side.** Whatever the decoder accepts: the iterator cannot fail, `len()` is the
number of providers it yields, at most the limit, at least one, strictly ascending, and the
customer is not among them. -/
theorem aspa_decoded_iterates (maxLen : Nat) (b : Bytes) (a : Roa.Aspa) (h : Roa.decodeAspa maxLen b = some a) :
    ∃ ps, Roa.iterProviders a.providers = some ps ∧ ps.length = a.count ∧ a.count ≤ maxLen ∧ ps ≠ [] ∧
      Roa.StrictInc ps ∧ a.customer ∉ ps := Roa.decodeAspa_sound maxLen b a h

example : (⟨10 * 2 ^ 120, 8, some 24⟩ : Roa.Addr).WF ∧ Roa.addrOk 32 ⟨10 * 2 ^ 120, 8, some 24⟩ = true := by
  refine ⟨⟨by decide, by decide, by decide, ?_⟩, by decide⟩
  intro m hm; injection hm with hm; omega
example : Roa.decodeAspa 16380 (Roa.encodeAspa 64500 (Roa.encodeProviders [1, 70000])) = some ⟨64500, Roa.encodeProviders [1, 70000], 2⟩ := by decide

/-! ### certificates: `TbsCert::encode_ref` and `TbsCert::from_constructed`

`Model/CertEnc.lean` is the writer (tied to the library by the `bytes cert` operations: for every certificate
the library builds, writing the decoded fields again with the model gives the library's to-be-signed
octets), `Model/CertDer.lean` the reader (tied by `certd`).  For every certificate whose fields are in the
profile the reader returns exactly the fields that were written. -/

/-- **Built certificates decode back to themselves**: all 24 fields come back, the algorithm identifier
with the NULL parameter the writer always puts, the validity as the instants of the two calendar times. -/
theorem tbs_cert_roundtrip (d : CertDer.Decoded) (h : CertEnc.WF d) (outerParam : Bool) (signature : Bytes) :
    CertDer.decodeTbs (CertEnc.encodeTbs d) outerParam signature = some (CertEnc.readBack d outerParam signature) :=
  CertEnc.decodeTbs_encodeTbs d h outerParam signature

/-- and re-encoding what was read gives the same octets again (the writer looks at none of the fields the
reader fills in differently) -/
theorem tbs_cert_reencode (d : CertDer.Decoded) (outerParam : Bool) (signature : Bytes) :
    CertEnc.encodeTbs (CertEnc.readBack d outerParam signature) = CertEnc.encodeTbs d := rfl

/-- the hypothesis `WF` is what the builders' inputs have: canonical resource chains are read back by the IPv6
and AS readers, and the names the library derives from keys are complete values for the name reader -/
theorem wf_parts (cl4 cl6 cla : Chain.Claim) (s : Bytes)
    (h4 : CertDer.ClaimCanon IpDer.maxAddr cl4) (s4 : ∀ c, cl4 = .blocks c → ∀ b ∈ c, IpDer.V4Shaped b)
    (h6 : CertDer.ClaimCanon IpDer.maxAddr cl6) (ha : CertDer.ClaimCanon AsDer.maxAs cla) (hp : cla ≠ .missing) :
    CertEnc.ClaimRead 32 cl4 ∧ CertEnc.ClaimRead 128 cl6 ∧ CertEnc.AsRead cla ∧
    CertEnc.NameOk (tlv tagSeq (tlv tagSet (tlv tagSeq (tlv tagOid Consts.oidCommonName ++ tlv CertDer.tagPrintable s)))) :=
  ⟨CertEnc.claimRead32_of_v4 cl4 h4 s4, CertEnc.claimRead128_of_canon cl6 h6, CertEnc.asRead_of_canon cla ha hp,
   CertEnc.nameOk_cn s⟩

/-! non-vacuity: a CA certificate (repository and manifest URIs, all IPv6 space, inherited AS resources) in the
profile; its to-be-signed octets are read back -/
def exName (c : Nat) : Bytes :=
  tlv tagSeq (tlv tagSet (tlv tagSeq (tlv tagOid Consts.oidCommonName ++ tlv CertDer.tagPrintable [c])))

def exCert : CertDer.Decoded :=
  { serial := List.replicate 19 0 ++ [5], innerParam := true, outerParam := true,
    issuer := exName 65, subject := exName 66, validity := ⟨0, 0⟩,
    notBefore := ⟨2020, 1, 1, 0, 0, 0⟩, notAfter := ⟨2051, 12, 31, 23, 59, 59⟩,
    keyAlg := .rsa, keyUnused := 0, keyBits := [1, 2, 3], basicCa := some true, ski := List.replicate 20 7, aki := none,
    keyUsage := .ca, eku := none, ekuContent := [], crlUri := none, caIssuer := none,
    sia := { caRepository := some [114, 115, 121, 110, 99, 58, 47, 47, 104, 47, 109, 47], rpkiManifest := some [114, 115, 121, 110, 99, 58, 47, 47, 104, 47, 109, 47, 97, 46, 109, 102, 116] },
    trim := false, v4 := .missing, v6 := .blocks [⟨0, 2 ^ 128 - 1⟩], asn := .inherit, tbs := [], signature := [] }

theorem exCert_wf : CertEnc.WF exCert where
  serial := ⟨by decide, (by intro x hx; simp [exCert] at hx; rcases hx with h | h <;> omega), by decide⟩
  issuer := CertEnc.nameOk_cn [65]
  subject := CertEnc.nameOk_cn [66]
  nb := by decide
  na := by decide
  key := by decide
  ski := by decide
  aki := by intro k h; cases h
  ekuSome := by intro x h; cases h
  ekuNone := by intro _; rfl
  crl := by intro u h; cases h
  aia := by intro u h; cases h
  sia := { repo := by intro u h; injection h with h; subst h; decide
           mft := by intro u h; injection h with h; subst h; decide
           so := by intro u h; cases h
           ntf := by intro u h; cases h }
  v4 := trivial
  v6 := CertEnc.claimRead128_of_canon _ ⟨by intro b hb; simp at hb; subst hb; decide, by simp⟩
  asn := Or.inr trivial
  present := Or.inr (Or.inl rfl)

example : CertDer.decodeTbs (CertEnc.encodeTbs exCert) true [9] = some (CertEnc.readBack exCert true [9]) :=
  tbs_cert_roundtrip exCert exCert_wf true [9]

/-! ### whole objects: certificates, CRLs, signed objects

`Cert::take_from` first captures the to-be-signed value by *skipping* it (bcder's `capture_one`, the stack
machine of `Model/Skip.lean`), then parses the captured octets.  `Forest` is the set of octet strings made of
complete definite-length values; the skip machine accepts every one of them (`Proofs/SkipAccept.lean`), and
everything the writers produce is one (`Proofs/CertEncCert.lean`). -/

/-- the names the library derives from keys are forests -/
theorem forest_cn (s : Bytes) :
    CertDer.Forest (tlv tagSeq (tlv tagSet (tlv tagSeq (tlv tagOid Consts.oidCommonName ++ tlv CertDer.tagPrintable s)))) :=
  CertEnc.forest_cons1 _ _ (by decide) (by decide) (CertEnc.forest_cons1 _ _ (by decide) (by decide)
    (CertEnc.forest_cons1 _ _ (by decide) (by decide)
      (CertEnc.forest_append (CertEnc.forest_prim1 _ _ (by decide) (by decide) (by decide))
        (CertEnc.forest_prim1 _ _ (by decide) (by decide) (by decide)))))

/-- **`Cert::take_from` reads back what `Cert::encode_ref` writes**, for every certificate in the profile, every
signature and whatever follows: the skip machine captures exactly the to-be-signed value, the outer algorithm
identifier and the signature bit string follow, and all fields come back. -/
theorem cert_roundtrip (d : CertDer.Decoded) (h : CertEnc.WF d) (hi : CertDer.Forest d.issuer) (hs : CertDer.Forest d.subject)
    (signature rest : Bytes) :
    CertDer.takeCert (CertEnc.encodeCert d signature ++ rest) = some (CertEnc.readBack d true signature, rest) :=
  CertEnc.takeCert_encodeCert d h hi hs signature rest

example : CertDer.takeCert (CertEnc.encodeCert exCert [9] ++ [1, 2]) = some (CertEnc.readBack exCert true [9], [1, 2]) :=
  cert_roundtrip exCert exCert_wf (forest_cn [65]) (forest_cn [66]) [9] [1, 2]

/-- **`TbsCertList::take_from` reads back what `TbsCertList::encode_ref` writes**: issuer, both update times,
the captured revocation list (any number of entries), authority key identifier and CRL number. -/
theorem tbs_crl_roundtrip (d : CrlDer.CrlD) (h : CrlEnc.WF d) :
    CrlDer.decodeTbsCrl (CrlEnc.encodeTbsCrl d) = some (true, { d with tbs := CrlEnc.encodeTbsCrl d, signature := [] }) :=
  CrlEnc.decodeTbsCrl_encodeTbsCrl d h

/-- **`Crl::take_from` reads back what `Crl::encode_ref` writes**, through the capture of the to-be-signed value -/
theorem crl_roundtrip (d : CrlDer.CrlD) (h : CrlEnc.WF d) (hi : CertDer.Forest d.issuer) (signature rest : Bytes) :
    CrlDer.takeCrl (CrlEnc.encodeCrl d signature ++ rest) =
      some ({ d with tbs := CrlEnc.encodeTbsCrl d, signature := signature }, rest) :=
  CrlEnc.takeCrl_encodeCrl d h hi signature rest

/-- **`SignedObject::take_from` (strict) reads back what `SignedObject::encode_ref` writes**: content type,
content, certificate, signer identifier, the signed attributes and what they say, signature.  With
`cert_roundtrip` for the certificate and `signed_attrs_roundtrip` for the attributes, a signed object built
by the library from in-profile parts is read back field by field. -/
theorem sigobj_roundtrip (ct content cb sid attrs md sig : Bytes) (st : X509.Civil) (cert : CertDer.Decoded)
    (hct : CertDer.oidOk ct = true) (hsid : sid.length = 20)
    (hp : SigObj.parseAttrs true attrs = some (ct, md, st))
    (hcert : CertDer.takeCert cb = some (cert, [])) :
    CmsDer.decodeSigObj (CmsEnc.encodeSigObj ct content cb sid attrs sig) =
      some { contentType := ct, content := content, cert := cert, sid := sid, attrs := attrs,
             messageDigest := md, signingTime := st, signature := sig } :=
  CmsEnc.decodeSigObj_encodeSigObj ct content cb sid attrs md sig st cert hct hsid hp hcert

/-- the two composed: a signed object around a written certificate -/
theorem sigobj_with_cert_roundtrip (ct content sid attrs md sig csig : Bytes) (st : X509.Civil) (d : CertDer.Decoded)
    (h : CertEnc.WF d) (hi : CertDer.Forest d.issuer) (hs : CertDer.Forest d.subject)
    (hct : CertDer.oidOk ct = true) (hsid : sid.length = 20)
    (hp : SigObj.parseAttrs true attrs = some (ct, md, st)) :
    CmsDer.decodeSigObj (CmsEnc.encodeSigObj ct content (CertEnc.encodeCert d csig) sid attrs sig) =
      some { contentType := ct, content := content, cert := CertEnc.readBack d true csig, sid := sid, attrs := attrs,
             messageDigest := md, signingTime := st, signature := sig } := by
  apply sigobj_roundtrip ct content _ sid attrs md sig st _ hct hsid hp
  have := cert_roundtrip d h hi hs csig []
  rwa [List.append_nil] at this

/-! ### identity certificates and signed protocol messages -/

/-- **`TbsIdCert::from_constructed` reads back what `TbsIdCert::encode_ref` writes**: serial, names, validity,
key, the optional basic-constraints flag, both key identifiers. -/
theorem tbs_idcert_roundtrip (d : SigMsgDer.IdCertD) (h : IdEnc.WF d) (sig : Bytes) :
    SigMsgDer.decodeTbsId (IdEnc.encodeTbsId d) sig = some (IdEnc.readBack d (IdEnc.encodeTbsId d) sig) :=
  IdEnc.decodeTbsId_encodeTbsId d h sig

/-- **`IdCert::decode` reads back what `IdCert::to_captured` writes** -/
theorem idcert_roundtrip (d : SigMsgDer.IdCertD) (h : IdEnc.WF d) (hi : CertDer.Forest d.issuer)
    (hs : CertDer.Forest d.subject) (signature rest : Bytes) :
    SigMsgDer.decodeIdCert (IdEnc.encodeIdCert d signature ++ rest) =
      some (IdEnc.readBack d (IdEnc.encodeTbsId d) signature) :=
  IdEnc.decodeIdCert_encodeIdCert d h hi hs signature rest

/-- the message's own CRL: what is written is read back, and the serial numbers `contains` walks over are the
ones written (any number of entries) -/
theorem msg_crl_roundtrip (d : SigMsgDer.MsgCrlD) (h : SigMsgEnc.WFCrl d) (hi : CertDer.Forest d.issuer) (signature : Bytes) :
    SigMsgDer.msgCrlBody (SigMsgEnc.encodeTbsMsgCrl d ++ CertEnc.sigAlgEnc ++ tlv tagBitString (0 :: signature)) =
      some { d with innerParam := true, outerParam := true, tbs := SigMsgEnc.encodeTbsMsgCrl d, signature := signature } :=
  SigMsgEnc.msgCrlBody_enc d h hi signature

theorem msg_crl_serials (es : List Crl.Entry) (h : ∀ e ∈ es, Crl.EntryOk e) :
    SigMsgDer.msgRevokedSerials (Crl.encodeList es) = some (es.map (·.serial)) :=
  SigMsgEnc.msgRevokedSerials_encode es h

/-- **`SignedMessage::decode` (strict) reads back what `SignedMessage::encode_ref` writes** around a written identity
certificate and a written CRL: content, certificate, CRL, signer identifier, signed attributes and digest,
signature. -/
theorem sigmsg_roundtrip (content sid attrs md sig csig lsig : Bytes) (st : X509.Civil)
    (c : SigMsgDer.IdCertD) (hc : IdEnc.WF c) (hci : CertDer.Forest c.issuer) (hcs : CertDer.Forest c.subject)
    (l : SigMsgDer.MsgCrlD) (hl : SigMsgEnc.WFCrl l) (hli : CertDer.Forest l.issuer) (hsid : sid.length = 20)
    (hp : SigObj.parseAttrs false attrs = some (Consts.oidProtocolContentType, md, st)) (rest : Bytes) :
    SigMsgDer.decodeSigMsg (SigMsgEnc.encodeSigMsg content (IdEnc.encodeIdCert c csig) (SigMsgEnc.encodeMsgCrl l lsig) sid attrs sig ++ rest) =
      some { content := content, cert := IdEnc.readBack c (IdEnc.encodeTbsId c) csig,
             crl := { l with innerParam := true, outerParam := true, tbs := SigMsgEnc.encodeTbsMsgCrl l, signature := lsig },
             sid := sid, attrs := attrs, messageDigest := md, signature := sig } :=
  SigMsgEnc.decodeSigMsg_built content sid attrs md sig csig lsig st c hc hci hcs l hl hli hsid hp rest

/-! non-vacuity: an identity certificate and a CRL with one entry in the profile -/
def exIdCert : SigMsgDer.IdCertD :=
  { serial := List.replicate 19 0 ++ [5], issuer := exName 65, subject := exName 66, validity := ⟨0, 0⟩,
    notBefore := ⟨2020, 1, 1, 0, 0, 0⟩, notAfter := ⟨2051, 12, 31, 23, 59, 59⟩, keyAlg := .rsa, keyUnused := 0,
    keyBits := [1, 2, 3], basicCa := none, ski := List.replicate 20 7, aki := some (List.replicate 20 8),
    tbs := [], signature := [] }

theorem exIdCert_wf : IdEnc.WF exIdCert where
  serial := ⟨by decide, (by intro x hx; simp [exIdCert] at hx; rcases hx with h | h <;> omega), by decide⟩
  issuer := CertEnc.nameOk_cn [65]
  subject := CertEnc.nameOk_cn [66]
  nb := by decide
  na := by decide
  key := by decide
  ski := by decide
  aki := by intro k h; injection h with h; subst h; decide

example : SigMsgDer.decodeIdCert (IdEnc.encodeIdCert exIdCert [9]) = some (IdEnc.readBack exIdCert (IdEnc.encodeTbsId exIdCert) [9]) := by
  have := idcert_roundtrip exIdCert exIdCert_wf (forest_cn [65]) (forest_cn [66]) [9] []
  rwa [List.append_nil] at this

/-! ### certification requests -/

/-- **`RpkiCaCsr::decode` reads back what `Csr::construct_rpki_ca` writes**: subject, key, basic constraints
(cA), key usage (CA), the two or three URIs of the subject information access, the signature. -/
theorem csr_roundtrip (subject : Bytes) (alg : CertDer.KeyAlg) (unused : Nat) (bits repo mft : Bytes) (notify : Option Bytes)
    (h : CsrEnc.WF subject unused bits repo mft notify) (hs : CertDer.Forest subject) (signature rest : Bytes) :
    CsrDer.decodeCsr false (CsrEnc.encodeCsr subject alg unused bits repo mft notify signature ++ rest) =
      some (CsrEnc.readBack subject alg unused bits repo mft notify
        (CsrEnc.encodeContent subject alg unused bits repo mft notify) signature) :=
  CsrEnc.decodeCsr_encodeCsr subject alg unused bits repo mft notify h hs signature rest

/-- non-vacuity: a request for `rsync://h/m/` and `rsync://h/m/a.mft` -/
example : CsrEnc.WF (exName 66) 0 [1, 2, 3] [114, 115, 121, 110, 99, 58, 47, 47, 104, 47, 109, 47]
    [114, 115, 121, 110, 99, 58, 47, 47, 104, 47, 109, 47, 97, 46, 109, 102, 116] none where
  subject := CertEnc.nameOk_cn [66]
  key := by decide
  sia := { repo := by intro u h; injection h with h; subst h; decide
           mft := by intro u h; injection h with h; subst h; decide
           so := by intro u h; cases h
           ntf := by intro u h; cases h }

/-! ### re-encoding what was read

The readers return the written fields plus what they were given (octets, signature, derived instants); the
writers look at none of those, so writing the decoded value again gives the same octets. -/

theorem crl_reencode (d : CrlDer.CrlD) (signature : Bytes) :
    CrlEnc.encodeCrl { d with tbs := CrlEnc.encodeTbsCrl d, signature := signature } signature = CrlEnc.encodeCrl d signature := rfl

theorem idcert_reencode (d : SigMsgDer.IdCertD) (signature : Bytes) :
    IdEnc.encodeIdCert (IdEnc.readBack d (IdEnc.encodeTbsId d) signature) signature = IdEnc.encodeIdCert d signature := rfl

theorem msg_crl_reencode (d : SigMsgDer.MsgCrlD) (signature : Bytes) :
    SigMsgEnc.encodeMsgCrl { d with innerParam := true, outerParam := true, tbs := SigMsgEnc.encodeTbsMsgCrl d, signature := signature } signature =
      SigMsgEnc.encodeMsgCrl d signature := rfl

theorem cert_reencode (d : CertDer.Decoded) (signature : Bytes) :
    CertEnc.encodeCert (CertEnc.readBack d true signature) signature = CertEnc.encodeCert d signature := rfl

/-- so decoding, writing and decoding again is the same as decoding once (certificates) -/
theorem cert_decode_encode_decode (d : CertDer.Decoded) (h : CertEnc.WF d) (hi : CertDer.Forest d.issuer)
    (hs : CertDer.Forest d.subject) (signature : Bytes) :
    (CertDer.decodeCert (CertEnc.encodeCert d signature)).map (fun d' => CertEnc.encodeCert d' d'.signature) =
      some (CertEnc.encodeCert d signature) := by
  have := cert_roundtrip d h hi hs signature []
  rw [List.append_nil] at this
  unfold CertDer.decodeCert
  rw [this]
  rfl

/-! ### resource tagged attestations -/

/-- **`ResourceTaggedAttestation::take_from` reads back what `ResourceTaggedAttestation::encode_ref` writes**: the
subject keys in the order given, the IPv4, IPv6 and AS resources (any canonical sets, at least one non-empty; an
empty address family beside a non-empty one is written as an empty list and read back as empty), the digest. -/
theorem rta_attestation_roundtrip (a : RtaDer.Attestation) (h : RtaEnc.WF a) (rest : Bytes) :
    RtaDer.decodeAttestation (RtaEnc.encodeAttestation a ++ rest) = some a :=
  RtaEnc.decodeAttestation_encodeAttestation a h rest

example : RtaEnc.WF { keys := [List.replicate 20 7], v4 := [], v6 := [⟨0, 2 ^ 128 - 1⟩], asn := [⟨64496, 64496⟩], digest := [1, 2] } where
  keys := by intro k hk; simp at hk; subst hk; simp
  v4 := ⟨by simp [Chain.Canon], by intro b hb; cases hb⟩
  v6 := ⟨by intro b hb; simp at hb; subst hb; decide, by simp⟩
  asn := ⟨by intro b hb; simp at hb; subst hb; decide, by simp⟩
  some := Or.inl (by simp)

/-- **`Rta::decode` reads back what `Rta::to_captured` writes**: the attestation, every certificate and CRL (given by
the content of their SEQUENCEs together with what their readers return — `cert_roundtrip`, `crl_roundtrip` supply
these for written ones), every signer info whose attributes parse with the attestation's content type; the CRL set
is left out when empty. -/
theorem rta_object_roundtrip (content : Bytes) (att : RtaDer.Attestation) (hatt : RtaDer.decodeAttestation content = some att)
    (certCs : List Bytes) (certs : List CertDer.Decoded) (hcerts : certCs.map CertDer.certBody = certs.map some)
    (crlCs : List Bytes) (crls : List CrlDer.CrlD) (hcrls : crlCs.map CrlDer.crlInner = crls.map some)
    (signers : List RtaDer.Signer)
    (hs : ∀ s ∈ signers, s.sid.length = 20 ∧
      SigObj.parseAttrs true s.attrs = some (Consts.oidCtRta, s.messageDigest, s.signingTime))
    (rest : Bytes) :
    RtaDer.decodeRta (RtaEnc.encodeRta content (certCs.map (tlv tagSeq)) (crlCs.map (tlv tagSeq)) signers ++ rest) =
      some { content := content, att := att, certs := certs, crls := crls, signers := signers } :=
  RtaEnc.decodeRta_encodeRta content att hatt certCs certs hcerts crlCs crls hcrls signers hs rest

end Rpki.Props.C05
