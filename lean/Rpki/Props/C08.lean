/-
C08 — RTR server answers depend on the query bytes, not on how they arrive.
Only property theorems and non-vacuity examples; lemmas are in Rpki/Proofs/RtrServer*.lean.
-/
import Rpki.Proofs.RtrServerRefine
import Rpki.Proofs.RtrPduLemmas
namespace Rpki.C08
open Rpki.RtrServer Rpki.Rtr Rpki.Consts

/-- The sequence of responses of a connection (Serial Notify PDUs removed) is exactly what the
specification answers to the concatenation of the bytes received — for every way of cutting the bytes
into chunks and every placement of notifications between them (including while a header or a
Serial Query payload is only partly received). -/
theorem framing_refines (src : Src) (evs : List Event) :
    respOnly (run src Conn.init evs) = serve src (chunksOf evs) := by
  have hq : Quiet src Conn.init := Or.inr (by unfold parseOne Conn.init; simp)
  rw [run_refines src evs Conn.init hq]
  unfold sem serve Conn.init
  simp

/-- Two deliveries of the same bytes — any fragmentation, any interleaving of notifications — get
the same responses: nothing is lost, duplicated, reordered or corrupted. -/
theorem delivery_independent (src : Src) (evs evs' : List Event) (h : chunksOf evs = chunksOf evs') :
    respOnly (run src Conn.init evs) = respOnly (run src Conn.init evs') := by
  rw [framing_refines, framing_refines, h]

/-- In particular the bytes delivered at once, without any notification, give the reference answer. -/
theorem whole_delivery (src : Src) (s : Bytes) :
    respOnly (run src Conn.init [.chunk s]) = serve src s := by
  rw [framing_refines]; simp [chunksOf]

/-- Every complete query gets exactly one response, and that response is not a Serial Notify. -/
theorem one_response_each (src : Src) (ver : Option Nat) (s : Bytes) (used : Nat) (out : Out) (w : Option Nat)
    (h : parseOne src ver s = .one used out w) :
    out.isNotify = false ∧ 8 ≤ used ∧ used ≤ s.length :=
  ⟨parseOne_not_notify src ver s used out w h,
   ((parseOne_stable src ver s []).1 used out w h).1, ((parseOne_stable src ver s []).1 used out w h).2.1⟩

/-- A well-formed Reset Query is answered with the full data set, or with "no data available"
while the source is not ready. -/
theorem reset_answer (src : Src) (v sess : Nat) (hv : v ≤ 2) (hs : sess < 65536) (rest : Bytes) :
    parseOne src none (encHdr ⟨v, pduResetQuery, sess, sizeResetQuery⟩ ++ rest) =
      .one 8 (if src.ready then .data v src.session src.serial true else .error v 2 []) (some v) := by
  have hw : (⟨v, pduResetQuery, sess, sizeResetQuery⟩ : Hdr).WF := by
    unfold Hdr.WF pduResetQuery sizeResetQuery; simp; omega
  unfold parseOne
  have hl : ¬ (encHdr ⟨v, pduResetQuery, sess, sizeResetQuery⟩ ++ rest).length < 8 := by simp [encHdr_length]
  rw [if_neg hl]
  have ht : (encHdr ⟨v, pduResetQuery, sess, sizeResetQuery⟩ ++ rest).take 8 = encHdr ⟨v, pduResetQuery, sess, sizeResetQuery⟩ :=
    List.take_left' (encHdr_length _)
  simp only [ht, decHdr_encHdr _ hw]
  have hm : ¬ v > rtrMaxVersion := by unfold rtrMaxVersion; omega
  rw [if_neg hm]
  unfold parseOne.body
  have n1 : ¬ pduResetQuery = pduSerialQuery := by decide
  simp only [n1, if_false, if_true, ne_eq, not_true_eq_false]
  unfold answerReset
  cases src.ready <;> simp

/-- A query that is malformed or unsupported — wrong length, unknown PDU type, unsupported or
switched version — is answered with an Error PDU carrying the offending header. -/
theorem malformed_gets_error (src : Src) (h : Hdr) (hw : h.WF) (rest : Bytes) :
    (h.version > rtrMaxVersion →
      parseOne src none (encHdr h ++ rest) = .one 8 (.error rtrMaxVersion 4 (encHdr h)) none) ∧
    (∀ cur, cur ≠ h.version →
      parseOne src (some cur) (encHdr h ++ rest) = .one 8 (.error cur 8 (encHdr h)) (some cur)) ∧
    (h.version ≤ rtrMaxVersion → h.pdu ≠ pduSerialQuery → h.pdu ≠ pduResetQuery → h.pdu ≠ pduError →
      parseOne src none (encHdr h ++ rest) = .one 8 (.error h.version 3 (encHdr h)) (some h.version)) ∧
    (h.version ≤ rtrMaxVersion → h.pdu = pduResetQuery → h.length ≠ sizeResetQuery →
      parseOne src none (encHdr h ++ rest) = .one 8 (.error h.version 3 (encHdr h)) (some h.version)) ∧
    (h.version ≤ rtrMaxVersion → h.pdu = pduSerialQuery → h.length ≠ sizeSerialQuery →
      parseOne src none (encHdr h ++ rest) = .one 8 (.error h.version 3 (encHdr h)) (some h.version)) := by
  have hl : ¬ (encHdr h ++ rest).length < 8 := by simp [encHdr_length]
  have ht : (encHdr h ++ rest).take 8 = encHdr h := List.take_left' (encHdr_length _)
  refine ⟨?_, ?_, ?_, ?_, ?_⟩
  · intro hv
    unfold parseOne; rw [if_neg hl]; simp only [ht, decHdr_encHdr _ hw]; rw [if_pos hv]
  · intro cur hc
    unfold parseOne; rw [if_neg hl]; simp only [ht, decHdr_encHdr _ hw]; rw [if_pos hc]
  · intro hv h1 h2 h3
    unfold parseOne; rw [if_neg hl]; simp only [ht, decHdr_encHdr _ hw]
    rw [if_neg (by omega)]
    unfold parseOne.body
    rw [if_neg h1, if_neg h2, if_neg h3, ht]
  · intro hv h1 h2
    unfold parseOne; rw [if_neg hl]; simp only [ht, decHdr_encHdr _ hw]
    rw [if_neg (by omega)]
    unfold parseOne.body
    rw [if_neg (by rw [h1]; decide), if_pos h1, if_pos h2, ht]
  · intro hv h1 h2
    unfold parseOne; rw [if_neg hl]; simp only [ht, decHdr_encHdr _ hw]
    rw [if_neg (by omega)]
    unfold parseOne.body
    rw [if_pos h1, if_pos h2, ht]

/-- Notifications never alter, add or remove a response. -/
theorem notify_transparent (src : Src) (evs : List Event) :
    respOnly (run src Conn.init evs) =
      respOnly (run src Conn.init (evs.filter (fun e => e ≠ .notify))) := by
  apply delivery_independent
  induction evs with
  | nil => rfl
  | cons e es ih =>
    cases e with
    | chunk bs => simp [chunksOf, ih]
    | notify => simp [chunksOf, ih]
    | eof => simp [chunksOf]

/-! ## Non-vacuity: the schedule that broke the unrepaired server -/

def exSrc : Src := ⟨true, 7, 5, [4, 5]⟩
def q : Bytes := [1, 2, 0, 0, 0, 0, 0, 8]   -- Reset Query, version 1
example : run exSrc Conn.init [.chunk (q.take 3), .notify, .chunk (q.drop 3 ++ q)] =
    [.serialNotify 0 7 5, .data 1 7 5 true, .data 1 7 5 true] := by decide
example : serve exSrc (q ++ q) = [.data 1 7 5 true, .data 1 7 5 true] := by decide

end Rpki.C08
