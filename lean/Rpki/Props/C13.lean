/-
C13 — prefixes, max-length prefixes and AS-number sets obey their value laws.
Only property theorems and non-vacuity examples live here; helper lemmas are in
Rpki/Proofs/{PrefixLemmas,PrefixOrder,AsnSetLemmas}.lean.
-/
import Rpki.Proofs.PrefixOrder
import Rpki.Proofs.AsnSetLemmas
import Rpki.Proofs.PfxTextLemmas
import Rpki.Proofs.PfxTextSound
namespace Rpki.C13
open Rpki.Prefix Rpki.AsnSet Rpki.Consts

/-! ## Constructors -/

/-- The whole `FamilyAndLen` table (all 256 lengths): `new_v4` accepts exactly `≤ 32`, `new_v6`
exactly `≤ 128`, and `is_v4`/`len` read back what was stored. -/
theorem fal_table_all : ∀ n, n < 256 →
    ((falV4 n).isSome ↔ n ≤ 32) ∧ ((falV6 n).isSome ↔ n ≤ 128) ∧
    (∀ f, falV4 n = some f → falIsV4 f = true ∧ falLen f = n ∧ f < 256) ∧
    (∀ f, falV6 n = some f → falIsV4 f = false ∧ falLen f = n ∧ f < 256) := fal_table

/-- Strict IPv4 construction succeeds exactly for a length within the family and zero host bits,
and then yields exactly that address and length. -/
theorem newV4_ok_iff (a len : Nat) (hl : len < 256) (p : Pfx) :
    newV4 a len = .ok p ↔
      len ≤ 32 ∧ fromV4 a % 2 ^ (128 - len) = 0 ∧ p.bits = fromV4 a ∧ p.len = len ∧ p.isV4 = true := by
  have ht := fal_table len hl
  unfold newV4 isHostZero hostBits
  cases hf : falV4 len with
  | none =>
    have : ¬ len ≤ 32 := by intro h; have := ht.1.2 h; simp [hf] at this
    simp [this]
  | some f =>
    have h32 : len ≤ 32 := ht.1.1 (by simp [hf])
    have ⟨h1, h2, _⟩ := ht.2.2.1 f hf
    by_cases hz : fromV4 a % 2 ^ (128 - len) = 0
    · simp only [hz, decide_true, Bool.not_true, Bool.false_eq_true, if_false, h32, true_and]
      constructor
      · intro h; cases h; exact ⟨rfl, h2, h1⟩
      · rintro ⟨hb, hlen, hv4⟩
        obtain ⟨pf, pb⟩ := p
        simp only [Pfx.len, Pfx.isV4] at *
        subst hb
        have hv : falIsV4 pf = true := hv4
        -- same family and length ⇒ same byte (table)
        have : pf = f := by
          unfold falV4 falV4Max at hf
          have hfl : f = len := by split at hf <;> simp_all
          unfold falIsV4 at hv; unfold falLen at hlen
          have : pf / 64 = 0 := by simpa using hv
          simp [this] at hlen; omega
        subst this; rfl
    · simp [hz]

theorem newV6_ok_iff (a len : Nat) (hl : len < 256) (p : Pfx) :
    newV6 a len = .ok p → len ≤ 128 ∧ a % 2 ^ (128 - len) = 0 ∧ p.bits = a ∧ p.len = len ∧ p.isV4 = false := by
  have ht := fal_table len hl
  unfold newV6 isHostZero hostBits
  cases hf : falV6 len with
  | none => simp
  | some f =>
    have h128 : len ≤ 128 := ht.2.1.1 (by simp [hf])
    have ⟨h1, h2, _⟩ := ht.2.2.2 f hf
    by_cases hz : a % 2 ^ (128 - len) = 0
    · simp only [hz, decide_true, Bool.not_true, Bool.false_eq_true, if_false]
      intro h; cases h; exact ⟨h128, trivial, rfl, h2, h1⟩
    · simp [hz]

theorem newV6_ok_of (a len : Nat) (hl : len ≤ 128) (hz : a % 2 ^ (128 - len) = 0) :
    ∃ p, newV6 a len = .ok p := by
  have ht := fal_table len (by omega)
  unfold newV6 isHostZero hostBits
  cases hf : falV6 len with
  | none => have := ht.2.1.2 hl; simp [hf] at this
  | some f => simp [hz]

/-- Strict construction rejects exactly: a too long length (first) or non-zero host bits. -/
theorem newV6_err_iff (a len : Nat) (hl : len < 256) :
    (newV6 a len = .error .lenOverflow ↔ 128 < len) ∧
    (newV6 a len = .error .nonZeroHost ↔ len ≤ 128 ∧ a % 2 ^ (128 - len) ≠ 0) := by
  have ht := fal_table len hl
  unfold newV6 isHostZero hostBits
  cases hf : falV6 len with
  | none =>
    have : ¬ len ≤ 128 := by intro h; have := ht.2.1.2 h; simp [hf] at this
    simp; omega
  | some f =>
    have h128 : len ≤ 128 := ht.2.1.1 (by simp [hf])
    by_cases hz : a % 2 ^ (128 - len) = 0 <;> simp [hz] <;> omega

/-- Relaxed construction clears exactly the host bits: the result is aligned, does not exceed the
input, and is less than one block below it; it is idempotent and agrees with strict construction
whenever that succeeds. -/
theorem clearHost_spec (bits len : Nat) (hl : len ≤ 128) :
    clearHost bits len % 2 ^ hostBits len = 0 ∧ clearHost bits len ≤ bits ∧
    (bits < A → bits < clearHost bits len + 2 ^ hostBits len) ∧
    clearHost (clearHost bits len) len = clearHost bits len ∧
    (bits % 2 ^ hostBits len = 0 → bits < A → clearHost bits len = bits) := by
  unfold clearHost
  by_cases h0 : len = 0
  · subst h0
    have : hostBits 0 = 128 := rfl
    simp only [if_true, this]
    refine ⟨by simp, by omega, ?_, trivial, ?_⟩
    · intro h; unfold A at h; omega
    · intro h1 h2; unfold A at h2; omega
  · simp only [h0, if_false]
    have hP := pow_pos2 (hostBits len)
    refine ⟨Nat.mul_mod_left _ _, div_mul_le _ _, fun _ => lt_div_mul_add _ _ hP, ?_, ?_⟩
    · rw [Nat.mul_div_cancel _ hP]
    · intro h _; exact aligned_div_mul _ _ h

theorem newV6Relaxed_spec (a len : Nat) (hl : len < 256) :
    (len > 128 → newV6Relaxed a len = .error .lenOverflow) ∧
    (len ≤ 128 → ∃ p, newV6Relaxed a len = .ok p ∧ p.bits = clearHost a len ∧ p.len = len ∧ p.isV4 = false) := by
  have ht := fal_table len hl
  unfold newV6Relaxed
  cases hf : falV6 len with
  | none =>
    have : ¬ len ≤ 128 := by intro h; have := ht.2.1.2 h; simp [hf] at this
    simp; omega
  | some f =>
    have h128 : len ≤ 128 := ht.2.1.1 (by simp [hf])
    have ⟨h1, h2, _⟩ := ht.2.2.2 f hf
    refine ⟨by omega, fun _ => ⟨_, rfl, rfl, h2, h1⟩⟩

theorem newV4Relaxed_spec (a len : Nat) (hl : len < 256) :
    (len > 32 → newV4Relaxed a len = .error .lenOverflow) ∧
    (len ≤ 32 → ∃ p, newV4Relaxed a len = .ok p ∧ p.bits = clearHost (fromV4 a) len ∧ p.len = len ∧ p.isV4 = true) := by
  have ht := fal_table len hl
  unfold newV4Relaxed
  cases hf : falV4 len with
  | none =>
    have : ¬ len ≤ 32 := by intro h; have := ht.1.2 h; simp [hf] at this
    simp; omega
  | some f =>
    have h32 : len ≤ 32 := ht.1.1 (by simp [hf])
    have ⟨h1, h2, _⟩ := ht.2.2.1 f hf
    refine ⟨by omega, fun _ => ⟨_, rfl, rfl, h2, h1⟩⟩

/-! ## Max-length prefixes -/

/-- `MaxLenPrefix::new` succeeds exactly when prefix length ≤ max length ≤ family maximum. -/
theorem mlpNew_ok_iff (p : Pfx) (m : Nat) :
    (∃ r, mlpNew p (some m) = .ok r) ↔ p.len ≤ m ∧ m ≤ (if p.isV4 then 32 else 128) := by
  unfold mlpNew
  by_cases h4 : p.isV4 = true <;> simp only [h4, if_true, if_false, Bool.false_eq_true]
  · by_cases h1 : m > 32
    · simp [h1] <;> omega
    · by_cases h2 : p.len > m
      · have : ¬ m > 128 := by omega
        simp [h1, h2, this] <;> omega
      · have : ¬ m > 128 := by omega
        simp [h1, h2, this] <;> omega
  · by_cases h1 : m > 128
    · simp [h1] <;> omega
    · by_cases h2 : p.len > m
      · simp [h1, h2] <;> omega
      · simp [h1, h2] <;> omega

theorem mlpNew_none (p : Pfx) : mlpNew p none = .ok ⟨p, none⟩ := rfl

/-- `saturating_new` always yields a valid max length (given a well-formed prefix). -/
theorem mlpSat_valid (p : Pfx) (hp : WF p) (m : Nat) :
    ∃ v, (mlpSat p (some m)).ml = some v ∧ p.len ≤ v ∧ v ≤ (if p.isV4 then 32 else 128) := by
  unfold mlpSat
  have hl := hp.len_le
  simp only [Option.map_some]
  by_cases h4 : p.isV4 = true
  · have h32 := hp.v4_len_le h4
    simp only [h4, if_true, true_and]
    refine ⟨_, rfl, ?_⟩
    split
    · omega
    · split
      · omega
      · split <;> omega
  · simp only [h4, if_false, false_and, Bool.false_eq_true]
    refine ⟨_, rfl, ?_⟩
    split
    · omega
    · split <;> omega

/-! ## covers and the order -/

/-- `covers` holds exactly when the other prefix's address range is included. -/
theorem covers_iff_range (p q : Pfx) (hp : WF p) (hq : WF q) :
    covers p q = true ↔ p.isV4 = q.isV4 ∧ p.lo ≤ q.lo ∧ q.hi ≤ p.hi :=
  covers_iff_range' p q hp hq

/-- The order is the order of one natural-number key (family, last address, host-bit count). -/
theorem cmp_eq_compare_code (p q : Pfx) (hp : WF p) (hq : WF q) :
    cmp p q = compare (code p) (code q) := cmp_code p q hp hq

/-- The key is injective on well-formed prefixes, so `cmp = eq` exactly for equal prefixes. -/
theorem code_injective (p q : Pfx) (hp : WF p) (hq : WF q) (h : code p = code q) : p = q := by
  have hpl := hp.len_le; have hql := hq.len_le
  have hph := hp.hi_lt; have hqh := hq.hi_lt
  have hA : A = 2 ^ 128 := by decide
  have h137 : (2:Nat) ^ 137 = 2 ^ 128 * 512 := by decide
  unfold code at h
  have hfam : p.isV4 = q.isV4 := by
    by_cases h1 : p.isV4 = true <;> by_cases h2 : q.isV4 = true
    · rw [h1, h2]
    · exfalso; simp only [h1, h2, if_true, if_false, Bool.false_eq_true] at h; omega
    · exfalso; simp only [h1, h2, if_true, if_false, Bool.false_eq_true] at h; omega
    · have e1 : p.isV4 = false := by simpa using h1
      have e2 : q.isV4 = false := by simpa using h2
      rw [e1, e2]
  have hrest : p.hi * 256 + (128 - p.len) = q.hi * 256 + (128 - q.len) := by
    rw [hfam, Nat.add_assoc, Nat.add_assoc] at h
    exact Nat.add_left_cancel h
  have hhi : p.hi = q.hi := by omega
  have hlen : p.len = q.len := by omega
  have hfal := fal_inj hp hq hfam hlen
  have hbits : p.bits = q.bits := by
    rw [hp.hi_eq, hq.hi_eq, hlen] at hhi
    have := pow_pos2 (hostBits q.len)
    omega
  cases p; cases q; simp_all

theorem cmp_eq_iff (p q : Pfx) (hp : WF p) (hq : WF q) : cmp p q = .eq ↔ p = q := by
  rw [cmp_code p q hp hq, Nat.compare_eq_eq]
  exact ⟨code_injective p q hp hq, fun h => by rw [h]⟩

theorem cmp_antisymm (p q : Pfx) (hp : WF p) (hq : WF q) : cmp q p = (cmp p q).swap := by
  rw [cmp_code p q hp hq, cmp_code q p hq hp, Nat.compare_swap]

/-- Totality: any two prefixes are comparable, and exactly one of lt / eq / gt holds by construction
of `Ordering`; transitivity of `≤`. -/
theorem cmp_trans (p q r : Pfx) (hp : WF p) (hq : WF q) (hr : WF r)
    (h1 : cmp p q ≠ .gt) (h2 : cmp q r ≠ .gt) : cmp p r ≠ .gt := by
  rw [cmp_code _ _ hp hq, Nat.compare_ne_gt] at h1
  rw [cmp_code _ _ hq hr, Nat.compare_ne_gt] at h2
  rw [cmp_code _ _ hp hr, Nat.compare_ne_gt]
  omega

theorem cmp_lt_trans (p q r : Pfx) (hp : WF p) (hq : WF q) (hr : WF r)
    (h1 : cmp p q = .lt) (h2 : cmp q r = .lt) : cmp p r = .lt := by
  rw [cmp_code _ _ hp hq, Nat.compare_eq_lt] at h1
  rw [cmp_code _ _ hq hr, Nat.compare_eq_lt] at h2
  rw [cmp_code _ _ hp hr, Nat.compare_eq_lt]
  omega

/-- A more specific prefix is placed before any prefix covering it. -/
theorem more_specific_first (p q : Pfx) (hp : WF p) (hq : WF q)
    (hc : covers q p = true) (hne : p ≠ q) : cmp p q = .lt := by
  have ⟨hf, hlo, hhi⟩ := (covers_iff_range q p hq hp).1 hc
  rw [cmp_code p q hp hq, Nat.compare_eq_lt]
  have hpl := hp.len_le; have hql := hq.len_le
  unfold code
  rw [hf]
  -- either the last address is smaller, or equal and p is longer
  rcases Nat.lt_or_eq_of_le hhi with h | h
  · omega
  · -- p.hi = q.hi and q.lo ≤ p.lo: p has at most q's size
    have : q.len ≤ p.len := by
      rw [hp.hi_eq, hq.hi_eq] at h
      unfold Pfx.lo at hlo
      have hP := pow_pos2 (hostBits p.len); have hQ := pow_pos2 (hostBits q.len)
      apply Nat.le_of_not_lt; intro hlt
      have : 2 ^ hostBits q.len < 2 ^ hostBits p.len := pow_lt_of_lt (by unfold hostBits; omega)
      omega
    rcases Nat.lt_or_eq_of_le this with h2 | h2
    · omega
    · exfalso; apply hne
      apply code_injective p q hp hq
      unfold code; rw [hf, h, h2]

/-! ## MaxLenPrefix and RouteOrigin ordering -/

/-- `MaxLenPrefix` order is consistent with its (derived, structural) equality. -/
theorem mlpCmp_eq_iff (a b : Mlp) (ha : WF a.pfx) (hb : WF b.pfx) : mlpCmp a b = .eq ↔ a = b := by
  unfold mlpCmp
  have h := cmp_eq_iff a.pfx b.pfx ha hb
  obtain ⟨ap, am⟩ := a; obtain ⟨bp, bm⟩ := b
  simp only at *
  cases hc : cmp ap bp <;> simp only [hc] at h ⊢
  · simp; intro e; exact absurd (h.2 e) (by simp)
  · have e := h.1 trivial; subst e
    cases am <;> cases bm <;> simp
    constructor <;> intro h <;> exact h.symm
  · simp; intro e; exact absurd (h.2 e) (by simp)

/-- Route origins compare lexicographically by prefix, effective max length and AS number. -/
theorem originCmp_lex (a b : Origin) :
    originCmp a b = (cmp a.mlp.pfx b.mlp.pfx).then ((compare a.mlp.resolved b.mlp.resolved).then (compare a.asn b.asn)) := by
  unfold originCmp
  cases cmp a.mlp.pfx b.mlp.pfx <;> simp [Ordering.then]
  cases compare a.mlp.resolved b.mlp.resolved <;> simp

/-- Origin order is consistent with origin equality … -/
theorem originCmp_eq_iff (a b : Origin) (ha : WF a.mlp.pfx) (hb : WF b.mlp.pfx) :
    originCmp a b = .eq ↔ originEq a b = true := by
  unfold originCmp originEq
  have h := cmp_eq_iff a.mlp.pfx b.mlp.pfx ha hb
  cases hc : cmp a.mlp.pfx b.mlp.pfx <;> simp only [hc] at h ⊢
  · have : ¬ a.mlp.pfx = b.mlp.pfx := fun e => by have := h.2 e; simp at this
    simp [this]
  · have e := h.1 trivial
    cases hr : compare a.mlp.resolved b.mlp.resolved
    · have : ¬ a.mlp.resolved = b.mlp.resolved := by
        intro e2; rw [e2, Nat.compare_eq_lt] at hr; omega
      simp [e, this]
    · rw [Nat.compare_eq_eq] at hr
      simp [e, hr, Nat.compare_eq_eq]
    · have : ¬ a.mlp.resolved = b.mlp.resolved := by
        intro e2; rw [e2, Nat.compare_eq_gt] at hr; omega
      simp [e, this]
  · have : ¬ a.mlp.pfx = b.mlp.pfx := fun e => by have := h.2 e; simp at this
    simp [this]

/-- … and equal origins feed identical word sequences to the hasher. -/
theorem originHash_of_eq (a b : Origin) (h : originEq a b = true) : originHashKey a = originHashKey b := by
  unfold originEq at h
  simp only [Bool.and_eq_true, decide_eq_true_eq] at h
  unfold originHashKey
  rw [h.1.1, h.1.2, h.2]

/-! ## Small AS-number sets -/

/-- A set built from any items is sorted, duplicate-free and has exactly those items.
(`asnSetDedup` is read from the source: whether `from_iter` dedups after sorting.) -/
theorem fromIter_spec (xs : List Nat) :
    StrictSorted (fromIter asnSetDedup xs) ∧ ∀ x, x ∈ fromIter asnSetDedup xs ↔ x ∈ xs := by
  have hd : asnSetDedup = true := rfl
  unfold fromIter
  simp only [hd, if_true]
  exact ⟨strictSorted_dedup _ (sorted_sort xs), fun x => by rw [mem_dedup, mem_sort]⟩

theorem union_is_union (l r : List Nat) (hl : StrictSorted l) (hr : StrictSorted r) :
    StrictSorted (union l r) ∧ ∀ x, x ∈ union l r ↔ x ∈ l ∨ x ∈ r := union_spec l r hl hr

theorem inter_is_inter (l r : List Nat) (hl : StrictSorted l) (hr : StrictSorted r) :
    StrictSorted (inter l r) ∧ ∀ x, x ∈ inter l r ↔ x ∈ l ∧ x ∈ r := inter_spec l r hl hr

theorem diff_is_diff (l r : List Nat) (hl : StrictSorted l) (hr : StrictSorted r) :
    StrictSorted (diff l r) ∧ ∀ x, x ∈ diff l r ↔ x ∈ l ∧ x ∉ r := diff_spec l r hl hr

theorem symDiff_is_symDiff (l r : List Nat) (hl : StrictSorted l) (hr : StrictSorted r) :
    StrictSorted (symDiff l r) ∧ ∀ x, x ∈ symDiff l r ↔ (x ∈ l ∧ x ∉ r) ∨ (x ∈ r ∧ x ∉ l) :=
  symDiff_spec l r hl hr

/-! ## Text forms -/

/-- **Prefix text.** Whatever one of the four constructors makes (strict or relaxed, either family,
any address and any length it admits), `Display` writes a text that both `Prefix::from_str` and
`Prefix::from_str_relaxed` read back as the same value — address text as the standard library
writes and reads it (dotted quad; RFC 5952 with the IPv4-mapped form), `/`, decimal length. -/
theorem prefix_text_roundtrip (a len : Nat) (hl : len < 256) (p : Pfx)
    (h : (a < 2 ^ 32 ∧ (newV4 a len = .ok p ∨ newV4Relaxed a len = .ok p)) ∨
         (a < 2 ^ 128 ∧ (newV6 a len = .ok p ∨ newV6Relaxed a len = .ok p))) :
    PfxText.parsePfx false (PfxText.fmtPfx p) = .ok p ∧
    PfxText.parsePfx true (PfxText.fmtPfx p) = .ok p := by
  have hw : PfxText.PfxWF p := by
    rcases h with ⟨ha, h | h⟩ | ⟨ha, h | h⟩
    · exact PfxText.wf_of_newV4 a len p ha hl h
    · exact PfxText.wf_of_newV4Relaxed a len p ha hl h
    · exact PfxText.wf_of_newV6 a len p ha hl h
    · exact PfxText.wf_of_newV6Relaxed a len p ha hl h
  exact ⟨PfxText.parsePfx_fmt false p hw, PfxText.parsePfx_fmt true p hw⟩

/-- **Text cannot make an invalid prefix.** Whatever `Prefix::from_str` (strict) or `from_str_relaxed`
accepts is the value the strict / relaxed constructor returns for the address and the `u8` length read
from the text — so, by the constructor theorems above, its length lies within its family and its host
bits are zero. -/
theorem parsed_prefix_is_constructed (relaxed : Bool) (s : ResText.Bytes) (p : Pfx)
    (h : PfxText.parsePfx relaxed s = .ok p) :
    ∃ v4 a len, len < 256 ∧ PfxText.pfxNew relaxed (v4, a) len = .ok p := by
  obtain ⟨⟨v4, a⟩, len, hl, hp⟩ := PfxText.parsePfx_ok relaxed s p h
  exact ⟨v4, a, len, hl, hp⟩

/-- **Parsed prefixes are well-formed, and their canonical text is stable.** Every value the strict or
the relaxed text reader returns has its address inside its family (the address readers return less than
2^32 resp. 2^128: `parseV4_lt`, `parseV6_lt`), clear host bits and the family/length octet of the
constructors; writing it and reading the text again — with either reader — gives the same value. -/
theorem parsed_prefix_wf (r r' : Bool) (s : ResText.Bytes) (p : Pfx) (h : PfxText.parsePfx r s = .ok p) :
    PfxText.PfxWF p ∧ PfxText.parsePfx r' (PfxText.fmtPfx p) = .ok p :=
  ⟨PfxText.parsePfx_wf r s p h, PfxText.parse_fmt_parse r r' s p h⟩

/-- Two constructed prefixes with the same text are the same prefix. -/
theorem prefix_text_injective (p q : Pfx) (hp : PfxText.PfxWF p) (hq : PfxText.PfxWF q)
    (h : PfxText.fmtPfx p = PfxText.fmtPfx q) : p = q := by
  have h1 := PfxText.parsePfx_fmt false p hp
  rw [h, PfxText.parsePfx_fmt false q hq] at h1
  cases h1; rfl

/-- **Max-length prefix text.** Every value `MaxLenPrefix::new` returns for a constructed prefix is
written (`prefix` or `prefix-maxlen`) as a text `MaxLenPrefix::from_str` reads back as that value. -/
theorem maxlen_text_roundtrip (m : Mlp) (hp : PfxText.PfxWF m.pfx) (hm : mlpNew m.pfx m.ml = .ok m) :
    PfxText.parseMlp (PfxText.fmtMlp m) = .ok m := PfxText.parseMlp_fmt m hp hm

/-- **Parsed max-length prefixes obey the max-length rule.** What `MaxLenPrefix::from_str` accepts is a
value `MaxLenPrefix::new` returns for a well-formed prefix (so prefix length ≤ max length ≤ family
maximum, by `mlpNew_ok_iff`), and it is read back from its own text. -/
theorem parsed_maxlen_sound (s : ResText.Bytes) (m : Mlp) (h : PfxText.parseMlp s = .ok m) :
    PfxText.PfxWF m.pfx ∧ mlpNew m.pfx m.ml = .ok m ∧ PfxText.parseMlp (PfxText.fmtMlp m) = .ok m :=
  PfxText.parseMlp_sound s m h

/-- **AS number text.** `AS<decimal>` parses back to the number, for every 32-bit number. -/
theorem asn_text_roundtrip (n : Nat) (h : n < 2 ^ 32) :
    ResText.parseAsn (PfxText.fmtAsn n) = some n := ResText.parseAsn_fmt n h

/-! ## Non-vacuity -/

-- 10.0.0.0/8 and 10.1.0.0/16 are well-formed; the /8 covers the /16 and sorts after it.
example : WF ⟨8, 10 * 2 ^ 120⟩ ∧ WF ⟨16, 10 * 2 ^ 120 + 2 ^ 112⟩ := by decide
example : covers ⟨8, 10 * 2 ^ 120⟩ ⟨16, 10 * 2 ^ 120 + 2 ^ 112⟩ = true ∧
    Prefix.cmp ⟨16, 10 * 2 ^ 120 + 2 ^ 112⟩ ⟨8, 10 * 2 ^ 120⟩ = .lt := by decide
example : (newV4 (10 * 2 ^ 24) 8).toOption = some ⟨8, 10 * 2 ^ 120⟩ := by decide
example : fromIter true [3, 1, 3, 2, 1] = [1, 2, 3] := by decide
example : StrictSorted [1, 5] ∧ union [1, 5] [2, 5] = [1, 2, 5] := by simp [StrictSorted, union]

-- "10.0.0.0/8" is what the formatter writes for 10.0.0.0/8, and the hypotheses of the text theorems hold for it
example : PfxText.fmtPfx ⟨8, 10 * 2 ^ 120⟩ = [49, 48, 46, 48, 46, 48, 46, 48, 47, 56] := by decide
example : newV4 (10 * 2 ^ 24) 8 = .ok ⟨8, 10 * 2 ^ 120⟩ ∧ mlpNew ⟨8, 10 * 2 ^ 120⟩ (some 24) = .ok ⟨⟨8, 10 * 2 ^ 120⟩, some 24⟩ := by decide

end Rpki.C13
