/-
  C14 — manifest entries cannot name anything outside the publication point.
  Property theorems only; helper lemmas are in `Rpki/Proofs/ManifestLemmas.lean`.
-/
import Rpki.Proofs.ManifestLemmas
import Rpki.Proofs.UriRsync2
import Rpki.Model.CmsDer
import Rpki.Gen.BerModel
namespace Rpki.Props.C14
open Rpki.Der Rpki.Manifest

/-- what a successful decode guarantees about the stored content -/
theorem fields_facts (c : Bytes) (m : Content) (h : decodeFields c = some m) :
    civilKey m.thisUpdate ≤ civilKey m.nextUpdate ∧
    countLoop m.fileList.length m.fileList 0 = some m.len := by
  unfold decodeFields at h
  split at h
  · cases h
  split at h
  · cases h
  split at h
  · cases h
  split at h
  · cases h
  split at h
  · cases h
  split at h
  · cases h
  split at h
  · cases h
  split at h
  · cases h
  split at h
  · cases h
  split at h
  · cases h
  injection h with h; subst h
  exact ⟨by simp only; omega, by assumption⟩

theorem decode_facts (b : Bytes) (m : Content) (h : decodeContent b = some m) :
    civilKey m.thisUpdate ≤ civilKey m.nextUpdate ∧
    countLoop m.fileList.length m.fileList 0 = some m.len := by
  unfold decodeContent at h
  split at h
  · cases h
  split at h
  · cases h
  exact fields_facts _ m h

/-- **File names.** `validate_file_name` accepts exactly the names made of letters, digits, `-`, `_`,
one dot and a three-letter extension. -/
theorem validName_iff (n : Bytes) :
    validName n = true ↔ ∃ stem ext, n = stem ++ 46 :: ext ∧ stem.all validChar = true ∧
      ext.length = 3 ∧ ext.all isAlpha = true := validName_iff' n

/-- A legal name is a single path segment: no slash, and neither `.` nor `..`. -/
theorem validName_segment (n : Bytes) (h : validName n = true) :
    47 ∉ n ∧ n ≠ [46] ∧ n ≠ [46, 46] ∧ n ≠ [] := by
  have hl := validName_length h
  refine ⟨validName_noslash h, ?_, ?_, ?_⟩ <;> (intro e; rw [e] at hl; simp at hl)

/-- **Length and iteration.** For every decoded manifest the iterator yields exactly `len()`
entries, never hits its `unwrap()`, and every entry carries a legal name. -/
theorem len_eq_iter (b : Bytes) (m : Content) (h : decodeContent b = some m) :
    ∃ es, m.iter = some es ∧ es.length = m.len ∧ ∀ e ∈ es, validName e.name = true := by
  obtain ⟨es, h1, h2, h3⟩ := count_iter _ _ _ _ (decode_facts b m h).2
  exact ⟨es, h1, by simpa using h2, h3⟩

/-- **Times.** A decoded manifest never has thisUpdate after nextUpdate. -/
theorem times_ordered (b : Bytes) (m : Content) (h : decodeContent b = some m) :
    civilKey m.thisUpdate ≤ civilKey m.nextUpdate := (decode_facts b m h).1

/-- **Resolution.** Resolving the list of a decoded manifest against any rsync base URI never
fails (the `unwrap()` in `iter_uris` is safe) and every result is the base directory followed by
the bare name — i.e. a URI directly inside that directory. -/
theorem iterUris_inside (b : Bytes) (m : Content) (base : Uri.Rsync) (h : decodeContent b = some m) :
    ∃ es us, m.iter = some es ∧ iterUris m base = some us ∧ us.length = m.len ∧
      us = es.map (fun e => ({ base with bytes := dirOf base.bytes ++ e.name }, e.hash)) ∧
      ∀ e ∈ es, 47 ∉ e.name := by
  obtain ⟨es, h1, h2, h3⟩ := len_eq_iter b m h
  refine ⟨es, es.map (fun e => ({ base with bytes := dirOf base.bytes ++ e.name }, e.hash)),
    h1, ?_, by simpa using h2, rfl, fun e he => validName_noslash (h3 e he)⟩
  unfold iterUris
  rw [h1]
  simp only
  clear h1 h2
  induction es with
  | nil => rfl
  | cons e t ih =>
    have hv := h3 e (by simp)
    rw [List.mapM_cons, join_validName base e.name hv]
    simp only [Option.bind_eq_bind, Option.bind_some]
    rw [ih (fun x hx => h3 x (by simp [hx]))]
    rfl

/-- The URI produced for an entry re-parses as a valid rsync URI with the same module. -/
theorem resolved_is_valid (base v : Uri.Rsync) (n : Bytes) (hb : base.Inv) (hn : validName n = true)
    (hj : base.join n = .ok v) :
    Uri.Rsync.fromBytes v.bytes = .ok v ∧ v.pathStart = base.pathStart := by
  have := Uri.Rsync.fromBytes_of_inv v (Uri.Rsync.join_inv base n v hb hj)
  refine ⟨this, ?_⟩
  rw [join_validName base n hn] at hj
  injection hj with hj; rw [← hj]

/-- **Hashes.** A listed hash verifies against data exactly when it equals the digest of the data. -/
theorem hashVerify_iff (digest : Bytes → Bytes) (hash data : Bytes) :
    hashVerify digest hash data = true ↔ hash = digest data := by
  unfold hashVerify; simp

/-! ### the same for a whole manifest object on octets

`CmsDer.decodeTyped "mft"` is `Manifest::decode` in strict mode (tied by the `cmsd` operations): the CMS
envelope, the embedded certificate, the signed attributes and the content.  Every manifest object it
accepts — whatever the octets — has the properties above. -/

theorem manifest_object_octets (b : Bytes) (o : CmsDer.SigObjD) (base : Uri.Rsync)
    (h : CmsDer.decodeTyped "mft" b = some o) :
    ∃ m es us, decodeContent o.content = some m ∧
      m.iter = some es ∧ es.length = m.len ∧ (∀ e ∈ es, validName e.name = true) ∧
      civilKey m.thisUpdate ≤ civilKey m.nextUpdate ∧
      iterUris m base = some us ∧ us.length = m.len ∧ (∀ e ∈ es, 47 ∉ e.name) := by
  unfold CmsDer.decodeTyped at h
  cases hd : CmsDer.decodeSigObj b with
  | none => simp [hd] at h
  | some o' =>
    simp only [hd] at h
    have e1 : ("mft" = "roa") = False := by decide
    have e2 : ("mft" = "aspa") = False := by decide
    simp only [e1, e2, if_false, if_true] at h
    split at h
    · rename_i hc
      injection h with h; subst h
      cases hm : decodeContent o'.content with
      | none => rw [hm] at hc; simp at hc
      | some m =>
        obtain ⟨es, h1, h2, h3⟩ := len_eq_iter _ m hm
        obtain ⟨es', us, g1, g2, g3, _, g5⟩ := iterUris_inside _ m base hm
        have : es' = es := by rw [h1] at g1; injection g1 with g1; exact g1.symm
        subst this
        exact ⟨m, es', us, rfl, h1, h2, h3, times_ordered _ m hm, g2, g3, g5⟩
    · cases h

/-- the same for a manifest decoded in either mode (`Manifest::decode(.., strict)` with `strict` true or false): the
content is decoded in DER mode whatever the envelope's mode, so every conclusion carries over -/
theorem manifest_object_octets_either_mode (ber : Bool) (b : Bytes) (o : CmsDer.SigObjD) (base : Uri.Rsync)
    (h : CmsDer.decodeTypedM ber "mft" b = some o) :
    ∃ m es us, decodeContent o.content = some m ∧
      m.iter = some es ∧ es.length = m.len ∧ (∀ e ∈ es, validName e.name = true) ∧
      civilKey m.thisUpdate ≤ civilKey m.nextUpdate ∧
      iterUris m base = some us ∧ us.length = m.len ∧ (∀ e ∈ es, 47 ∉ e.name) := by
  unfold CmsDer.decodeTypedM at h
  cases hd : CmsDer.decodeSigObjM ber b with
  | none => simp [hd] at h
  | some o' =>
    simp only [hd] at h
    have e1 : ("mft" = "roa") = False := by decide
    have e2 : ("mft" = "aspa") = False := by decide
    simp only [e1, e2, if_false, if_true] at h
    split at h
    · rename_i hc
      injection h with h; subst h
      cases hm : decodeContent o'.content with
      | none => rw [hm] at hc; simp at hc
      | some m =>
        obtain ⟨es, h1, h2, h3⟩ := len_eq_iter _ m hm
        obtain ⟨es', us, g1, g2, g3, _, g5⟩ := iterUris_inside _ m base hm
        have : es' = es := by rw [h1] at g1; injection g1 with g1; exact g1.symm
        subst this
        exact ⟨m, es', us, rfl, h1, h2, h3, times_ordered _ m hm, g2, g3, g5⟩
    · cases h

/-! ### non-vacuity -/

/-- "a-1.roa" -/
example : validName [97, 45, 49, 46, 114, 111, 97] = true := by decide
/-- "../x.cer", "a/b.cer", ".." are rejected -/
example : validName [46, 46, 47, 120, 46, 99, 101, 114] = false ∧
    validName [97, 47, 98, 46, 99, 101, 114] = false ∧ validName [46, 46] = false := by decide

end Rpki.Props.C14
