/-
C16 — RTR serial numbers compare and advance per RFC 1982.
Only property theorems and non-vacuity examples live here.
-/
import Rpki.Model.Serial
namespace Rpki.C16
open Rpki.Serial Rpki.Consts

/-- Comparison depends only on the difference modulo 2^32, with exactly the
RFC 1982 table: eq at 0, lt for 1..2^31-1 ahead, undefined at 2^31, gt beyond. -/
theorem pcmp_spec (a b : Nat) (ha : a < W) (hb : b < W) :
    pcmp a b = table (diff a b) := by
  unfold pcmp table diff W serialHalfL serialHalfG at *
  by_cases h1 : a = b
  · subst h1
    have : (a + 4294967296 - a) % 4294967296 = 0 := by omega
    simp [this]
  · by_cases h2 : a < b
    · have hd : (b + 4294967296 - a) % 4294967296 = b - a := by omega
      have h0 : ¬ (b - a = 0) := by omega
      simp only [h1, h2, hd, h0, if_true, if_false]
      by_cases h3 : b - a < 2147483648
      · simp [h3]
      · by_cases h4 : b - a > 2147483648
        · have : ¬ (b - a = 2147483648) := by omega
          simp [h3, h4, this]
        · have : b - a = 2147483648 := by omega
          simp [this]
    · have hd : (b + 4294967296 - a) % 4294967296 = b + 4294967296 - a := by omega
      have h0 : ¬ (b + 4294967296 - a = 0) := by omega
      simp only [h1, h2, hd, h0, if_false]
      by_cases h3 : a - b < 2147483648
      · have h5 : ¬ (b + 4294967296 - a < 2147483648) := by omega
        have h6 : ¬ (b + 4294967296 - a = 2147483648) := by omega
        simp [h3, h5, h6]
      · by_cases h4 : a - b > 2147483648
        · have h5 : b + 4294967296 - a < 2147483648 := by omega
          simp [h3, h4, h5]
        · have h5 : ¬ (b + 4294967296 - a < 2147483648) := by omega
          have h6 : b + 4294967296 - a = 2147483648 := by omega
          simp [h3, h4, h5, h6]

/-- Two pairs with the same difference compare the same. -/
theorem pcmp_diff_only (a b c d : Nat) (ha : a < W) (hb : b < W) (hc : c < W) (hd : d < W)
    (h : diff a b = diff c d) : pcmp a b = pcmp c d := by
  rw [pcmp_spec a b ha hb, pcmp_spec c d hc hd, h]

def flip : Option Ordering → Option Ordering
  | some .lt => some .gt
  | some .gt => some .lt
  | some .eq => some .eq
  | none => none

/-- Antisymmetry: swapping the arguments swaps lt/gt and keeps eq/undefined. -/
theorem pcmp_antisymm (a b : Nat) :
    pcmp b a = flip (pcmp a b) := by
  unfold pcmp flip serialHalfL serialHalfG
  by_cases h1 : a = b
  · subst h1; simp
  · have h2 : ¬ b = a := fun h => h1 h.symm
    by_cases h3 : a < b
    · have h4 : ¬ b < a := by omega
      simp only [h1, h2, h3, h4, if_true, if_false]
      split <;> (try split) <;> simp_all
    · have h4 : b < a := by omega
      simp only [h1, h2, h3, h4, if_true, if_false]
      split <;> (try split) <;> simp_all

theorem pcmp_eq_iff (a b : Nat) :
    pcmp a b = some .eq ↔ a = b := by
  unfold pcmp serialHalfL serialHalfG
  constructor
  · intro h
    by_cases h1 : a = b
    · exact h1
    · simp only [h1, if_false] at h
      split at h <;> (split at h) <;> (try split at h) <;> simp_all
  · intro h; simp [h]

/-- Adding any n in 1..2^31-1 gives a strictly greater serial, even across the wrap. -/
theorem add_lt (a n : Nat) (ha : a < W) (h1 : 1 ≤ n) (h2 : n ≤ 2147483647) :
    ∃ s, add a n = some s ∧ s < W ∧ pcmp a s = some .lt := by
  refine ⟨(a + n) % W, ?_, ?_, ?_⟩
  · unfold add serialAddMax; simp [h2]
  · unfold W; omega
  · have hs : (a + n) % W < W := by unfold W; omega
    rw [pcmp_spec a _ ha hs]
    unfold table diff W at *
    have : ((a + n) % 4294967296 + 4294967296 - a) % 4294967296 = n := by omega
    rw [this]
    have : ¬ n = 0 := by omega
    have : n < 2147483648 := by omega
    simp [*]

/-- `add` rejects exactly the increments above 2^31-1 (the documented panic). -/
theorem add_guard (a n : Nat) : add a n = none ↔ 2147483647 < n := by
  unfold add serialAddMax
  split <;> simp <;> omega

theorem wire_length (a : Nat) : (wire a).length = 4 := rfl

/-- Wire conversion is lossless. -/
theorem unwire_wire (a : Nat) (ha : a < W) : unwire (wire a) = some a := by
  unfold unwire wire W at *
  have h3 : a / 16777216 % 256 < 256 := Nat.mod_lt _ (by decide)
  have h2 : a / 65536 % 256 < 256 := Nat.mod_lt _ (by decide)
  have h1 : a / 256 % 256 < 256 := Nat.mod_lt _ (by decide)
  have h0 : a % 256 < 256 := Nat.mod_lt _ (by decide)
  simp only [h3, h2, h1, h0, and_self, if_true]
  congr 1
  omega

/-- Big-endian: the value is the base-256 number of the bytes, MSB first, and all are bytes. -/
theorem wire_bigendian (a : Nat) (ha : a < W) :
    (wire a).foldl (fun acc b => acc * 256 + b) 0 = a ∧ ∀ b ∈ wire a, b < 256 := by
  unfold wire W at *
  constructor
  · simp only [List.foldl]; omega
  · intro b hb
    simp only [List.mem_cons, List.mem_nil_iff, or_false] at hb
    rcases hb with h | h | h | h <;> subst h <;> exact Nat.mod_lt _ (by decide)

/-- Wire conversion is injective on serials (follows from losslessness). -/
theorem wire_injective (a b : Nat) (ha : a < W) (hb : b < W) (h : wire a = wire b) : a = b := by
  have := unwire_wire a ha
  rw [h, unwire_wire b hb] at this
  exact (Option.some.inj this).symm

-- Non-vacuity: the wrap case is a real instance of the hypotheses.
example : add 4294967295 1 = some 0 ∧ pcmp 4294967295 0 = some .lt := by decide
example : pcmp 0 2147483648 = none ∧ pcmp 2147483648 0 = none := by decide
example : wire 0x01020304 = [1, 2, 3, 4] := by decide

end Rpki.C16
