/-
C06 — RTR: after any completed exchange the client holds exactly the server's data.
Only property theorems and non-vacuity examples; lemmas are in Rpki/Proofs/RtrSessionLemmas.lean.
-/
import Rpki.Proofs.RtrSessionLemmas
namespace Rpki.C06
open Rpki.RtrSession Rpki.Consts

/-- The gated diff takes the old restricted set to the new restricted set (ASPA keyed by customer). -/
theorem diff_exact (v : Nat) (old new : PSet) (ho : WFSet old) (hn : WFSet new) :
    SetEq (applyAll (restrict v old) (gate v (diffItems old new))) (restrict v new) :=
  diff_apply v old new ho hn

/-- A cache reset delivers exactly the restricted current set. -/
theorem reset_exact (v : Nat) (new : PSet) (hn : WFSet new) :
    SetEq (applyAll [] (gate v (new.map (fun y => (Action.announce, y))))) (restrict v new) :=
  reset_apply v new hn

/-- the client's data is what the source had at the state the client remembers (if the source
still knows that state), restricted to protocol version `v` -/
def Sync (v : Nat) (c : Client) (src : Src) (d : PSet) : Prop :=
  ∀ sess ser old, c.state = some (sess, ser) → sess = src.session → src.lookup ser = some old →
    WFSet old ∧ SetEq d (restrict v old)

theorem negotiate_spec (c c1 : Client) (cap : Nat) (h : negotiate c cap = some c1) :
    c1.ver ≤ cap ∧ c1.state = c.state ∧ c1.refresh = c.refresh ∧
    (c1 = c ∨ (c.version = none ∧ cap < c.initial ∧ cap < rtrInitialVersion ∧ c1.version = some cap)) := by
  unfold negotiate at h
  by_cases h1 : c.ver ≤ cap
  · rw [if_pos h1] at h; injection h with h; subst h
    exact ⟨h1, rfl, rfl, Or.inl rfl⟩
  · rw [if_neg h1] at h
    by_cases h2 : c.version.isSome = true
    · rw [if_pos h2] at h; cases h
    · rw [if_neg h2] at h
      by_cases h3 : cap ≥ rtrInitialVersion
      · rw [if_pos h3] at h; cases h
      · rw [if_neg h3] at h
        injection h with h; subst h
        have hv : c.version = none := by simpa using h2
        refine ⟨by simp [Client.ver], rfl, rfl, Or.inr ⟨hv, ?_, by omega, rfl⟩⟩
        unfold Client.ver at h1; rw [hv] at h1; simp at h1; omega

theorem negotiate_idem (c1 : Client) (cap : Nat) (h : c1.ver ≤ cap) (st : Option (Nat × Nat)) :
    negotiate { c1 with state := st } cap = some { c1 with state := st } := by
  unfold negotiate
  have : ({ c1 with state := st } : Client).ver ≤ cap := h
  rw [if_pos this]

theorem clientReset_spec (c : Client) (cap : Nat) (src : Src) (c' : Client) (reset : Bool) (upd : Update)
    (d : PSet) (hw : WFSet src.cur) (h : clientReset c cap src = .ok c' reset upd) :
    SetEq (dataAfter d reset upd) (restrict c'.ver src.cur) ∧ c'.state = some (src.session, src.serial) ∧
    (1 ≤ c'.ver → c'.refresh = src.refresh) ∧ c'.ver ≤ cap ∧ reset = true := by
  unfold clientReset at h
  cases hn : negotiate c cap with
  | none => simp [hn] at h
  | some c1 =>
    simp only [hn, serverReset] at h
    injection h with h1 h2 h3
    subst h1; subst h2; subst h3
    have ⟨n1, _, _, _⟩ := negotiate_spec c c1 cap hn
    refine ⟨?_, rfl, ?_, ?_, rfl⟩
    · unfold dataAfter; simp only [if_true]
      exact reset_apply _ _ hw
    · intro hv
      have hv' : 1 ≤ c1.ver := by simpa [adopt, Client.ver] using hv
      have : ¬ c1.ver = 0 := by omega
      simp only [adopt]
      rw [if_neg this]
    · simp only [adopt, Client.ver, Option.getD_some]; exact n1

/-- **One step.** Whenever a client step finishes, the updates handed to the target, applied in
order to the previous data, yield exactly the source's current payload set restricted to the
negotiated version; the client's state is the source's state; from version 1 on its timing is the
source's. (`Sync` only constrains the previous data when the source can still produce a diff.) -/
theorem step_sync (c : Client) (cap : Nat) (src : Src) (c' : Client) (reset : Bool) (upd : Update) (d : PSet)
    (hw : WFSet src.cur) (h : clientStep c cap src = .ok c' reset upd) (hs : Sync c'.ver c src d) :
    SetEq (dataAfter d reset upd) (restrict c'.ver src.cur) ∧ c'.state = some (src.session, src.serial) ∧
    (1 ≤ c'.ver → c'.refresh = src.refresh) ∧ c'.ver ≤ cap := by
  unfold clientStep at h
  cases hst : c.state with
  | none =>
    rw [hst] at h
    have := clientReset_spec c cap src c' reset upd d hw h
    exact ⟨this.1, this.2.1, this.2.2.1, this.2.2.2.1⟩
  | some p =>
    obtain ⟨sess, ser⟩ := p
    rw [hst] at h
    simp only at h
    cases hn : negotiate c cap with
    | none => simp [hn] at h
    | some c1 =>
      simp only [hn] at h
      have ⟨n1, n2, n3, n4⟩ := negotiate_spec c c1 cap hn
      unfold serverSerial Src.diff at h
      by_cases hsess : sess ≠ src.session
      · rw [if_pos hsess] at h
        simp only at h
        have := clientReset_spec { c1 with state := none } cap src c' reset upd d hw h
        exact ⟨this.1, this.2.1, this.2.2.1, this.2.2.2.1⟩
      · rw [if_neg hsess] at h
        cases hl : src.lookup ser with
        | none =>
          simp only [hl, Option.map_none] at h
          have := clientReset_spec { c1 with state := none } cap src c' reset upd d hw h
          exact ⟨this.1, this.2.1, this.2.2.1, this.2.2.2.1⟩
        | some old =>
          simp only [hl, Option.map_some] at h
          injection h with h1 h2 h3
          subst h1; subst h2; subst h3
          have hsess' : sess = src.session := by simpa using hsess
          have hver : (adopt c1 c1.ver src.session src.serial src.refresh).ver = c1.ver := by
            simp [adopt, Client.ver]
          rw [hver] at hs ⊢
          have ⟨wo, hd⟩ := hs sess ser old hst hsess' hl
          refine ⟨?_, rfl, ?_, n1⟩
          · unfold dataAfter
            simp only [Bool.false_eq_true, if_false]
            intro x
            rw [applyAll_setEq _ d (restrict c1.ver old) hd x]
            exact diff_apply c1.ver old src.cur wo hw x
          · intro hv
            simp only [adopt]
            have : ¬ c1.ver = 0 := by omega
            rw [if_neg this]

/-- **Version downgrade.** Against a peer that only speaks versions up to `cap` (below the client's
initial version), a fresh client that finishes a step has negotiated exactly `cap`. -/
theorem downgrade (c : Client) (cap : Nat) (src : Src) (c' : Client) (reset : Bool) (upd : Update)
    (hv : c.version = none) (hcap : cap < c.initial) (h : clientStep c cap src = .ok c' reset upd) :
    c'.ver = cap ∧ cap < rtrInitialVersion := by
  have hne : ¬ c.ver ≤ cap := by unfold Client.ver; rw [hv]; simp; omega
  have key : ∀ c1, negotiate c cap = some c1 → c1.ver = cap ∧ cap < rtrInitialVersion := by
    intro c1 hn
    have ⟨_, _, _, n4⟩ := negotiate_spec c c1 cap hn
    rcases n4 with e | ⟨_, _, h3, h4⟩
    · subst e; have := (negotiate_spec c1 c1 cap hn).1; exact absurd this hne
    · exact ⟨by simp [Client.ver, h4], h3⟩
  unfold clientStep at h
  cases hst : c.state with
  | none =>
    rw [hst] at h
    unfold clientReset at h
    cases hn : negotiate c cap with
    | none => simp [hn] at h
    | some c1 =>
      simp only [hn, serverReset] at h
      injection h with h1 _ _
      subst h1
      have := key c1 hn
      exact ⟨by simp [adopt, Client.ver]; exact this.1, this.2⟩
  | some p =>
    obtain ⟨sess, ser⟩ := p
    rw [hst] at h
    simp only at h
    cases hn : negotiate c cap with
    | none => simp [hn] at h
    | some c1 =>
      simp only [hn] at h
      have hk := key c1 hn
      have hreset : ∀ (h : clientReset { c1 with state := none } cap src = .ok c' reset upd), c'.ver = cap := by
        intro h
        unfold clientReset at h
        rw [negotiate_idem c1 cap (by omega) none] at h
        simp only [serverReset] at h
        injection h with h1 _ _
        subst h1
        simp [adopt, Client.ver]; exact hk.1
      unfold serverSerial Src.diff at h
      by_cases hsess : sess ≠ src.session
      · rw [if_pos hsess] at h; exact ⟨hreset h, hk.2⟩
      · rw [if_neg hsess] at h
        cases hl : src.lookup ser with
        | none => simp only [hl, Option.map_none] at h; exact ⟨hreset h, hk.2⟩
        | some old =>
          simp only [hl, Option.map_some] at h
          injection h with h1 _ _
          subst h1
          exact ⟨by simp [adopt, Client.ver]; exact hk.1, hk.2⟩

/-! ## Histories: source updates interleaved with client steps -/

structure World where
  src : Src
  client : Client
  data : PSet

inductive Ev
  | update (keep : Bool) (new : PSet)
  | step

/-- one event; `none` = the client step did not finish (the antecedent of the property is false) -/
def evolve (cap : Nat) (w : World) : Ev → Option World
  | .update keep new => some { w with src := w.src.update keep new }
  | .step =>
    match clientStep w.client cap w.src with
    | .ok c' reset upd => some ⟨w.src, c', dataAfter w.data reset upd⟩
    | .fail => none

def runEvs (cap : Nat) : World → List Ev → Option World
  | w, [] => some w
  | w, e :: es => match evolve cap w e with | none => none | some w' => runEvs cap w' es

/-- every set the source holds is well formed -/
def SrcWF (s : Src) : Prop := WFSet s.cur ∧ (∀ e ∈ s.hist, WFSet e.2) ∧ s.serial < 4294967296

/-- the invariant along a history in which the source has published `k` updates so far:
a client that remembers a state of this session got it from one of the last `k+1` serials, and its
data is in sync with what the source still remembers about that serial -/
def Inv (k : Nat) (w : World) : Prop :=
  SrcWF w.src ∧
  (∀ sess ser, w.client.state = some (sess, ser) → sess = w.src.session →
    ∃ j, j ≤ k ∧ ser = (w.src.serial + 4294967296 - j) % 4294967296) ∧
  (∀ v, w.client.version = some v → Sync v w.client w.src w.data) ∧
  (w.client.version = none → w.client.state = none)

theorem lookup_update (s : Src) (keep : Bool) (new old : PSet) (ser : Nat)
    (hne : ser ≠ (s.serial + 1) % 4294967296)
    (h : (s.update keep new).lookup ser = some old) : s.lookup ser = some old := by
  unfold Src.lookup Src.update at h
  simp only at h
  rw [if_neg hne] at h
  unfold Src.lookup
  cases keep with
  | false => simp at h
  | true =>
    simp only [if_true, List.find?_cons] at h
    by_cases h2 : ser = s.serial
    · rw [if_pos h2]
      have : decide (s.serial = ser) = true := by simp [h2]
      simp only [this] at h
      simpa using h
    · rw [if_neg h2]
      have : decide (s.serial = ser) = false := by simp; exact fun e => h2 e.symm
      simp only [this] at h
      exact h

theorem inv_update (k : Nat) (w : World) (keep : Bool) (new : PSet) (hi : Inv k w) (hn : WFSet new)
    (hk : k + 1 < 4294967296) : Inv (k + 1) { w with src := w.src.update keep new } := by
  obtain ⟨⟨w1, w2, w3⟩, i2, i3, i4⟩ := hi
  refine ⟨⟨hn, ?_, by simp [Src.update]; omega⟩, ?_, ?_, i4⟩
  · intro e he
    simp only [Src.update] at he
    cases keep with
    | false => simp at he
    | true =>
      simp only [if_true, List.mem_cons] at he
      rcases he with rfl | he
      · exact w1
      · exact w2 e he
  · intro sess ser hst hse
    obtain ⟨j, hj, hser⟩ := i2 sess ser hst hse
    refine ⟨j + 1, by omega, ?_⟩
    simp only [Src.update]; omega
  · intro v hv sess ser old hst hse hlk
    obtain ⟨j, hj, hser⟩ := i2 sess ser hst hse
    have hne : ser ≠ (w.src.serial + 1) % 4294967296 := by omega
    exact i3 v hv sess ser old hst hse (lookup_update w.src keep new old ser hne hlk)

theorem inv_step (k cap : Nat) (w w' : World) (hi : Inv k w) (h : evolve cap w .step = some w') :
    Inv k w' ∧ SetEq w'.data (restrict w'.client.ver w'.src.cur) ∧
    w'.client.state = some (w'.src.session, w'.src.serial) ∧
    (1 ≤ w'.client.ver → w'.client.refresh = w'.src.refresh) ∧ w'.client.ver ≤ cap := by
  unfold evolve at h
  cases hs : clientStep w.client cap w.src with
  | fail => simp [hs] at h
  | ok c' reset upd =>
    simp only [hs] at h
    injection h with h; subst h
    obtain ⟨⟨w1, w2, w3⟩, i2, i3, i4⟩ := hi
    -- the version after the step is the version the client already had, if it had one
    have hver : ∀ v, w.client.version = some v → c'.ver = v := by
      intro v hv
      have aux : ∀ c1, negotiate w.client cap = some c1 → c1.ver = v := by
        intro c1 hn
        rcases (negotiate_spec _ _ _ hn).2.2.2 with e | ⟨e, _⟩
        · subst e; simp [Client.ver, hv]
        · rw [hv] at e; cases e
      unfold clientStep at hs
      cases hst : w.client.state with
      | none =>
        rw [hst] at hs
        unfold clientReset at hs
        cases hn : negotiate w.client cap with
        | none => simp [hn] at hs
        | some c1 =>
          simp only [hn, serverReset] at hs
          injection hs with h1 _ _; subst h1
          simp [adopt, Client.ver]; exact aux c1 hn
      | some p =>
        obtain ⟨sess, ser⟩ := p
        rw [hst] at hs
        simp only at hs
        cases hn : negotiate w.client cap with
        | none => simp [hn] at hs
        | some c1 =>
          simp only [hn] at hs
          have ha := aux c1 hn
          have hreset : clientReset { c1 with state := none } cap w.src = .ok c' reset upd → c'.ver = v := by
            intro h
            unfold clientReset at h
            rw [negotiate_idem c1 cap (negotiate_spec _ _ _ hn).1 none] at h
            simp only [serverReset] at h
            injection h with h1 _ _; subst h1
            simp [adopt, Client.ver]; exact ha
          unfold serverSerial Src.diff at hs
          by_cases hsess : sess ≠ w.src.session
          · rw [if_pos hsess] at hs; exact hreset hs
          · rw [if_neg hsess] at hs
            cases hl : w.src.lookup ser with
            | none => simp only [hl, Option.map_none] at hs; exact hreset hs
            | some old =>
              simp only [hl, Option.map_some] at hs
              injection hs with h1 _ _; subst h1
              simp [adopt, Client.ver]; exact ha
    have hsync : Sync c'.ver w.client w.src w.data := by
      cases hv : w.client.version with
      | none =>
        intro sess ser old hst
        rw [i4 hv] at hst; cases hst
      | some v => rw [hver v hv]; exact i3 v hv
    have ⟨s1, s2, s3, s4⟩ := step_sync w.client cap w.src c' reset upd w.data w1 hs hsync
    have hcv : c'.version = some c'.ver := by
      -- `adopt` always records the version
      unfold clientStep at hs
      have adopt_ver : ∀ c1 v a b r, (adopt c1 v a b r).version = some (adopt c1 v a b r).ver := by
        intro c1 v a b r; simp [adopt, Client.ver]
      cases hst : w.client.state with
      | none =>
        rw [hst] at hs
        unfold clientReset at hs
        cases hn : negotiate w.client cap with
        | none => simp [hn] at hs
        | some c1 =>
          simp only [hn, serverReset] at hs
          injection hs with h1 _ _; subst h1; exact adopt_ver ..
      | some p =>
        obtain ⟨sess, ser⟩ := p
        rw [hst] at hs
        simp only at hs
        cases hn : negotiate w.client cap with
        | none => simp [hn] at hs
        | some c1 =>
          simp only [hn] at hs
          have hreset : clientReset { c1 with state := none } cap w.src = .ok c' reset upd → c'.version = some c'.ver := by
            intro h
            unfold clientReset at h
            rw [negotiate_idem c1 cap (negotiate_spec _ _ _ hn).1 none] at h
            simp only [serverReset] at h
            injection h with h1 _ _; subst h1; exact adopt_ver ..
          unfold serverSerial Src.diff at hs
          by_cases hsess : sess ≠ w.src.session
          · rw [if_pos hsess] at hs; exact hreset hs
          · rw [if_neg hsess] at hs
            cases hl : w.src.lookup ser with
            | none => simp only [hl, Option.map_none] at hs; exact hreset hs
            | some old =>
              simp only [hl, Option.map_some] at hs
              injection hs with h1 _ _; subst h1; exact adopt_ver ..
    refine ⟨⟨⟨w1, w2, w3⟩, ?_, ?_, ?_⟩, s1, s2, s3, s4⟩
    · intro sess ser hst _
      rw [s2] at hst; injection hst with hst; injection hst with _ e2
      exact ⟨0, Nat.zero_le _, by subst e2; simp; omega⟩
    · intro v hv sess ser old hst hse hlk
      rw [hcv] at hv; injection hv with hv; subst hv
      rw [s2] at hst; injection hst with hst; injection hst with e1 e2
      subst e2
      have : w.src.lookup w.src.serial = some w.src.cur := by unfold Src.lookup; simp
      rw [this] at hlk; injection hlk with hlk; subst hlk
      exact ⟨w1, s1⟩
    · intro hv; rw [hcv] at hv; cases hv

/-- the number of source updates in a history -/
def updates : List Ev → Nat
  | [] => 0
  | .update .. :: es => updates es + 1
  | .step :: es => updates es

def AllWF : List Ev → Prop
  | [] => True
  | .update _ new :: es => WFSet new ∧ AllWF es
  | .step :: es => AllWF es

theorem inv_run (cap : Nat) : ∀ (evs : List Ev) (k : Nat) (w w' : World), Inv k w → AllWF evs →
    k + updates evs < 4294967296 → runEvs cap w evs = some w' → Inv (k + updates evs) w' := by
  intro evs
  induction evs with
  | nil => intro k w w' hi _ _ h; simp [runEvs] at h; subst h; simpa [updates] using hi
  | cons e es ih =>
    intro k w w' hi hwf hk h
    rw [runEvs] at h
    cases e with
    | update keep new =>
      simp only [evolve] at h
      have := ih (k + 1) _ w' (inv_update k w keep new hi hwf.1 (by simp [updates] at hk; omega)) hwf.2
        (by simp [updates] at hk ⊢; omega) h
      simpa [updates, Nat.add_assoc, Nat.add_comm 1] using this
    | step =>
      cases hs : evolve cap w .step with
      | none => simp [hs] at h
      | some wm =>
        simp only [hs] at h
        have := ih k wm w' (inv_step k cap w wm hi hs).1 hwf (by simpa [updates] using hk) h
        simpa [updates] using this

/-- **Histories (partial: one session, in-sync or empty initial client).** Along any interleaving of
source updates (diffs retained or not, fewer than 2^32 of them) and client steps, every finished
step leaves the client with exactly the source's current data restricted to the negotiated version,
the source's state and — from version 1 on — the source's timing. Session changes and arbitrary
foreign initial states are covered by `step_sync` (they end in a cache reset), not by this
induction. -/
theorem history_sync_partial (cap : Nat) (evs : List Ev) (k : Nat) (w wm w' : World) (hi : Inv k w)
    (hwf : AllWF evs) (hk : k + updates evs < 4294967296)
    (h1 : runEvs cap w evs = some wm) (h2 : evolve cap wm .step = some w') :
    SetEq w'.data (restrict w'.client.ver w'.src.cur) ∧
    w'.client.state = some (w'.src.session, w'.src.serial) ∧
    (1 ≤ w'.client.ver → w'.client.refresh = w'.src.refresh) ∧ w'.client.ver ≤ cap :=
  (inv_step _ cap wm w' (inv_run cap evs k w wm hi hwf hk h1) h2).2

/-! ## Non-vacuity -/

def exSrc : Src := ⟨7, 4294967295, [.origin 0, .key 0, .aspa 0 1], [], 1800⟩
def exClient : Client := ⟨none, none, 2, 3600⟩
example : Inv 0 ⟨exSrc, exClient, []⟩ := by
  refine ⟨⟨?_, by simp [exSrc], by decide⟩, by simp [exClient], by simp [exClient], fun _ => rfl⟩
  intro a ha b hb h
  simp [exSrc] at ha hb
  rcases ha with rfl | rfl | rfl <;> rcases hb with rfl | rfl | rfl <;> simp_all [Item.sameKey]
example : clientStep exClient 1 exSrc =
    .ok ⟨some (7, 4294967295), some 1, 2, 1800⟩ true [(.announce, .origin 0), (.announce, .key 0)] := by decide
example : (exSrc.update true [.origin 1, .aspa 0 2]).serial = 0 := by decide

end Rpki.C06
