/-
C12 — URIs: parsed form is faithful, equality/hash agree, path algebra is consistent.
Only property theorems and non-vacuity examples; lemmas are in Rpki/Proofs/Uri*.lean.
-/
import Rpki.Proofs.UriRsync7
import Rpki.Proofs.UriHttps2
import Rpki.Proofs.UriHttps
import Rpki.Proofs.UriCanon
namespace Rpki.C12
open Rpki.Uri Rpki.Consts

/-! ## rsync -/

/-- An accepted URI keeps its text unchanged and satisfies the representation invariant; conversely
re-parsing the text of any value satisfying the invariant gives back exactly that value. -/
theorem rsync_parse_iff (b : Bytes) (u : Rsync) :
    Rsync.fromBytes b = .ok u ↔ u.bytes = b ∧ u.Inv := Rsync.fromBytes_ok_iff b u

/-- scheme / authority / module / path accessors recompose to the text. -/
theorem rsync_recompose (b : Bytes) (u : Rsync) (h : Rsync.fromBytes b = .ok u) :
    b = b.take 8 ++ (u.authority ++ slash :: (u.moduleName ++ slash :: u.path)) ∧
    eqIgnoreCase (b.take 8) rsyncScheme = true := by
  have ⟨e, hi⟩ := (Rsync.fromBytes_ok_iff b u).1 h
  refine ⟨by have := Rsync.recompose_of_inv hi; rw [e] at this; exact this, ?_⟩
  have hs := hi.2.1
  rw [e] at hs
  unfold startsWithIgnoreCase at hs
  by_cases hl : b.length < rsyncScheme.length
  · simp [hl] at hs
  · simp [hl, rsyncScheme] at hs; exact hs.2

/-- only permitted characters; authority and module are non-empty, slash-free, not dot segments;
the path has no empty segment except a final one and no dot segments. -/
theorem rsync_chars_segments (b : Bytes) (u : Rsync) (h : Rsync.fromBytes b = .ok u) :
    (∀ c ∈ b, isUriAscii c = true) ∧ goodSeg u.authority ∧ goodSeg u.moduleName ∧
    slash ∉ u.authority ∧ slash ∉ u.moduleName ∧
    (∀ s ∈ (split u.path).dropLast, goodSeg s) ∧
    (∀ s, (split u.path).getLast? = some s → s = [] ∨ goodSeg s) := by
  have ⟨e, hi⟩ := (Rsync.fromBytes_ok_iff b u).1 h
  obtain ⟨auth, md, path, _, ha, hm, hp, ga, gm, na, nm, _, _, hpp, _⟩ := hi.parts
  have hc := hi.1
  rw [e] at hc
  unfold checkUriAscii at hc
  rw [List.all_eq_true] at hc
  rw [ha, hm, hp]
  have := (checkItems_ok_iff _ (split_ne_nil path)).1 hpp
  exact ⟨hc, ga, gm, na, nm, this.1, this.2⟩

/-- equality is an equivalence on valid URIs … -/
theorem rsync_eq_refl (u : Rsync) (hu : u.Inv) : u.eq u = true := Rsync.eq_refl' u hu
theorem rsync_eq_symm (u o : Rsync) (hu : u.Inv) (ho : o.Inv) (h : u.eq o = true) : o.eq u = true :=
  Rsync.eq_symm' u o hu ho h
theorem rsync_eq_trans (u o w : Rsync) (hu : u.Inv) (ho : o.Inv) (hw : w.Inv)
    (h1 : u.eq o = true) (h2 : o.eq w = true) : u.eq w = true := Rsync.eq_trans' u o w hu ho hw h1 h2

/-- … compares scheme and authority ignoring case and the rest exactly … -/
theorem rsync_eq_iff (u o : Rsync) (hu : u.Inv) (ho : o.Inv) :
    u.eq o = true ↔ u.moduleStart = o.moduleStart ∧
      (u.bytes.take u.moduleStart).map toLower = (o.bytes.take o.moduleStart).map toLower ∧
      u.bytes.drop u.moduleStart = o.bytes.drop o.moduleStart := Rsync.eq_iff' u o hu ho

/-- … and equal URIs feed the same bytes to the hasher. -/
theorem rsync_hash_of_eq (u o : Rsync) (hu : u.Inv) (ho : o.Inv) (h : u.eq o = true) :
    u.hashKey = o.hashKey := Rsync.hash_of_eq' u o hu ho h

/-- The result of `join` is a valid URI that re-parses to exactly the same value
(same text, same authority/module offsets). -/
theorem rsync_join_reparse (u v : Rsync) (p : Bytes) (hu : u.Inv) (hj : u.join p = .ok v) :
    Rsync.fromBytes v.bytes = .ok v ∧ v.moduleStart = u.moduleStart ∧ v.pathStart = u.pathStart := by
  refine ⟨Rsync.fromBytes_of_inv v (Rsync.join_inv u p v hu hj), ?_, ?_⟩ <;>
  · unfold Rsync.join at hj
    by_cases hp : p = []
    · simp [hp] at hj; rw [← hj]
    · simp only [hp, if_false] at hj
      split at hj
      · cases hj
      · split at hj
        · cases hj
        · injection hj with hj; rw [← hj]

/-- The result of `parent` is a valid URI that re-parses to exactly the same value. -/
theorem rsync_parent_reparse (u v : Rsync) (hu : u.Inv) (hp : u.parent = some v) :
    Rsync.fromBytes v.bytes = .ok v :=
  Rsync.fromBytes_of_inv v (Rsync.parent_inv u v hu hp)

/-- Whenever `relative_to` reports a non-empty path, joining that path to the other URI gives back
the original (up to URI equality). -/
theorem rsync_relativeTo_join (u o : Rsync) (hu : u.Inv) (ho : o.Inv) (p : Bytes)
    (h : u.relativeTo o = some p) (hp : p ≠ []) : ∃ v, o.join p = .ok v ∧ v.eq u = true :=
  Rsync.relativeTo_join' u o hu ho p h hp

/-! ## https -/

theorem https_parse_iff (b : Bytes) (u : Https) :
    Https.fromBytes b = .ok u ↔ u.uri = b ∧ u.Inv := Https.fromBytes_ok_iff b u

theorem https_recompose (b : Bytes) (u : Https) (h : Https.fromBytes b = .ok u) :
    b = b.take 8 ++ (u.authority ++ u.path) := by
  have ⟨e, hi⟩ := (Https.fromBytes_ok_iff b u).1 h
  have := Https.recompose_of_inv hi; rw [e] at this; exact this

theorem https_eq_refl (u : Https) : u.eq u = true := Https.eq_refl' u
theorem https_eq_symm (u o : Https) (h : u.eq o = true) : o.eq u = true := Https.eq_symm' u o h
theorem https_eq_trans (u o w : Https) (h1 : u.eq o = true) (h2 : o.eq w = true) : u.eq w = true :=
  Https.eq_trans' u o w h1 h2
theorem https_hash_of_eq (u o : Https) (h : u.eq o = true) : u.hashKey = o.hashKey :=
  Https.hash_of_eq' u o h

/-- `join` yields a valid URI that re-parses to exactly the same value (hence with the same authority). -/
theorem https_join_reparse (u v : Https) (p : Bytes) (hu : u.Inv) (hj : u.join p = .ok v) :
    Https.fromBytes v.uri = .ok v ∧ v.pathIdx = u.pathIdx := by
  refine ⟨(Https.fromBytes_ok_iff _ _).2 ⟨rfl, Https.join_inv u v p hu hj⟩, ?_⟩
  unfold Https.join at hj
  split at hj
  · cases hj
  · injection hj with hj; rw [← hj]

/-! ## Non-vacuity: concrete URIs satisfy the hypotheses -/

/-! ## parent-of, relative_to and join laws -/

/-- `relative_to` reports the empty path exactly for URIs of the same module whose paths are equal
up to one trailing slash. -/
theorem rsync_relativeTo_empty_iff (u o : Rsync) (hu : u.Inv) (ho : o.Inv) :
    u.relativeTo o = some [] ↔ u.eqModule o = true ∧ stripSlash u.path = stripSlash o.path :=
  Rsync.relativeTo_empty_iff u o hu ho

/-- The parent-of relation is irreflexive … -/
theorem rsync_isParentOf_irrefl (u : Rsync) : u.isParentOf u = false := Rsync.isParentOf_irrefl u

/-- … transitive … -/
theorem rsync_isParentOf_trans (u o w : Rsync) (h1 : u.isParentOf o = true) (h2 : o.isParentOf w = true) :
    u.isParentOf w = true := Rsync.isParentOf_trans u o w h1 h2

/-- … and agrees with URI equality on both sides. -/
theorem rsync_isParentOf_congr (u u' o o' : Rsync) (hu : u.Inv) (hu' : u'.Inv) (ho : o.Inv) (ho' : o'.Inv)
    (h1 : u.eq u' = true) (h2 : o.eq o' = true) : u.isParentOf o = u'.isParentOf o' :=
  Rsync.isParentOf_congr u u' o o' hu hu' ho ho' h1 h2

/-- `join(base, p)` lies beneath `base`: relative to the base it is exactly `p`, and for a
non-empty `p` the base is a parent of the result. -/
theorem rsync_join_beneath (u v : Rsync) (p : Bytes) (hu : u.Inv) (hj : u.join p = .ok v) :
    v.relativeTo u = some p ∧ (p ≠ [] → u.isParentOf v = true) := Rsync.join_beneath u v p hu hj

/-- A parent is a parent of its child. -/
theorem rsync_parent_isParentOf (u v : Rsync) (hu : u.Inv) (hp : u.parent = some v) :
    v.isParentOf u = true := Rsync.parent_isParentOf u v hu hp

/-- **`path_into_dir`** yields a valid URI that re-parses to an equal value with the same authority; its path is a
directory path; doing it twice changes nothing; and it only ever appends one slash. -/
theorem https_pathIntoDir (u : Https) (hu : u.Inv) :
    Https.fromBytes (u.pathIntoDir).uri = .ok u.pathIntoDir ∧ (u.pathIntoDir).pathIdx = u.pathIdx ∧
    (u.pathIntoDir).pathIntoDir = u.pathIntoDir ∧
    ((u.pathIntoDir).uri = u.uri ∨ (u.pathIntoDir).uri = u.uri ++ [slash]) := by
  by_cases hd : u.pathIsDir = true
  · have e : u.pathIntoDir = u := by unfold Https.pathIntoDir; simp [hd]
    rw [e]
    exact ⟨(Https.fromBytes_ok_iff _ _).2 ⟨rfl, hu⟩, rfl, e, Or.inl rfl⟩
  · have hd' : u.pathIsDir = false := by simpa using hd
    have e : u.pathIntoDir = { u with uri := u.uri ++ [slash] } := by unfold Https.pathIntoDir; simp [hd']
    -- the same value as joining the empty path onto a non-directory path
    unfold Https.pathIsDir at hd'
    rw [Bool.or_eq_false_iff] at hd'
    have hne : u.path ≠ [] := by intro h; rw [h] at hd'; simp at hd'
    have hj : u.join [] = .ok { u with uri := u.uri ++ [slash] } := by
      unfold Https.join
      have hc : checkUriAscii ([] : Bytes) = true := rfl
      simp only [hc, Bool.not_true, Bool.false_eq_true, if_false, hd'.2, Bool.not_false, if_true, List.append_nil,
        Bool.and_true, ne_eq, hne, not_false_eq_true, decide_true, ite_self]
    have hr := https_join_reparse u _ [] hu hj
    rw [e]
    refine ⟨hr.1, hr.2, ?_, Or.inr rfl⟩
    -- a second application finds a path that ends in a slash
    unfold Https.pathIntoDir Https.pathIsDir Https.path
    have : endsWithSlash ((u.uri ++ [slash]).drop u.pathIdx) = true := by
      have hle : u.pathIdx ≤ u.uri.length := by
        have := hu.2.2; rw [this]; exact (findSlashFrom_le _ _ (Https.Inv.length_ge hu)).2
      rw [List.drop_append_of_le_length hle]
      unfold endsWithSlash
      simp
    simp [this]


/-- The parent of an HTTPS URI is a valid URI that re-parses to the same value, with the same
authority. -/
theorem https_parent_reparse (u v : Https) (h : u.Inv) (hp : u.parent = some v) :
    Https.fromBytes v.uri = .ok v ∧ v.pathIdx = u.pathIdx := Https.parent_reparse u v h hp


def ex1 : Bytes := [114, 115, 121, 110, 99, 58, 47, 47, 104, 47, 109, 47, 97, 47, 98]   -- "rsync://h/m/a/b"
def ex2 : Bytes := [104, 116, 116, 112, 115, 58, 47, 47, 101, 120, 97, 109, 112, 108, 101, 46, 99, 111, 109]   -- "https://example.com"

example : (Rsync.fromBytes ex1).toOption = some ⟨ex1, 10, 12⟩ := by decide
example : (Rsync.mk ex1 10 12).parent = some ⟨ex1.take 14, 10, 12⟩ := by decide
example : ((Rsync.mk ex1 10 12).join [120]).toOption = some ⟨ex1 ++ [47, 120], 10, 12⟩ := by decide
example : (Https.fromBytes ex2).toOption = some ⟨ex2, 19⟩ := by decide
example : ((Https.mk ex2 19).join [102]).toOption = some ⟨ex2 ++ [47, 102], 19⟩ := by decide
example : (Rsync.mk (ex1 ++ [47, 120]) 10 12).relativeTo ⟨ex1, 10, 12⟩ = some [120] := by decide

/-! ## the canonical module (`Rsync::canonical_module`) -/

/-- The canonical module of an accepted URI is itself an accepted URI with an empty path in the same
module; it is the module text with the authority in lower case (scheme as written, module name
exactly as written). -/
theorem canonical_module_is_the_module (b : Bytes) (u : Rsync) (h : Rsync.fromBytes b = .ok u) :
    (∃ v, Rsync.fromBytes u.canonicalModule = .ok v ∧ v.path = [] ∧ v.eqModule u = true) ∧
    u.canonicalModule.drop (8 + u.authority.length) = slash :: (u.moduleName ++ [slash]) ∧
    slice u.canonicalModule 8 (8 + u.authority.length) = u.authority.map toLower :=
  ⟨Rsync.canonicalModule_accepted b u h, (Rsync.canonicalModule_shape b u h).2.2.1, (Rsync.canonicalModule_shape b u h).2.2.2.1⟩

/-- URIs with the same canonical module are in the same module. The converse holds for URIs written
with the lower-case scheme and is false otherwise (`RSYNC://h/m/` and `rsync://h/m/` are in the same
module but keep their schemes as written). -/
theorem canonical_module_identifies_modules (b b' : Bytes) (u o : Rsync) (h : Rsync.fromBytes b = .ok u)
    (h' : Rsync.fromBytes b' = .ok o) :
    (u.canonicalModule = o.canonicalModule → u.eqModule o = true) ∧
    (u.bytes.take 8 = rsyncScheme → o.bytes.take 8 = rsyncScheme → u.eqModule o = true →
      u.canonicalModule = o.canonicalModule) :=
  ⟨Rsync.canonicalModule_sound b b' u o h h', fun hu ho he => Rsync.canonicalModule_complete_partial b b' u o h h' hu ho he⟩

theorem canonical_module_keeps_scheme_case :
    ∃ u o, Rsync.fromBytes exUpperScheme = .ok u ∧ Rsync.fromBytes exLowerScheme = .ok o ∧
      u.eqModule o = true ∧ u.canonicalModule ≠ o.canonicalModule := Rsync.canonicalModule_scheme_counterexample


end Rpki.C12
