-- This module serves as the root of the `Rpki` library.
-- Import modules here that should be built as part of the library.
import Rpki.Basic
