#!/usr/bin/env python3
"""write_meta.py <seed-dir> <change> <needs>: compose meta.json from result.json/confirm.json."""
import json, os, sys
d, change, needs = sys.argv[1], sys.argv[2], sys.argv[3]
seed = os.path.basename(d.rstrip('/'))
prop = seed.split('-')[0]
res = json.load(open(os.path.join(d, 'result.json')))
conf = json.load(open(os.path.join(d, 'confirm.json')))
why = res.get('why', [])
meta = {
    'seed': seed, 'property': prop, 'change': change, 'needs_to_manifest': needs,
    'author': 'independent sub-agent given only the property text and a scratch worktree',
    'ran': [
        f'git -C /repo apply seeded/{seed}/patch.diff; ./check {prop} quick; git -C /repo checkout -- .  (tools/try_seed.py)',
        'tools/confirm_seed.py: builds with all features, pinned 35 tests pass, demo.rs fails with / passes without the patch',
    ],
    'confirmed': bool(conf.get('confirmed')),
    'detected': res.get('exit') == 1 and bool(res.get('violation_line')),
    'how': why,
    'with_failing_input': bool(why) and not any('no-failing-input-found' in l for l in res.get('violation_line', [])),
}
json.dump(meta, open(os.path.join(d, 'meta.json'), 'w'), indent=1)
print(seed, meta['detected'], meta['with_failing_input'], meta['confirmed'])
