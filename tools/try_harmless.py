#!/usr/bin/env python3
"""Apply a behaviour-preserving rewrite to /repo, run the quick checks of the properties anchored in the files it
touches, undo the change.  A check that does not stay quiet here is a false alarm (or the rewrite is not harmless:
then the replay shows the behavioural difference).
usage: try_harmless.py <dir>...   (dir holds patch.diff, desc.txt; writes result.json)"""
import json, os, re, subprocess, sys, time
VERIF = os.path.dirname(os.path.dirname(os.path.abspath(__file__)))
AREAS = [
    ('src/repository/resources/', ['C03', 'C01']), ('src/resources/addr.rs', ['C13', 'C15']), ('src/resources/asn.rs', ['C13']),
    ('src/slurm.rs', ['C15']), ('src/rtr/pdu.rs', ['C07', 'C08', 'C06']), ('src/rtr/server.rs', ['C08', 'C06']),
    ('src/rtr/client.rs', ['C06']), ('src/rtr/state.rs', ['C16', 'C06']), ('src/rtr/payload.rs', ['C13', 'C07']),
    ('src/uri.rs', ['C12', 'C14']), ('src/repository/cert.rs', ['C01', 'C04', 'C05']), ('src/repository/sigobj.rs', ['C02', 'C04', 'C05']),
    ('src/repository/crl.rs', ['C04', 'C05', 'C01']), ('src/repository/x509.rs', ['C17', 'C04', 'C05']),
    ('src/repository/manifest.rs', ['C14', 'C04', 'C05']), ('src/repository/roa.rs', ['C02', 'C04', 'C05']),
    ('src/repository/aspa.rs', ['C02', 'C04', 'C05']), ('src/repository/oid.rs', ['C04', 'C02', 'C10']), ('src/oid.rs', ['C04', 'C02', 'C10']),
    ('src/crypto/', ['C04', 'C01', 'C05']), ('src/rrdp.rs', ['C09']), ('src/xml/', ['C09', 'C11']),
    ('src/ca/publication.rs', ['C11']), ('src/ca/provisioning.rs', ['C11']), ('src/ca/idexchange.rs', ['C11']),
    ('src/ca/csr.rs', ['C04', 'C05']), ('src/ca/idcert.rs', ['C10', 'C04', 'C05']), ('src/ca/sigmsg.rs', ['C10', 'C04', 'C05']),
    ('src/repository/tal.rs', ['C04']), ('src/repository/rta.rs', ['C04', 'C05']),
]
for d in sys.argv[1:]:
    d = d.rstrip('/')
    patch = os.path.abspath(os.path.join(d, 'patch.diff'))
    files = re.findall(r'^\+\+\+ b/(\S+)', open(patch).read(), re.M)
    pids = []
    for f in files:
        for pre, ps in AREAS:
            if f.startswith(pre):
                pids += [p for p in ps if p not in pids]
    assert subprocess.run(['git', '-C', '/repo', 'status', '--porcelain', '--untracked-files=no'], capture_output=True, text=True).stdout.strip() == '', 'repo dirty'
    r = subprocess.run(['git', '-C', '/repo', 'apply', patch], capture_output=True, text=True)
    if r.returncode != 0:
        print(f'{d}: patch does not apply: {r.stderr.strip()[:200]}'); continue
    res = {'rewrite': os.path.basename(d), 'files': files, 'checks': {}}
    try:
        for pid in pids:
            t0 = time.time()
            p = subprocess.run([os.path.join(VERIF, 'check'), pid, 'quick'], cwd=VERIF, capture_output=True, text=True, timeout=3600)
            viol = [l for l in p.stdout.split('\n') if l.startswith('VIOLATION')]
            res['checks'][pid] = {'exit': p.returncode, 'violation_line': viol[:1], 'wall_s': round(time.time() - t0, 1)}
            if p.returncode != 0:
                res['checks'][pid]['tail'] = p.stdout[-1500:]
    finally:
        subprocess.run(['git', '-C', '/repo', 'checkout', '--', '.'])
    res['quiet'] = all(c['exit'] == 0 and not c['violation_line'] for c in res['checks'].values())
    print(json.dumps({k: v for k, v in res.items()}), flush=True)
    json.dump(res, open(os.path.join(d, 'result.json'), 'w'), indent=1)
