"""Per-property configuration of ./check (levels, budgets, shard counts, text for the evidence)."""

PROPS = {
    'C16': {
        'level': 'proof',
        'technique': 'Lean 4 theorems (omega over Nat mod 2^32) on a hand model + exhaustive differential sweep against the real Serial',
        'claim': 'Lean 4 proof for all pairs of 32-bit serials and all increments that the model of partial_cmp/add/to_be follows the '
                 'RFC 1982 table, is antisymmetric, strictly increases under add 1..2^31-1 across the wrap and is lossless big-endian on '
                 'the wire; the comparison constants are regenerated from src/rtr/state.rs on every run and the model is tied to the real '
                 'code by a differential sweep (thorough: all 2^32 differences from 8 bases).',
        'note': 'Trusted: Lean kernel (axioms propext/Classical.choice/Quot.sound only), the regex constant extractor, the correspondence '
                'harness; u32 machine arithmetic modelled as Nat mod 2^32.',
        'shards': {'quick': 1, 'thorough': 8},
        'budget': {'quick': 300, 'thorough': 3600},
        'exhaustive': {'quick': False, 'thorough': True},
        'rule': 'quick: every difference in {0..2^10} u {2^31-2^10..2^31+2^10} u {2^32-2^10..2^32-1} from 8 bases '
                '(both ends, both sides of 2^31, one seed-derived) for cmp and add, wire/unwire, 10^5 random pairs biased to '
                'distance 0/1/2^31; a 2^16-difference sweep per base. thorough: the full 2^32-difference sweep from each base, '
                'compared as run-length encodings.',
        'trusted_base': ['u32 arithmetic of rustc/std (wrapping_add, to_be) is modelled as Nat arithmetic mod 2^32'],
        'assumptions': ['Serial values are modelled as naturals below 2^32'],
    },
}

PROPS['C13'] = {
    'level': 'proof',
    'technique': 'Lean 4 theorems on an arithmetic model of Prefix/MaxLenPrefix/RouteOrigin/SmallAsnSet (order = compare of one Nat key; '
                 'set ops by induction) and on an octet-level model of their text forms + differential check against the real types '
                 'on a boundary-dense domain and on written, hand-made and mutated texts',
    'claim': 'Lean 4 proofs, for all well-formed prefixes (every address and length), that strict construction accepts exactly in-family '
             'lengths with zero host bits, relaxed construction clears the host bits, max-length rules hold, covers is range inclusion, '
             'the order equals comparison of a single natural-number key (hence total, antisymmetric, transitive, consistent with ==, '
             'more-specific first), route origins compare lexicographically with consistent ==/hash input, and SmallAsnSet construction '
             'and its four merge iterators equal the mathematical set operations for all lists. The whole FamilyAndLen table is decided by '
             'the kernel. Text forms (session 12): Display and FromStr of Prefix (strict and relaxed), MaxLenPrefix and Asn are modelled on octets '
             '(Model/PfxText.lean over the address text model of C03) and every value a constructor makes is read back from its own text '
             '(prefix_text_roundtrip, prefix_text_injective, maxlen_text_roundtrip, asn_text_roundtrip); conversely every prefix the strict or the '
             'relaxed text reader accepts is well-formed and stable under write-and-read (parsed_prefix_is_constructed, parsed_prefix_wf, over '
             'parseV4 < 2^32 and parseV6 < 2^128).',
    'note': 'Bit operations (mask, trailing_zeros, shifts) are rendered as Nat div/mod by powers of two; that rendering, Vec::sort/dedup '
            '(modelled as insertion sort + adjacent dedup) are validated by the differential run only; std IpAddr Display/FromStr and u8::from_str are '
            'modelled from their documentation (Model/ResText.lean) and compared with the library on every written and every mutated text (ops pfmt, ptext: '
            'the four parsers with their error kinds). '
            'Constants of FamilyAndLen and the presence of dedup() are regenerated from the source on every run.',
    'shards': {'quick': 4, 'thorough': 16},
    'budget': {'quick': 600, 'thorough': 7200},
    'rule': 'constructors over (boundary address domain: single run boundary at every bit position +-1) x lengths 0..255; covers/cmp on '
            'pairs from a pool biased to nested/adjacent prefixes (thorough: all pairs of a ~480-prefix pool); transitivity triples on the '
            'implementation; max-len 0..255/absent; origins; all AS sequences of length <=4 (thorough 5) over a 6-value domain incl. 0 and '
            'u32::MAX with duplicates; all 64x64 subset pairs x 4 set operations; random larger sets; text: Display of every pool prefix / max-length '
            'prefix / AS number byte for byte against the model, ~100 hand-made texts (signs, leading zeros, lengths around the family maximum, '
            'IPv4-mapped and compressed IPv6 forms, non-ASCII) and mutants of all written texts through Prefix::from_str, from_str_relaxed, '
            'MaxLenPrefix::from_str and Asn::from_str.',
    'trusted_base': ['u128/u8 bit operations rendered in Nat arithmetic (validated by the differential run, not proved)'],
    'assumptions': ['std::net address text formatting/parsing and u8::from_str are modelled from their documentation and compared on every case, not verified'],
}

PROPS['C12'] = {
    'level': 'proof',
    'technique': 'Lean 4 theorems on a byte-list model of uri.rs (representation invariant, re-parse identity for join/parent, '
                 'equality laws, relative_to/join inverse) + exhaustive small-alphabet differential check against the real parser',
    'claim': 'Lean 4 proofs for all byte strings and all valid URIs: from_bytes accepts exactly the values satisfying an explicit '
             'representation invariant and keeps the text; accessors recompose; characters/segments are legal; == is an equivalence '
             'that hashes consistently; join and parent results re-parse to the identical value (same authority offsets); a non-empty '
             'relative_to path joins back to the original. HTTPS: parse/recompose/equivalence/hash/join/parent. relative_to = some [] iff same module and paths equal up to one '
             'trailing slash; parent-of is irreflexive, transitive and congruent for ==; join(base,p) is exactly p relative to base and '
             'beneath it; a parent is a parent of its child. All laws of the statement are theorems on the model.',
    'note': 'Model is hand-written (List Nat bytes); tie = differential run over every rsync:// and https:// string over {a,A,/,.,%,space} '
            'up to length 6 (thorough 7), all pairs/joins/triples of accepted ones, random long URIs. The character class, the '
            'eq_module shape and the Https::join slash condition are regenerated from src/uri.rs on every run. serde wrappers not modelled.',
    'shards': {'quick': 4, 'thorough': 16},
    'budget': {'quick': 600, 'thorough': 7200},
    'rule': 'exhaustive strings over a 6-letter alphabet after the scheme (len<=6 quick, 7 thorough), 256-byte sweeps at 8 positions, '
            'all pairs of accepted URIs (len<=4/5) and of a 60-URI case/nesting family for ==/hash/relative_to/is_parent_of, joins with '
            'all arguments of length<=3 (4) over {a,A,/,.}, law triples on the implementation, random long URIs.',
    'trusted_base': ['bytes::Bytes slicing and eq_ignore_ascii_case modelled as list take/drop and map toLower'],
    'assumptions': ['Hash is modelled as the byte sequence fed to the hasher'],
}

PROPS['C17'] = {
    'level': 'proof',
    'technique': 'Lean 4 theorems on a model of Time::take_from/encode_varied, Validity and the 20-octet Serial bignum loops '
                 '(round trips, decode soundness, value/ordering laws) + calendar-exhaustive differential check against the real code',
    'claim': 'Lean 4 proofs: every valid civil second of years 0-9999 encodes (UTCTime iff 1950-2049, widths 13/15) and decodes back '
             'with both decoders; anything decoded is a real calendar time rendered in exactly the fixed-width all-digit Z form with the '
             'pivot at 50; verify_at is nb<=t<=na and trim is intersection; Serial::from_slice/from_str/encode_dec/DER content are exact '
             'in value for all 20-octet serials (decimal and minimal-DER round trips, numeric order). The instant of a civil time is modelled '
             '(Model/Instant.lean: seconds through the proleptic Gregorian calendar = Time::timestamp, compared on every day of the years '
             '1-9999) and calendar order is proved to be the order of instants (calendar_order_is_instant_order, validity_iff_calendar); '
             'Time::years_from_date is modelled and always names a real calendar time (years_from_date_spec; op yfd); Validity::from_secs / '
             'from_duration are checked against the wall clock by an oracle (fromsecs). '
             'Partial: calendar validity (= chrono\'s ymd_opt/and_hms_opt) is modelled by validCivil and validated by the every-day sweep.',
    'note': 'chrono calendar validity modelled by validCivil; u32::from_str modelled by rustU32; bcder Unsigned head check modelled by '
            'decodeSerialContent; all three are exercised differentially. Pivot, year window and the digit check are regenerated from '
            'src/repository/x509.rs on every run. Mathlib is used only for the tactics ring/linarith/norm_num in the serial lemmas.',
    'shards': {'quick': 4, 'thorough': 16},
    'budget': {'quick': 600, 'thorough': 7200},
    'rule': 'enc: every day (first/last days of each month) of 21 boundary years x3 times + 10^4 random; sweep: every day of 4 (thorough: '
            'all 40) 250-year ranges x3 times of day compared as counts; dec: all single and (bounded) double edits of 6 valid strings over '
            '{0-9,+,-,space,Z,z,:}, insert/delete, truncations, trailing data, field boundary table; validity: all triples over 12 boundary '
            'instants + random; serials: 10^k+-1, 2^i+-1, random of every length; slices of length 0..22; decimal strings incl. 2^159 boundaries.',
    'trusted_base': ['chrono date validity and ordering (assumed = proleptic Gregorian calendar); Mathlib tactics ring/linarith/norm_num (kernel-checked proofs)'],
    'assumptions': ['instants are compared as integers (chrono timestamps)'],
}

PROPS['C15'] = {
    'level': 'proof',
    'technique': 'Lean 4 theorems on a model of the SLURM filters, assertions, serde tree mapping and of the JSON text itself '
                 '(serde_json writer compact and pretty, serde_json reader; round trips by mutual induction over the nested tree) '
                 '+ differential check of the real SlurmFile over all filter shapes and ~40 000 texts, byte for byte',
    'claim': 'Lean 4 proofs for all filter lists and payload items that drop_payload holds exactly when a filter of the item\'s kind '
             'matches (and/or criteria table, prefix criterion = range inclusion via C13, no criteria = no match), that every assertion '
             'yields exactly its payload, that SlurmFile::new picks the version by ASPA presence, and that the serde tree of every '
             'well-formed file parses back to an equal file. JSON text (session 12): the compact text serde_json writes for a file is modelled on '
             'octets (Model/JsonText.lean: member order, numbers, string escapes, prefix Display of C13, unpadded URL-safe Base64) and compared '
             'byte for byte with SlurmFile::to_string; a reference reader of that language inverts it for every tree (json_text_tree_roundtrip, by '
             'mutual induction over the nested tree) and for every well-formed file the text is read back - tree, typed leaves through '
             'Prefix::from_str and the Base64 reader, field deserialisers - as the file (json_text_roundtrip, json_text_injective). The '
             'reader is modelled as well (Model/JsonRead.lean: white space, every escape of RFC 8259 with surrogate pairs, the number grammar, '
             'no trailing commas, nothing after the value, the 27-character rule for key identifiers, the URL-safe alphabet) and compared with '
             'SlurmFile::from_str on written (compact and pretty) and character-mutated texts; from_str_to_string: the reader model reads the '
             'writer model\'s text of every well-formed file back as the file; readers_agree_on_written_text; the pretty form (Model/JsonPretty.lean, byte for '
             'byte against to_string_pretty) is read back as well (from_str_to_string_pretty). The sequence form serde '
             'derives for the seven derived structs (a JSON array of the fields in declaration order, none left out) is modelled too (tree model and '
             'positional typing of the leaves) and generated. Partial: serde_json\'s recursion limit and the UTF-8 validity of the input are outside the model.',
    'note': 'The serde attribute semantics (default, skip_serializing_if, deny_unknown_fields - absent on BgpsecFilter -, null handling, '
            'duplicate fields, integer ranges) are mirrored by hand in Rpki/Model/Slurm.lean and validated differentially on valid and '
            'mutated files. Whether drop_payload consults all three lists, and ProviderAsns::MAX_COUNT, are regenerated from the source.',
    'shards': {'quick': 4, 'thorough': 16},
    'budget': {'quick': 600, 'thorough': 7200},
    'rule': 'drop: 10 payload items of all three kinds x (every single filter and every ordered pair of filters of each kind over all '
            'present/absent criteria combinations: 21 prefix, 9 bgpsec, 3 aspa shapes) + random mixed lists; json: random valid files '
            '(comments with quotes/control/non-ASCII) and 3 structure-aware mutations each (drop/duplicate/null/retype/unknown key/wrap); '
            'payloads and version choice per file; jtext: the text of every accepted file (valid and mutated trees, comments with every control '
            'character, quotes, backslashes, non-ASCII, U+2028) byte for byte against the model writer, and read back by the reference reader; '
            'every drop decision is also asked of the same filters in a version-1 file and in a file made by SlurmFile::new; jraw: ~250 hand-made texts '
            '(escapes, lone and paired surrogates, number forms, white space, trailing commas and material, deep nesting in ignored members) and three '
            'character-level mutants of the compact and of the pretty text of every generated file through from_str and from_reader; every generated file also '
            'with some of its structs in sequence form (and one element short or long); apiaspa: files built through the API with 0..16381 ASPA providers '
            'must come back from their own text.',
    'trusted_base': ['serde/serde_json derive semantics and serde_json\'s reader and writer mirrored by hand from RFC 8259 and the crate\'s behaviour (validated differentially on ~40 000 texts per run, not verified)'],
    'assumptions': ['for the tree comparison (json op) Base64 and IP prefix text are canonicalised by the harness; the jtext op compares octets'],
}

PROPS['C07'] = {
    'level': 'proof',
    'technique': 'Lean 4 theorems on a byte-level model of the RTR PDU readers/writers (round trip, truncation => eof, exact '
                 'consumption, skip_payload termination under any chunking) + differential check of every truncation/corruption',
    'claim': 'Lean 4 proofs for all field values and versions: every payload / End-of-Data PDU and every sequence of them reads back '
             'unchanged with the length field equal to the bytes written; Payload::new/to_payload return the same item and action '
             '(resolved max-len; withdrawn ASPA empty) with correct version gating; a stream ending anywhere inside a PDU gives eof; '
             'unknown type / wrong fixed length / bad EoD version give invalid right after the header; whatever is accepted consumed '
             'exactly the announced length; Error::skip_payload terminates under every read chunking with ok/eof/invalid exactly as '
             'the stream allows. The tokio futures themselves (read_exact, write_all) are modelled, not verified.',
    'note': 'Streams are finite byte lists followed by EOF; read_exact/read are modelled by readExact/rawRead. Struct sizes, PDU type '
            'numbers, the skip buffer size and the presence of the EOF check are regenerated from src/rtr/pdu.rs on every run. Hangs on '
            'the real code are detected by a per-case watchdog thread.',
    'shards': {'quick': 4, 'thorough': 16},
    'budget': {'quick': 900, 'thorough': 7200},
    'rule': 'every payload item of a boundary pool x versions {0,1,2,3,255} x flags {0,1,2,3,254,255} written and read back; all control '
            'PDUs x versions x boundary session/serial/timing; EVERY truncation point of every encoded PDU and of 3-PDU sequences; header '
            'type/version/length corruption tables; hostile prefix/max-len fields; oversized ASPA/router-key lengths; control readers; '
            'skip_payload on every cut of bodies of 10 sizes under 6 chunk schedules; random byte strings.',
    'trusted_base': ['tokio AsyncRead/AsyncWrite semantics (read_exact atomic on a finite stream, read returns 0 only at EOF)'],
    'assumptions': ['memory allocation for announced lengths (vec![0; len]) is outside the model'],
}

PROPS['C08'] = {
    'level': 'proof',
    'technique': 'Lean 4 refinement proof: chunk/notify event machine of the server connection refines a byte-string specification '
                 '(induction over events, invariant on the unparsed buffer) + differential check of the real Server::run over '
                 'exhaustive cuts and notify placements on a deterministic in-memory socket',
    'claim': 'Lean 4 proof that for every fragmentation of the client bytes and every interleaving of notifications (also inside a '
             'partly received header or Serial Query payload) the connection\'s responses, Serial Notify removed, equal the '
             'specification\'s answers to the concatenated bytes; one non-notify response per complete query; malformed/unsupported '
             'queries get the Error PDU with the offending header; notifications are transparent. Partial: the model fixes the schedule '
             '"run the connection task until it blocks after every event" on a single-threaded runtime; tokio select/broadcast and the '
             'payload bytes of the responses are not modelled (C06/C07 cover the payload).',
    'note': 'Whether the header read survives the notify branch (cancel safety) and MAX_VERSION are regenerated from src/rtr/server.rs. '
            'The real server is run through Server::run with a one-connection listener, a scripted PayloadSource and a socket that '
            'reports when the task is parked.',
    'shards': {'quick': 4, 'thorough': 16},
    'budget': {'quick': 900, 'thorough': 7200},
    'rule': 'streams of 1-2 queries from a 24-query pool (reset/serial right and wrong session/serial, versions 0-2, bad length, bad '
            'version, unknown PDU, garbage, error PDU): every single cut x notify before/between/after; random 1-4 query streams with '
            '0-3 cuts, random notify subsets, optional truncation and EOF; byte-at-a-time delivery with a notify after every byte; 3 '
            'source states (ready, not ready, no diffs).',
    'trusted_base': ['tokio current-thread scheduler, select left bias, broadcast(1) coalescing (modelled as one pending flag)'],
    'assumptions': ['multi-threaded runtimes and real sockets are not modelled'],
}

PROPS['C06'] = {
    'level': 'proof',
    'technique': 'Lean 4 proof on a message-level model of the RTR session (diff application lemma with ASPA keyed by customer, '
                 'one-step theorem, induction over histories) + differential runs of the real Client against the real Server',
    'claim': 'Lean 4 proofs: the gated diff applied to the restricted old set gives the restricted new set (all well-formed sets, '
             'ASPA keyed by customer), a reset gives the restricted set; whenever a client step finishes - serial query, fall-back to '
             'reset, version negotiation through Error code 4 - the data is exactly the source\'s current set restricted to the '
             'negotiated version, the state is the source\'s, from v1 on the timing too (step_sync); against a peer capped at k the '
             'negotiated version is k (downgrade); by induction over any interleaving of <2^32 source updates and client steps within '
             'one session (history_sync_partial). Partial: timers, IO_TIMEOUT and the Serial-Notify-instead-of-Cache-Response race make '
             'a step fail and are modelled as failure only; that the bytes written are the PDUs read is C07.',
    'note': 'The real rtr::client::Client runs against the real rtr::server::Server over in-memory pipes on a paused-clock '
            'current-thread runtime, with a reference PayloadSource (history, diffs retained or dropped, serial crossing 2^32) and a '
            'relay that caps the protocol version. The oracle applies the recorded updates to the previous data and compares with the '
            'source (impl-only), the model predicts every update list (correspondence). INITIAL_VERSION/MAX_VERSION regenerated.',
    'shards': {'quick': 4, 'thorough': 16},
    'budget': {'quick': 900, 'thorough': 7200},
    'rule': 'all 4 initial versions x caps {-,0,1,2} x initial client states {none, current, stale serial, foreign session} with 1-3 '
            'steps; random histories of 1-6 steps with 0-2 source updates between steps (sets over 12 origins v4/v6, 4 router keys, 4 ASPA '
            'customers x 4 provider lists), diffs kept or dropped, session changes, notifications (incl. missing/duplicate ones).',
    'trusted_base': ['tokio time (paused clock auto-advance), broadcast channel; the reference PayloadSource is harness code mirrored by Src in the model'],
    'assumptions': ['source sets are well formed (one ASPA per customer)'],
}

PROPS['C03'] = {
    'level': 'proof',
    'technique': 'Lean 4 theorems on a model of the generic block chain (canonical form unique, membership, inclusion, trim = '
                 'intersection, difference, collection of arbitrary block sequences) + differential check with a set-membership '
                 'oracle over all small block sequences and all pairs of small canonical sets, AS and IP',
    'claim': 'Lean 4 proofs over an item space [0,M] for every M (2^32-1, 2^128-1): canonical chains are unique per denoted set, so == '
             'is set equality; collecting ANY sequence of well-formed blocks (unsorted, overlapping, adjacent, duplicated, at the ends of '
             'the space) yields the canonical chain of their union; is_encompassed is inclusion; trim is ok iff included and otherwise '
             'the canonical intersection; difference, union, intersection are exact; verify_issued is a subset of the issuer with the '
             'four exact cases; contains_block/intersects_block, contains_item and asn_count (saturating) are exact. Every public operation of AsBlocks / IpBlocks '
             '(collect in any order, union, intersection, difference, contains, ==, verify_issued refuse/trim/inherit/missing, '
             'verify_covered, contains_block/intersects_block, asn_count, range->prefix decomposition, text and serde round trips) is '
             'checked on the implementation against the mathematical set (membership on all block ends +-1) and for canonical form. '
             'into_prefix is sound and complete and to_prefixes tiles the range exactly with the fuel the caller uses. The RFC 3779 AS extension '
             'in DER is modelled (u32 INTEGER codec, id/range blocks, inherit): whatever decodes is inherit or the canonical chain of the union '
             'of the listed blocks, and what is encoded for a canonical set decodes to exactly it; encoder and decoder models are tied to the '
             'library byte for byte (as-enc / as-der); so is the IP half (Model/IpDer.lean: prefix bit strings, ranges, both families, IPv4 in the '
             'upper 32 bits; ip-enc / ip-der). The text forms are modelled on octets (Model/ResText.lean: AS numbers and ranges, dotted quads, '
             'RFC 5952 IPv6 with the IPv4-mapped form, prefix / range / single-address items; std\'s address parsers rendered and compared) with '
             'the round trip as theorems for every canonical set (as_text_roundtrip, address_text_roundtrip, ip_text_set_roundtrip, '
             'resset_text_roundtrip); ResourceSet union / intersection / difference / contains and RequestResourceLimit::apply_to are modelled '
             'and specified (resset_*_spec, limit_apply_spec). Partial: std\'s address text and bcder\'s reader below Model/Der are modelled by '
             'hand and compared, not verified.',
    'note': 'The post-pass merge condition and the saturation of asn_count are regenerated from the sources. One known finding: inverted '
            'IP ranges in *text* are still accepted (KNOWN_FINDINGS.txt).',
    'shards': {'quick': 8, 'thorough': 16},
    'budget': {'quick': 900, 'thorough': 7200},
    'rule': 'all sequences of <=2 (thorough 3) blocks over an 11/13-point boundary domain (0..6, M-3..M) for AS and IP; 4*10^4 random '
            'sequences of 3-8 blocks (sorted prefix then unsorted, bridging, duplicates, adjacency); all pairs of canonical sets with <=2 '
            'blocks over a 7-point domain x 8 operations; random larger pairs; counts at the ends of the space; range->prefix for all '
            'ranges over 39 boundary points per family + random; hostile text forms.',
    'trusted_base': ['std IP address text; bcder DER reader; Vec::sort_unstable modelled by insertion sort (order of equal keys irrelevant after the repair)'],
    'assumptions': ['blocks offered through AsRange::new/AddressRange::new with lower > upper are a caller error (not generated)'],
}

PROPS['C14'] = {
    'level': 'proof',
    'technique': 'Lean 4 theorems on a model of ManifestContent::take_from, FileAndHash::validate_file_name, skip_opt_in/take_opt_from, FileListIter and iter_uris over a DER TLV model (name grammar iff, skip/take parity, len = iterator count, join cannot fail) + differential check of the real decoder on manifests assembled by an independent DER encoder',
    'claim': 'Lean 4 proofs: validate_file_name accepts exactly <[A-Za-z0-9_-]*>.<three letters>; skip_opt_in and take_opt_from decide identically, so for every decoded manifest the iterator yields exactly len() entries with legal names and never reaches its unwrap(); thisUpdate <= nextUpdate; Rsync::join of a legal name onto ANY rsync URI succeeds and yields base-directory ++ name with no slash in the name (so iter_uris cannot panic and stays directly inside the directory), and the result re-parses as a valid URI of the same module; hash verification is equality with the digest.',
    'note': 'bcder (tag/length/primitive readers in DER mode, IA5String, BIT STRING) is modelled by Rpki/Model/Der.lean and the *_Take functions, tied to the real decoder by the correspondence run on every check; SHA-256 is a parameter of the theorem and an independent Lean implementation in the oracle. Extension length, character class shape, the presence of the name check at both call sites and of the time check are re-read from src/repository/manifest.rs on every run.',
    'shards': {'quick': 4, 'thorough': 16},
    'budget': {'quick': 600, 'thorough': 7200},
    'rule': 'all names of length <= 3 (thorough 4) over {a,Z,0,-,_,.,/,NUL,~} as whole name and as stem; 6k (thorough 60k) random manifests: 0-200 (2000) entries, hostile names (.., ., a/b.cer, long names to 70000, single-character edits of good names, non-ASCII), hash lengths 0-64 with unused bits 0-9, UTCTime/GeneralizedTime, equal and inverted times, version present/wrong, wrong digest OID, trailing data, non-SEQUENCE list elements, wrong string types, TLV-boundary bit flips and truncation; 6 base URIs with and without trailing slash; hash verify on correct, bit-flipped, shortened, extended and random digests.',
    'trusted_base': ['bcder DER reader as modelled in Rpki/Model/Der.lean (validated differentially)', 'aws-lc SHA-256 (compared with the Lean SHA-256 on every hash case)'],
    'assumptions': ['the CMS envelope (SignedObject::decode_if_type) hands exactly the eContent octets to ManifestContent::take_from'],
}

PROPS['C01'] = {
    'level': 'proof',
    'technique': 'Lean 4 theorems on a model of Cert::validate_{ta,ca,ee,router}_at (inspect_* + verify_*_at over the decoded facts, signature verdict as an input) composed with the proved resource-chain model of C03 (acceptance implies the stated conditions, exact iff for issued certificates, resources subset of the issuer by induction over the chain, every single fault rejects) + differential check of the real validator on TA->CA*->EE/router chains assembled by an independent RFC 6487 DER encoder with single-point tamperings',
    'claim': 'Lean 4 proofs: verify_ca_at/verify_ee_at succeed iff the time is inside the window, AKI = issuer SKI (and AIA present), the signature verifies under the issuer key and verify_issued admits the resources; acceptance of a CA/EE/router/TA certificate implies signature, window, AKI (TA: self-signature, no inherit) and SKI = key hash; the validated resources are canonical and a subset of the issuer\'s in every family (exact cases from C03.verifyIssued_subset), along whole chains TA->CA*->EE by induction; a no-overclaim certificate claiming anything outside is rejected; each single non-conforming input rejects. Partial: RSA/ECDSA verification, SHA-1 and the X.509 DER envelope are not modelled (signature verdict and decoded facts are inputs of the model); they are tied to the code by the correspondence run where ground truth comes from the generator.',
    'note': 'ground truth of every case (who signed what, which bytes were altered, claimed blocks, key identifiers) comes from the harness encoder, never from the library. The step order of verify_*_at, the AKI comparison, the SKI comparison and the inspect-then-verify composition are re-read from src/repository/cert.rs on every run.',
    'shards': {'quick': 4, 'thorough': 16},
    'budget': {'quick': 900, 'thorough': 7200},
    'rule': 'every model verdict is computed from the octets of the certificates (CertDer.decodeCert); certd: 8 certificates x about 350 hand-made variations of every extension reader, names, algorithm identifiers, validity, key, envelope + 40 (thorough 400) mutants, compared on accept/reject, 22 fields and the ten inspect_* verdicts; 1.5k (thorough 12k) chains of depth 0-3 below a TA with random IPv4/IPv6/AS sets (small numbers, ends of the space, /8 boundaries), per-certificate inherit/missing/subset/overclaim claims under refuse or trim policy; leaf kinds ta/ca/ee/detached-ee/router (ECDSA and RSA keys); one tampering per case out of 24: time at nb-1/nb/na/na+1, nb=na, foreign signer, AKI of another key / one bit / absent, SKI one bit / other key, signature bit flip, TBS bit flip, resource OID/policy mismatch, CRLDP/AIA/basicConstraints/SIA toggles, TA inherit, policy switch, EKU toggle, rpkiNotify.',
    'trusted_base': ['aws-lc RSA/ECDSA verification and SHA-1 (idealised as the sigOk / keyId inputs)', 'bcder and the X.509 decoder for everything except what the facts record (validated differentially)'],
    'assumptions': ['a signature verifies under a key iff it was produced with the matching private key over exactly those bytes (no forgeries, no collisions)'],
}

PROPS['C02'] = {
    'level': 'proof',
    'technique': 'Lean 4 theorems on a model of SignedObject::validate_at, the signed-attribute parser, SignedAttrs::encode_verify (proved equal to the DER SET OF encoding for every admissible size) and the ROA/ASPA coverage checks, composed with the C01 and C03 models (exact acceptance iff, every single fault rejects, coverage iff set inclusion) + differential check of the real code on objects assembled by an independent RFC 5652/6488 encoder',
    'claim': 'Lean 4 proofs: encode_verify(attrs) = 31 <DER length> attrs for every length below 65536 (false for the code before fix abf0291, which wrote 02 hi lo from 128 octets on); validate_at accepts iff the attributes are exactly one content-type (= eContentType), message-digest and signing-time, sid = EE SKI, digest attribute = digest of the content, signature by the EE key over the DER SET OF, and the EE certificate validates under the issuer (C01); Roa::process iff additionally the CRL verdict is ok and every address of every prefix is in the validated EE resources (hence in the issuer\'s); ASPA iff customer in the AS resources, no inheritance, no IP resources. Partial as C01: signatures, SHA-256 (checked against an independent Lean SHA-256 in the oracle) and the CMS/X.509 envelopes are inputs of the model, tied by the correspondence run.',
    'note': 'Relaxed mode (session 10): the relaxed operations sor / roar take their model verdict from the octets through the mode-parametrized decoder at ber = true, half of them re-written with BER liberties outside the signed octets; theorems accepted_object_octets_either_mode, claimsCanon_of_octets_either_mode, parseAttrs_any_mode; object_octets_accepted_iff (strict decoding: validation succeeds iff the conditions hold for what was read from the octets). ' +
             'ground truth (what was signed with which key, attribute bytes, digest, prefixes) comes from the harness encoder. The DER-length shape of encode_verify and the EE validation composition are re-read from the source on every run. Roa::process/Aspa::process evaluate at the wall clock; those cases use 2000-2100 validity windows.',
    'shards': {'quick': 4, 'thorough': 16},
    'budget': {'quick': 900, 'thorough': 7200},
    'rule': 'every strict model verdict is computed from the octets of the object (CmsDer.decodeSigObj + CertDer.takeCert); cmsd: the ROA/ASPA/manifest/generic seed objects x about 110 hand-made variations of SignedData, SignerInfo, signed attributes, ContentInfo and the embedded certificate + 30 (thorough 300) mutants each, compared on accept/reject (typed and untyped) and on content type, content, signing time and every certificate field; 1.2k (thorough 8k) objects: generic signed objects with content-type OIDs of 9-250 octets (signed attributes 100-400 octets incl. 127/128/255/256 boundaries), ROAs (prefixes inside/outside/partially outside the EE resources, both families, max-length, EE exact/inherit/trimmed/too small), ASPAs (customer inside/outside, inherit, IP resources present), manifests; one tampering per case out of 22: sid bit, foreign signer, signature bit, signature over [0]-tagged / non-DER-length / content bytes, wrong digest, short digest, content-type mismatch, missing/duplicate/unknown attribute, non-DER attribute order, CMS/SignerInfo version, GeneralizedTime signing time, EE signed by stranger, EE AKI, evaluation time at the window ends, CRL callback refusal, EE with cA, EE without signedObject SIA.',
    'trusted_base': ['aws-lc RSA verification and SHA-256 (the latter compared with the Lean SHA-256 on every case)', 'bcder and the CMS/X.509 decoders for everything except what the facts record (validated differentially)'],
    'assumptions': ['a signature verifies under a key iff it was produced with the matching private key over exactly those bytes'],
}

PROPS['C10'] = {
    'level': 'proof',
    'technique': 'Lean 4 theorems on a model of SignedMessage::validate_at (inspect, verify with encode_verify proved to be the DER SET OF of all signed attributes, IdCert::validate_ee_at, SignedMessageCrl::validate, verify_not_revoked) and of SignedMessage::create (exact acceptance iff, every single fault rejects, created messages validate iff own key and inside the validity) + differential check of the real code on library-made messages and on messages assembled by an independent RFC 5652 encoder with 0-6 extra signed attributes',
    'claim': 'Lean 4 proofs: validate_at accepts iff protocol content type, exactly one content-type/message-digest/signing-time among the signed attributes (others admitted and kept in the signed bytes), digest attribute = digest of the content, signature by the EE key over 31 <DER length> <all attributes> for every size below 65536, sid = EE SKI = hash of the EE key, EE certificate signed by the peer key, inside its validity, not cA, AKI (if present) = peer key; CRL with matching algorithms signed by the peer key, thisUpdate <= t <= nextUpdate, AKI (if present) = peer key, EE serial not listed. Messages made by create() validate iff the validating key is the issuing key and nb <= t <= na. Partial: RSA, SHA-256 (checked against an independent Lean SHA-256), X.509/CMS envelopes are inputs of the model tied by the correspondence run.',
    'note': 'Relaxed mode (session 10): the protocol wrappers decode in relaxed mode; op msgr = SignedMessage::decode(strict = false) + validate_at with the model verdict from the octets (decodeSigMsgM true), half of the messages re-written with BER liberties outside the signed octets; theorems accepted_message_octets_either_mode, message_octets_accepted_iff (strict decoding: validates iff the conditions hold for what was read), created_message_octets (what SignedMessage::create writes is read back and validates iff the peer is the issuing key and the time is inside the validity - writer model, reader model and validation composed). ' +
             'ground truth comes from the harness encoder (who signed what, windows, serial lists). The validate_at step list, the IdCert EE checks and the CRL window comparison are re-read from the source on every run.',
    'shards': {'quick': 4, 'thorough': 16},
    'budget': {'quick': 900, 'thorough': 7200},
    'rule': 'library-made messages (create) validated at nb-1, nb, mid, na, na+1 under the issuing and under another key; 900 (thorough 6000) foreign messages: content 0-200 octets, 0-6 extra signed attributes (unknown OIDs with values of 1-300 octets, binary-signing-time; total attribute size 100-2000 octets incl. the 128/256 boundaries), AKI present/absent on EE and CRL, basicConstraints absent/false/true(+pathLen), key usage, 0-50 revoked serials; one tampering per case out of 25: time at the window ends, EE or CRL signed by a stranger, cA EE, EE/CRL window before/after t, EE serial first/middle/last in the CRL, wrong AKI on EE/CRL, sid bit, foreign signer, signature bit, signature over [0]-tagged or non-DER length bytes, wrong digest, SKI not the key hash, wrong content type, degenerate windows.',
    'trusted_base': ['aws-lc RSA verification and SHA-256/SHA-1', 'bcder and the CMS/X.509/CRL decoders for everything except what the facts record (validated differentially)'],
    'assumptions': ['a signature verifies under a key iff it was produced with the matching private key over exactly those bytes'],
}

PROPS['C09'] = {
    'level': 'proof',
    'technique': 'Lean 4 theorems on models of the XML read budget (BufReadCounter as a state machine: limit + one buffer, tight), sort_and_verify_deltas (never panics; true iff the retained serials are consecutive), has_matching_origins, attribute/text escaping and Base64 (round trips for all octet strings, white space ignored) and of the three RRDP writers (byte-exact) + differential check: written files re-parsed by the real parser and by a Lean reference reader, endless hostile streams through a counting reader',
    'claim': 'Lean 4 proofs: after reset_and_limit(L), L>0, at most L + B octets are pulled before a read is refused for every fill/consume sequence respecting the BufRead contract (B = largest buffer offered), and the bound is attained; sort_and_verify_deltas never panics and answers true iff the newest `limit` sorted serials are consecutive; the origin check is true iff snapshot and all deltas share the authority (ASCII case-insensitively); escapeAttr/escapePcdata un-escape to the original for ALL octet strings, contain no raw quote/< and only well-formed entities; Base64 text decodes to exactly the object with white space anywhere, and only canonical text decodes. Writer models for notification/snapshot/delta files are byte-exact on every generated value, and on the models the written files are read back by the reference reader as exactly the tree of their fields, for all field values and element lists (objects of any length), with injective writers. Partial: quick-xml (tokeniser, namespace resolution, its internal buffering, entity handling) is not modelled: file-level round trip through the real parser and the measured number of octets pulled from endless streams are established by the correspondence run, the latter against the proved bound p + L + B.',
    'note': 'MAX_HEADER_SIZE / MAX_FILE_SIZE, the fill_buf/consume/reset shapes, the escape tables and the checked addition in the delta loop are re-read from the source on every run. The document-level theorems are in Rpki/Proofs/XmlDocLemmas.lean and RrdpDoc.lean.',
    'shards': {'quick': 4, 'thorough': 16},
    'budget': {'quick': 900, 'thorough': 7200},
    'rule': 'escaping: every single octet and all pairs over {< > & quote apos ; # a x} in both modes + random strings; Base64: every length 0-39 encoded/decoded/with white space, random text over the alphabet and neighbours; 500 (thorough 4000) notification files (0-200 deltas, serials at 0 and 2^64-1, URIs with & and apostrophes) and as many snapshot/delta files (0-50 elements, objects of 0-4096 octets incl. all byte values) written, re-parsed by the library (equality) and by the Lean reference reader (well-formed, canonical); delta chains: every sequence of length <= 4 (thorough 5) over {0,1,2,3,2^64-2,2^64-1} x limits {none,0..6} + random shuffled runs with gaps and duplicates; origins over 6 hosts x 7 paths; endless streams: 16 kinds (attribute value/name, element name, white space in tag, leading white space/comment/doctype, white space/comment/text/entities/nested elements after the root start, inner attribute value/name, trailing white space/comment, publish text) x notification/snapshot/delta through a counting reader with 8 KiB buffers.',
    'trusted_base': ['quick-xml 0.39 (tokeniser, trim_text, namespaces): not modelled, exercised by the correspondence', 'base64 crate: modelled by b64Encode/b64Decode, validated differentially', 'uuid Display: hyphenated lower-case hex (modelled in the driver)'],
    'assumptions': ['the source reader honours the BufRead contract (consume <= last fill_buf)'],
}

PROPS['C04'] = {
    'level': 'proof',
    'technique': 'Lean 4 octet-level models of every decoding entry point of the statement (certificate, CRL, manifest / ROA / ASPA / generic signed object, RTA, TAL, public key, both CSR types, identity certificate, signed protocol message; relaxed mode through a mode-parametrized copy of the model generated from the DER model\'s text and proved equal to it at ber = false) as total functions, theorems that whatever a decoder accepts satisfies what the later unwrap()/panic! sites of accessors and iterators need, and a correspondence run that compares model and library on accept/reject and every field for structure-aware mutants of every object kind, under catch_unwind, a hang watchdog and a counting allocator',
    'claim': 'Lean 4 proofs on the models: every decoder model is a total function (value or refusal for every octet string, loops bounded by the input length; the skip machine leaves a proper suffix and is independent of its loop counter); for every octet string a decoder accepts the later unwrap()/panic! sites are unreachable: manifest FileListIter / iter_uris, ROA / ASPA / CRL iterators (capture-iterate parity), Crl::contains after Crl::decode, verify_not_revoked after SignedMessage::decode, SignedAttrs::encode_verify after a strict or relaxed decode (relaxed_encode_verify_cannot_panic), asn_count; RTA: the three resource sets are canonical chains and every embedded CRL went through the counting pass (rta_octets_accessors_cannot_fail); CSR: the unwrapping accessors have their values (csr_octets_profile); TAL: every URI is valid for its scheme, the key decodes, prefer_https only reorders (tal_octets_spec); the strict decoders are the ber = false instance of the mode-parametrized model (strict_is_the_der_instance, 59 generated equalities + readers_at_der); in EITHER mode a decoded manifest / ROA / ASPA object can be walked (file list, URIs, both prefix lists, provider set: typed_objects_accessors_either_mode), a decoded signed message\'s revocation list can be walked, its attributes parse with the protocol content type and encode_verify exists (sigmsg_octets_cannot_panic_either_mode), a decoded signed object\'s attributes parse to the returned values, encode_verify exists and the embedded certificate\'s resources are canonical chains (sigobj_octets_either_mode), the skip machine leaves a proper suffix and is independent of its counter (skip_machine_either_mode) - 34 DER lemmas converted with their proof scripts by the generator; relaxed mode extends strict mode: every octet string a strict decoder accepts (certificate, signed object with or without the typed content check, identity certificate, signed message) is accepted by the relaxed decoder with the same result (relaxed_extends_strict, 48 generated lemmas over the reader-level der_values_are_read_in_ber). Partial: that the LIBRARY neither panics nor exceeds the resource bound on the same octets is observed on every case (catch_unwind, watchdog, allocator), not proved - bcder, base64 and aws-lc internals are not modelled beyond what the readers above say; the re-encoding of relaxed-mode values is a recorded finding.',
    'note': 'Models: Model/CertDer, CmsDer, CrlDer, SigMsgDer, CsrDer, RtaDer, Tal, Ber + Gen/BerModel (regenerated from the DER model text on every run, with Gen/BerEq: fooM false = foo for all 59 definitions). One finding is recorded as known (see KNOWN_FINDINGS.txt): re-encoding any value decoded in relaxed mode panics inside bcder (Mode::Der requested for Mode::Ber captures). Time is bounded only by the generous watchdog, never by a wall-clock threshold.',
    'shards': {'quick': 8, 'thorough': 16},
    'budget': {'quick': 900, 'thorough': 10800},
    'rule': 'per run about 34k (thorough 300k) decoder cases compared field by field with the models: certd 7.4k, cmsd 6.3k, crld 2.3k, idcd 1.1k, smsgd 2.6k, csrd 1.6k (both request types, 60 hand-made extension / attribute / envelope variations), keyd 0.9k, tald 0.3k (50 hand-made locators: comment lines, line ends, URI shapes, Base64 padding and unused bits), rtad 1.4k (five library-built attestations with 0-3 certificates, CRLs, 1-3 signers; 110 hand-made variations), relaxed mode cmsdr 4.5k + smsgdr 2.1k (every node of every seed object with every BER liberty it can take one at a time - indefinite length, over-long length, over-long end-of-contents, constructed strings flat and nested, other truth values, set unused bits, indefinite primitive -, random mixes at four rates, liberties on top of the hand-made strict variations, mutants). dec: 37 valid seed objects x 400 (thorough 4000) mutants each through all 19 entry points with every accessor and the re-encoding - since session 10 each of these 27k (270k) cases is also put to the decoder model of its entry point and accept / reject must agree -, every valid object through every other entry point, random inputs, nesting bombs, indefinite and 4 GiB lengths, empty input; peak heap below 64*len + 1 MiB, hangs caught by the watchdog.',
    'trusted_base': ['bcder / aws-lc / base64 internals beyond the modelled readers (explored, not modelled)', 'the counting allocator and catch_unwind of the harness', 'tools/gen_ber_model.py (textual rewriting of the DER model and of 34 lemma proofs; its output is checked by Lean - a wrong rewriting fails to compile or to prove - and the generated model is compared with the library)'],
    'assumptions': ['a stack overflow or abort would kill the harness process and is reported as a crashed shard'],
}

PROPS['C11'] = {
    'level': 'proof',
    'technique': 'Lean 4 theorems on a model of the generic XML element writer (src/xml/encode.rs: indentation, attribute escaping, text lines, Base64) and a reference reader with trim_text semantics: the reader inverts the writer on every well-formed tree, the writer is injective, attribute values and object contents come back exactly for all octet strings + differential check: messages built through the public API of publication/provisioning/identity exchange are written, re-read by the library (equality) and by the Lean reference reader (well-formedness, XML 1.0 characters, entity hygiene, byte-identical re-writing), plus mutated and hostile documents through all six parsers',
    'claim': 'Lean 4 proofs (for all trees / octet strings): parseDoc (writeDoc t) = some t for every tree with XML names, attribute values without raw quote or <, non-empty text lines without < and without surrounding white space and no two text lines in a row (both side conditions shown necessary by counterexample theorems); distinct such trees are written differently; escapeAttr of ANY octet string is an admissible attribute value and un-escapes to the original; the Base64 text of any non-empty object is an admissible text line and decodes to the object. Partial: the mapping of each of the ~25 message types to and from such trees is not modelled type by type; it is established by the correspondence run: library writer vs library reader on generated messages (equality, idempotent re-writing), the reference reader accepts every written document and the generic writer model reproduces its bytes from the tree read. quick-xml is not modelled.',
    'note': 'Escape tables are re-read from src/xml/encode.rs on every run. Four recorded findings (KNOWN_FINDINGS.txt): tag None vs "" on publication elements (two directions), error_text None re-written with the default text, C0 control characters written verbatim. Generator restricted to protocol-valid values after analysis: whole-second not_after, error replies with at least one report_error.',
    'shards': {'quick': 4, 'thorough': 16},
    'budget': {'quick': 900, 'thorough': 7200},
    'rule': '4k (thorough 54k) documents over the six parsers: publication (list, list reply 0-200 elements, deltas with publish/update/withdraw in any mix, tags None/Some incl. every XML-special character, white space, empty, long; objects of all byte values 0-4096 octets; success; error replies for every code), provisioning (every payload type; class names and handles over the whole admitted character set, lengths 1 and 255; resource sets of all shapes incl. IPv4-mapped IPv6; issued certificates, CSRs, key identifiers, every not-performed code), RFC 8183 (four message types, tags, service URIs, id certificates); per API-made document one mutation (byte delete/duplicate/replace, attribute swap, comment, CDATA, entity and character references, unknown attribute/element, wrong namespace/version, truncation at tag boundaries), empty document, random octets, nesting to depth 40000, 100 kB attribute values, all XML files under /repo/test-data/ca.',
    'trusted_base': ['quick-xml 0.39 (not modelled)', 'PartialEq of the message types as the equality of the statement'],
    'assumptions': [],
}

PROPS['C05'] = {
    'level': 'proof',
    'technique': 'Lean 4 theorems decode(encode x) = x on hand-written octet-level models of the library\'s writers and readers '
                 '(TLV layer; capture layouts; manifest, ROA, ASPA contents; CRL revocation list; times, serials; signed attributes; '
                 'TbsCert/Cert, TbsCertList/Crl, SignedObject, TbsIdCert/IdCert, SignedMessage with its own CRL type, CSR, RTA) + correspondence: '
                 'every builder -> to_captured -> library decoder -> validator -> re-encoder with an accessor-by-accessor dump of the built '
                 'value and its decoded twin; the reader models are compared with the library on the built octets and the writer models must '
                 'reproduce those octets from the decoded fields',
    'claim': 'Lean 4 proofs (all inputs in the profile, any sizes): readTlv(tlv t c ++ rest) = (t,c,rest); capture layouts (content of a '
             'SEQUENCE OF iterates item by item, a capture with header reads as one value); manifest content, ROA content (both families, '
             'any number of addresses), ASPA content (any provider count) and the CRL revocation list are read back as written, with len, '
             'iterators and contains() agreeing; times and serial numbers (C17); the three signed attributes in any order (C02). '
             'Whole objects: TbsCert::from_constructed(TbsCert::encode_ref d) returns all 24 fields of d for every certificate in the '
             'profile (tbs_cert_roundtrip; IPv4/IPv6/AS resources of any canonical shape, all URI fields, both key types, every '
             'extension combination) and Cert::take_from reads the whole certificate through bcder\'s capture (cert_roundtrip, via a '
             'proof that the skip machine accepts every forest of definite-length values); the same for TbsCertList/Crl '
             '(tbs_crl_roundtrip, crl_roundtrip), SignedObject around a written certificate (sigobj_roundtrip, '
             'sigobj_with_cert_roundtrip), TbsIdCert/IdCert (tbs_idcert_roundtrip, idcert_roundtrip) and SignedMessage around a written '
             'identity certificate and CRL (msg_crl_roundtrip, msg_crl_serials, sigmsg_roundtrip), the certification request written by '
             'Csr::construct_rpki_ca (csr_roundtrip) and resource tagged attestations (rta_attestation_roundtrip for the content, '
             'rta_object_roundtrip for the multi-signed object with any number of certificates, CRLs and signer infos); re-encoding what '
             'was read gives the same octets (tbs_cert_reencode, cert_reencode, crl_reencode, idcert_reencode, msg_crl_reencode, '
             'cert_decode_encode_decode). Partial: the validators\' acceptance of built objects and the accessor-by-accessor agreement of '
             'built and decoded values are decided by the correspondence run (decode, validate, re-encode identity, every accessor on both '
             'values, no panic at any stage).',
    'note': 'The writer models (Model/CertEnc, CrlEnc, CmsEnc, IdEnc, SigMsgEnc, CsrEnc, RtaEnc) are tied to the library by the `bytes` operations: for every '
            'object a builder produced, writing the fields the reader model decoded must give the library\'s octets byte for byte (whole '
            'object and to-be-signed part); the reader models are tied by comparing their reading with the library decoder\'s on the same '
            'octets (and on ~17k mutants per run under C04). The builder/decoder capture shapes of ROA and ASPA, the manifest encode_ref '
            'field order and 39 object identifiers are re-read from the source on every run. Inputs carry a conformity marker (conf=) '
            'computed by the generator from the object profiles; out-of-profile inputs are only required not to panic after decoding. '
            'One recorded finding: sub-second instants (see KNOWN_FINDINGS.txt).',
    'shards': {'quick': 8, 'thorough': 16},
    'budget': {'quick': 900, 'thorough': 10800},
    'rule': '4.3k (thorough 43k) builder runs: certificates via TbsCert::new and via every setter (serials 0,1,127,128,255,256,2^63,2^159-1,random; validity incl. 1950/2049/2050/9999 so both time encodings occur; every URI setter; cA/AKI/key usage/EKU; Refuse/Trim; v4/v6/AS resources missing/inherit/blocks of every shape in any insertion order incl. overlapping, adjacent, 0/0, maximum address, AS 0 and 4294967295; RSA and EC keys), CRLs with 0-300 entries (duplicates, any order; contains() for every serial and its neighbours, with and without cache_serials), manifest contents (0-N files), ROA and ASPA contents through five builder APIs (1-16381 providers), complete signed objects (so/mft/roa/aspa) with validate_at/process under a library-built CA, CSRs, identity certificates (TA/EE), signed messages, RTAs; out-of-profile inputs mixed in and marked; every built object additionally through the reader and writer models (`bytes`).',
    'trusted_base': ['the accessor dump functions of the harness (one per type) as the meaning of "every accessor"', 'generator-side conformity classification (conf=/vexp=)'],
    'assumptions': ['certificate and CRL names enter the round-trip theorems as octet strings the name reader accepts (NameOk) that are forests of definite-length values; the names the library derives from keys are shown to be such (nameOk_cn, forest_cn)'],
}

NOT_APPLICABLE = {
}
for _i in range(1, 18):
    _p = 'C%02d' % _i
    if _p not in PROPS:
        NOT_APPLICABLE[_p] = 'check under construction in this session (model/harness not yet committed); will be claimed when it exists'
