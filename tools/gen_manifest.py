#!/usr/bin/env python3
"""Writes /verif/MANIFEST.json from tools/props_table.py (the single source of truth)."""
import json, os, sys
HERE = os.path.dirname(os.path.abspath(__file__))
VERIF = os.path.dirname(HERE)
sys.path.insert(0, HERE)
from props_table import PROPS, NOT_APPLICABLE

BASELINE = ("cd /repo && cargo nextest run --workspace --no-fail-fast --test-threads 8 --offline "
            "|| cargo test --workspace --no-fail-fast --offline")

ids = [json.loads(l)['id'] for l in open(os.path.join(VERIF, 'properties.jsonl'))]
checks = []
for pid in ids:
    if pid not in PROPS:
        continue
    s = PROPS[pid]
    checks.append({
        'property_id': pid,
        'quick_cmd': f'./check {pid} quick',
        'thorough_cmd': f'./check {pid} thorough',
        'evidence_file': f'evidence/{pid}.json',
        'replay_cmd_template': f'./check {pid} --replay {{path}}',
        'engine': 'lean4+harness',
        'level_claimed': {'category': s['level'], 'text': s['claim'], 'design_ref': s.get('design_ref', 'DESIGN.md §4 ' + pid)},
        'level_note': s['note'],
        'technique': s['technique'],
    })
na = [{'property_id': pid, 'reason': NOT_APPLICABLE[pid]} for pid in ids if pid not in PROPS]
for pid in ids:
    assert pid in PROPS or pid in NOT_APPLICABLE, pid
m = {
    'version': 1,
    'setup_cmd': './check --setup',
    'hooks': {
        'guard': 'nlnetlabs_rpki_rs_verif',
        'enable': 'none needed: every anchored mechanism is driven through the public API by /verif/harness (path dependency on /repo)',
        'baseline_off_cmd': BASELINE,
        'source_commits': [],
        'add_only': True,
    },
    'engines': [{
        'name': 'lean4+harness', 'path': 'check',
        'serves_properties': [c['property_id'] for c in checks],
        'kind_free_text': 'Lean 4 theorems about hand-written executable models (lean/Rpki) + constants regenerated from /repo + '
                          'differential correspondence check of the compiled model against the real code (harness/) with the '
                          'Lean Spec predicates run as oracle on the implementation results',
    }],
    'checks': checks,
    'not_applicable': na,
    'notes': 'See DESIGN.md. Fix commits to /repo are listed in KNOWN_FINDINGS.txt (fixed: lines).',
}
json.dump(m, open(os.path.join(VERIF, 'MANIFEST.json'), 'w'), indent=1)
print('checks:', len(checks), 'not_applicable:', len(na))
