#!/bin/bash
# Line coverage of /repo's sources by the correspondence harness (all quick streams).  Not part of any check: it
# measures what the generators reach, so that blind spots can be closed (see DESIGN.md A.7).  Needs the nightly
# toolchain's llvm-tools; works offline.  Scratch under /tmp, removed at the end.
set -e
B=$(ls -d /root/.rustup/toolchains/nightly-x86_64-unknown-linux-gnu/lib/rustlib/x86_64-unknown-linux-gnu/bin)
W=/tmp/verif_cov; rm -rf $W; mkdir -p $W/prof
git -C /repo worktree add -q --detach $W/repo HEAD
rsync -a --exclude target /verif/harness/ $W/harness/
sed -i "s#path = \"/repo\"#path = \"$W/repo\"#" $W/harness/Cargo.toml
( cd $W/harness && RUSTFLAGS="-C instrument-coverage" CARGO_TARGET_DIR=$W/target CARGO_NET_OFFLINE=true cargo +nightly build --release --offline 2>/dev/null )
for id in C01 C02 C03 C04 C05 C06 C07 C08 C09 C10 C11 C12 C13 C14 C15 C16 C17; do
  ( cd $W/harness && LLVM_PROFILE_FILE=$W/prof/$id-%p.profraw timeout 1800 $W/target/release/vh gen $id quick 1 0 1 > /dev/null 2>&1 ) &
done; wait
$B/llvm-profdata merge -sparse $W/prof/*.profraw -o $W/all.profdata
$B/llvm-cov report $W/target/release/vh -instr-profile=$W/all.profdata --ignore-filename-regex='(registry|rustc|/harness/)' 2>/dev/null \
  | sed "s#${W#/}/repo/##" | awk 'NR<=2 || /^src\// || /^TOTAL/ || /^---/ {printf "%-46s %8s %8s %8s   %6s %6s %8s\n", $1, $2, $3, $4, $5, $6, $7}' > /verif/coverage/harness_coverage.txt
git -C /repo worktree remove --force $W/repo; rm -rf $W
cat /verif/coverage/harness_coverage.txt
