#!/usr/bin/env python3
"""Rewrites the generated tables of DESIGN.md (between the BEGIN/END GENERATED markers) from
evidence/*.json, seeded/*/meta.json, KNOWN_FINDINGS.txt and tools/props_table.py."""
import glob, json, os, re, sys
HERE = os.path.dirname(os.path.abspath(__file__))
V = os.path.dirname(HERE)
sys.path.insert(0, HERE)
import props_table

out = []
out.append('### Claimed properties (from the evidence files of the last run)\n')
out.append('| id | level | theorems (all axioms within {propext, Classical.choice, Quot.sound}) | cases validated against the real code (quick tier) |')
out.append('|---|---|---|---|')
for pid in sorted(props_table.PROPS):
    ev = {}
    p = os.path.join(V, 'evidence', pid + '.json')
    if os.path.exists(p):
        ev = json.load(open(p))
    cov = ev.get('coverage', {})
    out.append(f"| {pid} | {props_table.PROPS[pid]['level']} | {cov.get('discharged', '?')}/{cov.get('obligations', '?')} | {cov.get('evaluations', '?')} |")
out.append('')
na = getattr(props_table, 'NOT_APPLICABLE', {})
if na:
    out.append('Not claimed: ' + ', '.join(sorted(na)) + ' (reasons in MANIFEST.json).\n')
out.append('### Seeded changes (independent sub-agents) and which check catches them\n')
out.append('| seed | change | caught by `./check <id> quick` | with a concrete failing input | first line of the report |')
out.append('|---|---|---|---|---|')
for d in sorted(glob.glob(os.path.join(V, 'seeded', '*'))):
    m = os.path.join(d, 'meta.json')
    if not os.path.exists(m):
        continue
    j = json.load(open(m))
    how = (j.get('how') or [''])[0]
    how = re.sub(r'[0-9a-f]{40,}', '…', how)
    how = how.replace('|', '\\|')
    if len(how) > 220:
        how = how[:220] + '…'
    caught = 'yes' if j.get('detected') else ('no (the property as stated still holds: see note)' if j.get('property_still_holds') else 'NO')
    if j.get('property_still_holds'):
        how = j.get('judgement', '')[:300]
    out.append(f"| {j['seed']} | {j.get('change','').replace('|','/')} | {caught} | {'yes' if j.get('with_failing_input') else 'no'} | {how} |")
out.append('')
out.append('### Repairs and recorded findings (KNOWN_FINDINGS.txt)\n')
for l in open(os.path.join(V, 'KNOWN_FINDINGS.txt')):
    l = l.strip()
    if l.startswith('fixed:') or l.startswith('known:'):
        out.append('* `' + l[:6] + '` ' + l[6:].strip())
text = '\n'.join(out) + '\n'
p = os.path.join(V, 'DESIGN.md')
s = open(p).read()
b, e = '<!-- BEGIN GENERATED -->', '<!-- END GENERATED -->'
if b in s and e in s:
    s = s[:s.index(b) + len(b)] + '\n' + text + s[s.index(e):]
    open(p, 'w').write(s)
    print('DESIGN.md tables regenerated')
else:
    print(text)
