"""Per-property constant anchors (see extract_consts.py).

Each entry: (lean name, file, regex, kind, [properties]).  kind is 'nat',
'natlist', 'str' or a callable taking the match object.
"""
import re


def _num(s):
    s = s.replace('_', '')
    for suf in ('u8', 'u16', 'u32', 'u64', 'u128', 'usize'):
        if s.endswith(suf):
            s = s[:-len(suf)]
    return int(s, 0)


ADDR = 'src/resources/addr.rs'
ASN = 'src/resources/asn.rs'

EXTRA = [
    # ---- C13
    ('falV4Max', ADDR, r'pub fn new_v4\(len: u8\) -> Result<Self, PrefixError> \{\s*if len > (\d+) \{', 'nat', ['C13']),
    ('falV6Max', ADDR, r'pub fn new_v6\(len: u8\) -> Result<Self, PrefixError> \{\s*match len\.cmp\(&(\d+)\)', 'nat', ['C13']),
    ('falV6Full', ADDR, r'Ordering::Equal => Ok\(Self\((0x[0-9a-fA-F]+)\)\)', 'nat', ['C13']),
    ('falXor', ADDR, r'Ordering::Less => Ok\(Self\(len \^ (0x[0-9a-fA-F]+)\)\)', 'nat', ['C13']),
    ('asnSetDedup', ASN,
     r'impl iter::FromIterator<Asn> for SmallAsnSet \{\s*fn from_iter<T: IntoIterator<Item = Asn>>\(iter: T\) -> Self \{([\s\S]*?)\n    \}',
     lambda m: bool(re.search(r'res\.0\.sort(_unstable)?\(\);\s*res\.0\.dedup\(\);', m.group(1))), ['C13']),
]
