"""Per-property constant anchors (see extract_consts.py).

Each entry: (lean name, file, regex, kind, [properties]).  kind is 'nat',
'natlist', 'str' or a callable taking the match object.
"""
import re


def _three(good, bad, what):
    """recogniser with three outcomes: the shape that has the property (True), the known shape that lacks it
    (False), anything else: not recognised (the anchor counts as not found and the recorded value is used)"""
    def f(m):
        body = m.group(1)
        if re.search(good, body):
            return True
        if re.search(bad, body):
            return False
        raise ValueError(what + ': shape not recognised')
    return f




def _num(s):
    s = s.replace('_', '')
    for suf in ('u8', 'u16', 'u32', 'u64', 'u128', 'usize'):
        if s.endswith(suf):
            s = s[:-len(suf)]
    return int(s, 0)


ADDR = 'src/resources/addr.rs'
ASN = 'src/resources/asn.rs'

URI = 'src/uri.rs'


def _ascii_ranges(m):
    out = []
    for part in m.group(1).split('|'):
        part = part.strip()
        mm = re.fullmatch(r"b'(.)'\s*\.\.=\s*b'(.)'", part)
        if mm:
            out += [ord(mm.group(1)), ord(mm.group(2))]
            continue
        mm = re.fullmatch(r"b'(.)'", part)
        if mm:
            out += [ord(mm.group(1)), ord(mm.group(1))]
            continue
        raise ValueError(part)
    return out


def _eq_module(m):
    body = m.group(1)
    if re.search(r'self\.bytes\[\.\.self\.path_start\]\s*\.eq_ignore_ascii_case', body):
        return True
    if (re.search(r'self\.bytes\[\.\.self\.module_start\]\s*\.eq_ignore_ascii_case', body)
            and re.search(r'self\.bytes\[self\.module_start\.\.self\.path_start\]\s*==\s*other\.bytes\[other\.module_start\.\.other\.path_start\]', body)
            and 'self.module_start == other.module_start' in body):
        return False
    raise ValueError('eq_module shape not recognised')


def _https_join(m):
    body = m.group(1)
    if re.search(r'if !self\.path\(\)\.is_empty\(\) && !self\.path\(\)\.ends_with\(\'/\'\)', body):
        return False
    if re.search(r'if !self\.path\(\)\.ends_with\(\'/\'\)', body):
        return True
    raise ValueError('Https::join shape not recognised')


X509 = 'src/repository/x509.rs'


def _digits_only(m):
    # both read_two_char and read_four_char must check for ASCII digits before u32::from_str
    body = m.group(1)
    fns = re.findall(r'fn read_(?:two|four)_char<[\s\S]*?\n\}', body)
    if len(fns) != 2:
        raise ValueError('read_two_char/read_four_char not found')
    flags = [bool(re.search(r'is_ascii_digit', f)) for f in fns]
    if all(flags):
        return True
    if not any(flags):
        return False
    raise ValueError('only one of read_two_char/read_four_char checks digits')


SLURM = 'src/slurm.rs'
PDU = 'src/rtr/pdu.rs'


def _drop_all(m):
    body = m.group(1)
    has_p = bool(re.search(r'for \w+ in &self\.prefix\b', body)) or 'self.prefix.iter()' in body
    has_b = bool(re.search(r'for \w+ in &self\.bgpsec\b', body)) or 'self.bgpsec.iter()' in body
    has_a = 'self.aspa' in body
    if has_p and has_b and has_a:
        return True
    if has_p and not has_b and not has_a:
        return False
    raise ValueError('drop_payload shape not recognised')


_WIDTH = {'u8': 1, 'u16': 2, 'u32': 4, 'u64': 8, 'u128': 16, 'Header': 8, '[u8; 20]': 20, 'SerialQueryPayload': 4}


def _struct_size(name):
    rx = r'#\[repr\(C, packed\)\]\s*(?:#\[allow\(dead_code\)\]\s*)?(?:pub )?struct ' + name + r' \{([^}]*)\}'
    def f(m):
        total = 0
        for line in m.group(1).split('\n'):
            line = line.split('//')[0].strip().rstrip(',')
            if not line:
                continue
            ty = line.split(':', 1)[1].strip()
            total += _WIDTH[ty]
        return total
    return rx, f


def _pdu_const(name):
    return r'impl ' + name + r' \{\s*(?:///[^\n]*\n\s*)*pub const PDU: u8 = (\d+);'


_RTR = []
for _n, _lean in [('SerialNotify', 'SerialNotify'), ('SerialQuery', 'SerialQuery'), ('ResetQuery', 'ResetQuery'),
                  ('CacheResponse', 'CacheResponse'), ('Ipv4Prefix', 'Ipv4Prefix'), ('Ipv6Prefix', 'Ipv6Prefix'),
                  ('EndOfDataV0', 'EndOfDataV0'), ('EndOfDataV1', 'EndOfDataV1'), ('CacheReset', 'CacheReset')]:
    _rx, _f = _struct_size(_n)
    _RTR.append(('size' + _lean, PDU, _rx, _f, ['C07', 'C08', 'C06']))
    _RTR.append(('pdu' + _lean, PDU, _pdu_const(_n), 'nat', ['C07', 'C08', 'C06']))
for _n, _lean in [('RouterKeyFixed', 'RouterKeyFixed'), ('AspaFixed', 'AspaFixed'), ('Header', 'Header')]:
    _rx, _f = _struct_size(_n)
    _RTR.append(('size' + _lean, PDU, _rx, _f, ['C07', 'C08', 'C06']))
_RTR.append(('pduRouterKey', PDU, _pdu_const('RouterKey'), 'nat', ['C07', 'C06']))
_RTR.append(('pduAspa', PDU, _pdu_const('Aspa'), 'nat', ['C07', 'C06']))
_RTR.append(('pduError', PDU, _pdu_const('Error'), 'nat', ['C07', 'C08', 'C06']))
_RTR.append(('pduEndOfData', PDU, _pdu_const('EndOfData'), 'nat', ['C07', 'C06']))
_RTR.append(('skipBufSize', PDU, r'pub async fn skip_payload<[\s\S]*?let mut buf = \[0u8; ([\w:]+)\];', 'nat', ['C07']))
_RTR.append(('skipEofChecked', PDU, r'pub async fn skip_payload<([\s\S]*?)\n    \}',
             _three(r'\bread == 0\b|\b0 == read\b|\bread < 1\b', r'\.await\?;\s*remaining -= read;', 'skip_payload end-of-stream check'), ['C07']))


SERVER = 'src/rtr/server.rs'


def _cancel_safe(m):
    body = m.group(1)
    # original: the header is read by a `Header::read` future created inside recv and raced against notify
    if re.search(r'let header = pdu::Header::read\(&mut self\.sock\);', body):
        return False
    # repaired: the partial header is kept in the connection and filled by cancel-safe `read` calls
    if re.search(r'self\.header_len|header_len', body) and not re.search(r'pdu::Header::read\(', body):
        return True
    raise ValueError('recv shape not recognised')


def _encode_verify(m):
    body = m.group(1)
    if re.search(r'res\.push\(0x81\)', body) and re.search(r'res\.push\(0x82\)', body):
        return True
    if re.search(r'res\.push\(2\);', body):
        return False
    raise ValueError('encode_verify shape not recognised')


def _delta_add(m):
    body = m.group(1)
    if re.search(r'last_seen\.checked_add\(1\) != Some\(delta\.serial\(\)\)', body):
        return True
    if re.search(r'last_seen \+ 1 != delta\.serial\(\)', body):
        return False
    raise ValueError('delta loop shape not recognised')


def _escapes(m, want):
    got = {}
    for a, b in re.findall(r"b'(\\?.)' => Some\(\"([^\"]*)\"\)", m.group(1)):
        got[a[-1]] = b
    if got != want:
        raise ValueError('escape table differs: %r' % got)
    return True


def _raise(msg):
    raise ValueError(msg)


EXTRA = _RTR + [
    # ---- C03
    ('chainPostPassMergesOverlap', 'src/repository/resources/chain.rs',
     r'fn from_iter_unsorted<[\s\S]*?for j in 1\.\.res\.len\(\) \{([\s\S]*?)res\.truncate\(tail \+ 1\);',
     _three(r'res\[j\]\.min\(\) <= res\[tail\]\.max\(\)', r'if Some\(res\[j\]\.min\(\)\) == tail_next \{\s*(?://[^\n]*\n\s*)*res\[tail\] = T::new', 'from_iter_unsorted merge pass'), ['C03']),
    ('asnCountSaturates', 'src/repository/resources/asres.rs',
     r'impl AsRange \{[\s\S]*?pub fn asn_count\(self\) -> u32 \{([\s\S]*?)\n    \}',
     lambda m: 'saturating' in m.group(1), ['C03', 'C04']),
    # ---- C01
    ('certVerifyCaSteps', 'src/repository/cert.rs',
     r'pub fn verify_ca_at\([\s\S]*?\{\s*(self\.verify_validity\(now\)\?;\s*self\.verify_issuer_claim\(issuer, strict\)\?;\s*self\.verify_signature\(issuer, strict\)\?;\s*self\.verify_resources\(issuer, strict\))\s*\}',
     lambda m: True, ['C01']),
    ('certVerifyEeSteps', 'src/repository/cert.rs',
     r'pub fn verify_ee_at\([\s\S]*?\{\s*(self\.verify_validity\(now\)\?;\s*self\.verify_issuer_claim\(issuer, strict\)\?;\s*self\.verify_signature\(issuer, strict\)\?;\s*self\.verify_resources\(issuer, strict\))\s*\}',
     lambda m: True, ['C01', 'C02']),
    ('certVerifyRouterSteps', 'src/repository/cert.rs',
     r'pub fn verify_router_at\([\s\S]*?\{\s*(self\.verify_validity\(now\)\?;\s*self\.verify_issuer_claim\(issuer, strict\)\?;\s*self\.verify_signature\(issuer, strict\)\?;\s*self\.verify_as_resources\(issuer, strict\))\s*\}',
     lambda m: True, ['C01']),
    ('certIssuerClaimAki', 'src/repository/cert.rs',
     r'pub fn verify_issuer_claim\([\s\S]*?(Some\(aki\) => \{\s*if aki != issuer\.cert\.subject_key_identifier\(\) \{\s*return Err)[\s\S]*?None => \{\s*return Err',
     lambda m: True, ['C01']),
    ('certSkiIsKeyHash', 'src/repository/cert.rs',
     r'fn inspect_basics\([\s\S]*?(if self\.subject_key_identifier\(\)\s*!= self\.subject_public_key_info\(\)\.key_identifier\(\)\s*\{\s*return Err)',
     lambda m: True, ['C01']),
    ('certValidateCaInspects', 'src/repository/cert.rs',
     r'pub fn validate_ca_at\([\s\S]*?\{\s*(self\.inspect_ca\(strict\)\?;\s*self\.verify_ca_at\(issuer, strict, now\))',
     lambda m: True, ['C01']),
    ('certValidateEeInspects', 'src/repository/cert.rs',
     r'pub fn validate_ee_at\([\s\S]*?\{\s*(self\.inspect_ee\(strict\)\?;\s*self\.verify_ee_at\(issuer, strict, now\))',
     lambda m: True, ['C01', 'C02']),
    # ---- C02
    ('encodeVerifyDerLength', 'src/repository/sigobj.rs',
     r'pub fn encode_verify\(&self\) -> Vec<u8> \{([\s\S]*?)\n    \}', lambda m: _encode_verify(m), ['C02', 'C10']),
    ('encodeVerifyShort', 'src/repository/sigobj.rs',
     r'pub fn encode_verify\(&self\) -> Vec<u8> \{[\s\S]*?if len < (\w+) \{\s*res\.push\(len as u8\)', 'nat', ['C02', 'C10']),
    ('encodeVerifyMid', 'src/repository/sigobj.rs',
     r'pub fn encode_verify\(&self\) -> Vec<u8> \{[\s\S]*?else if len < (\w+) \{\s*res\.push\(0x81\);', 'nat', ['C02', 'C10']),
    ('encodeVerifyMax', 'src/repository/sigobj.rs',
     r'pub fn encode_verify\(&self\) -> Vec<u8> \{[\s\S]*?else if len < (\w+) \{\s*res\.push\(0x82\);', 'nat', ['C02', 'C10']),
    # ---- C10
    ('sigmsgValidateSteps', 'src/ca/sigmsg.rs',
     r'pub fn validate_at\(\s*&self, issuer_key: &PublicKey, when: Time\s*\) -> Result<\(\), ValidationError> \{\s*(self\.inspect\(\)\?;\s*self\.verify\(\)\?;\s*self\.ee_cert\.validate_ee_at\(issuer_key, when\)\?;\s*self\.crl\.validate\(issuer_key, when\)\?;\s*self\.crl\.verify_not_revoked\(&self\.ee_cert\)\?;\s*Ok\(\(\)\))',
     lambda m: True, ['C10']),
    ('idcertEeSteps', 'src/ca/idcert.rs',
     r'pub fn validate_ee_at\([\s\S]*?\{\s*(self\.inspect_basics\(\)\?;\s*self\.verify_validity\(now\)\?;\s*self\.verify_issuer_key\(issuer_key\)\?;[\s\S]*?if basic_ca \{\s*return Err[\s\S]*?self\.verify_signature\(issuer_key\)\.map_err\(VerificationError::new\)\?;\s*Ok\(\(\)\))',
     lambda m: True, ['C10']),
    ('sigmsgCrlWindow', 'src/ca/sigmsg.rs',
     r'(if self\.this_update > when \{[\s\S]*?else if self\.next_update < when \{)', lambda m: True, ['C10']),
    # ---- C09
    ('rrdpDeltaCheckedAdd', 'src/rrdp.rs',
     r'pub fn sort_and_verify_deltas\(&mut self, limit: Option<usize>\) -> bool \{([\s\S]*?)\n    \}',
     lambda m: _delta_add(m), ['C09']),
    ('rrdpMaxHeaderSize', 'src/rrdp.rs', r'const MAX_HEADER_SIZE: u64 = ([0-9_]+);', 'nat', ['C09']),
    ('rrdpMaxFileSize', 'src/rrdp.rs', r'const MAX_FILE_SIZE: u64 = ([0-9_]+);', 'nat', ['C09']),
    ('xmlCounterShape', 'src/xml/decode.rs',
     r'(fn fill_buf\(&mut self\) -> io::Result<&\[u8\]> \{\s*if self\.limit > 0 && self\.trip > self\.limit \{\s*return Err\([\s\S]*?self\.reader\.fill_buf\(\)\s*\}\s*fn consume\(&mut self, amt: usize\) \{\s*self\.trip = self\.trip\.saturating_add\(\s*u64::try_from\(amt\)\.unwrap_or_default\(\)\s*\);\s*self\.reader\.consume\(amt\))',
     lambda m: True, ['C09']),
    ('xmlResetAndLimit', 'src/xml/decode.rs',
     r'(pub fn reset_and_limit\(&mut self, limit: u64\) \{\s*self\.reader\.get_mut\(\)\.reset\(\);\s*self\.reader\.get_mut\(\)\.limit\(limit\);)',
     lambda m: True, ['C09']),
    ('xmlAttrEscapes', 'src/xml/encode.rs',
     r'TextEscape::Attr => \{\s*match ch \{([\s\S]*?)_ => None', lambda m: _escapes(m, {'<': '&lt;', '>': '&gt;', '"': '&quot;', "'": '&apos;', '&': '&amp;'}), ['C09', 'C11']),
    ('xmlPcdataEscapes', 'src/xml/encode.rs',
     r'TextEscape::Pcdata => \{\s*match ch \{([\s\S]*?)_ => None', lambda m: _escapes(m, {'<': '&lt;', '&': '&amp;'}), ['C09', 'C11']),
    # ---- C05
    ('roaBuilderCapturesContent', 'src/repository/roa.rs',
     r'pub fn to_addresses\(&self\) -> RoaIpAddresses \{([\s\S]*?)\n    \}',
     lambda m: bool(re.search(r'encode::slice\(self\.addrs\.as_slice\(\)', m.group(1))) or _raise('ROA builder captures the SEQUENCE header'), ['C05']),
    ('roaEncodeWrapsCapture', 'src/repository/roa.rs',
     r'fn encode_ref_family\([\s\S]*?(OctetString::encode_slice\(family\),\s*encode::sequence\(&self\.0\))', lambda m: True, ['C05']),
    ('aspaBuilderCapturesContent', 'src/repository/aspa.rs',
     r'fn into_attestation\(self\) -> AsProviderAttestation \{([\s\S]*?)let provider_as_set = ProviderAsSet',
     lambda m: (not re.search(r'encode::sequence\(', m.group(1))) or _raise('ASPA builder captures the SEQUENCE header'), ['C05']),
    ('aspaEncodeWrapsCapture', 'src/repository/aspa.rs',
     r'(self\.customer_as\.encode\(\),\s*encode::sequence\(&self\.provider_as_set\.captured\))', lambda m: True, ['C05']),
    ('mftEncodeShape', 'src/repository/manifest.rs',
     r'(self\.manifest_number\.encode\(\),\s*self\.this_update\.encode_generalized_time\(\),\s*self\.next_update\.encode_generalized_time\(\),\s*self\.file_hash_alg\.encode_oid\(\),\s*encode::sequence\(\s*&self\.file_list\s*\))', lambda m: True, ['C05']),
    ('aspaObjMaxLen', 'src/repository/aspa.rs', r'impl ProviderAsSet \{[\s\S]*?const MAX_LEN: usize = ([\w:]+);', 'nat', ['C05', 'C02']),
    # ---- C04
    ('roaIterUsesTake', 'src/repository/roa.rs',
     r'(impl Iterator for RoaIpAddressIter<\'_> \{[\s\S]*?RoaIpAddress::take_opt_from_unchecked\(cons\)[\s\S]*?fn skip_opt_in<[\s\S]*?let addr = match Self::take_opt_from_unchecked\(cons\)\? \{)', lambda m: True, ['C04']),
    ('aspaIterUsesTake', 'src/repository/aspa.rs',
     r'(while let Some\(asn\) = Asn::take_opt_from\(\s*cons\s*\)\? \{[\s\S]*?impl Iterator for ProviderAsIter<\'_> \{[\s\S]*?Asn::take_opt_from\(cons\))', lambda m: True, ['C04']),
    ('crlIterUsesTake', 'src/repository/crl.rs',
     r'(while CrlEntry::take_opt_from\(cons\)\?\.is_some\(\) \{ \}[\s\S]*?while let Some\(entry\) = CrlEntry::take_opt_from\(cons\)\.unwrap\(\))', lambda m: True, ['C04']),
    # ---- C14
    ('mftExtLen', 'src/repository/manifest.rs', r'fn validate_file_name\(name: &\[u8\]\)[\s\S]*?if n\.len\(\) != ([\w:]+) \|\| !n\.iter\(\)\.all\(\|c\| c\.is_ascii_alphabetic\(\)\)', 'nat', ['C14']),
    ('mftNameCheckedBothSites', 'src/repository/manifest.rs',
     r'(fn skip_opt_in<[\s\S]*?)fn validate_file_name',
     lambda m: (len(re.findall(r'let file = Ia5String::take_from\(cons\)\?\.into_bytes\(\);\s*if let Err\(err\) = Self::validate_file_name\(&file\) \{\s*return Err\(cons\.content_err\(err\)\);', m.group(1))) == 2) or _raise('name check not at both sites'), ['C14']),
    ('mftTimesChecked', 'src/repository/manifest.rs',
     r'(let this_update = Time::take_from\(cons\)\?;\s*let next_update = Time::take_from\(cons\)\?;[\s\S]*?)let mut len = 0;',
     lambda m: bool(re.search(r'if this_update > next_update \{\s*return Err', m.group(1))) or _raise('time check'), ['C14']),
    ('mftStemChars', 'src/repository/manifest.rs',
     r"fn valid_rfc9286_character\(c: u8\) -> bool \{\s*(c == b'-' \|\| c == b'_' \|\| c\.is_ascii_alphanumeric\(\))\s*\}", lambda m: True, ['C14']),
    # ---- C06
    ('rtrInitialVersion', 'src/rtr/client.rs', r'const INITIAL_VERSION: u8 = ([\w:]+);', 'nat', ['C06']),
    # ---- C08
    ('rtrMaxVersion', SERVER, r'pub const MAX_VERSION: u8 = ([\w:]+);', 'nat', ['C08', 'C06']),
    ('rtrRecvCancelSafe', SERVER, r'async fn recv\(&mut self\) -> Result<Option<Query>, io::Error> \{([\s\S]*?)if let Err\(err\) = self\.check_version\(header\)', _cancel_safe, ['C08']),
    # ---- C15
    ('slurmDropAllKinds', SLURM, r'impl ValidationOutputFilters \{[\s\S]*?pub fn drop_payload\(&self, payload: &rtr::Payload\) -> bool \{([\s\S]*?)\n    \}', _drop_all, ['C15']),
    ('aspaMaxCount', PDU, r'impl ProviderAsns \{[\s\S]*?pub const MAX_COUNT: usize = ([\w:]+);', 'nat', ['C15', 'C07', 'C06']),
    # ---- C17
    ('utcPivot', X509, r'Tag::UTC_TIME => \{[\s\S]*?let year = if year >= ([\w:]+) \{ year \+ 1900 \}\s*else \{ year \+ 2000 \};', 'nat', ['C17', 'C01', 'C04']),
    ('utcPivotOpt', X509, r'take_opt_primitive_if\(Tag::UTC_TIME, \|prim\| \{[\s\S]*?let year = if year >= ([\w:]+) \{ year \+ 1900 \}\s*else \{ year \+ 2000 \};', 'nat', ['C17']),
    ('utcYearMin', X509, r'pub fn encode_varied\(self\) -> impl encode::Values \{\s*if self\.year\(\) < ([\w:]+) \|\| self\.year\(\) > \d+ \{', 'nat', ['C17']),
    ('utcYearMax', X509, r'pub fn encode_varied\(self\) -> impl encode::Values \{\s*if self\.year\(\) < \d+ \|\| self\.year\(\) > ([\w:]+) \{', 'nat', ['C17']),
    ('timeDigitsOnly', X509, r'(fn read_two_char<[\s\S]*?)//------------ AsUtcTime', _digits_only, ['C17', 'C01', 'C04']),
    # ---- C12
    ('uriAsciiRanges', URI, r'fn is_u8_uri_ascii\(ch: u8\) -> bool \{\s*matches!\(\s*ch,\s*([^)]*?)\s*\)', _ascii_ranges, ['C12', 'C14', 'C01', 'C04']),
    ('rsyncModuleCaseInsensitive', URI, r'fn eq_module\(&self, other: &Rsync\) -> bool \{([\s\S]*?)\n    \}', _eq_module, ['C12']),
    ('httpsJoinSlashWhenEmpty', URI, r'impl Https \{[\s\S]*?pub fn join\(&self, path: &\[u8\]\) -> Result<Self, Error> \{([\s\S]*?)\n    \}', _https_join, ['C12']),
    # ---- C13
    ('falV4Max', ADDR, r'pub fn new_v4\(len: u8\) -> Result<Self, PrefixError> \{\s*if len > ([\w:]+) \{', 'nat', ['C13']),
    ('falV6Max', ADDR, r'pub fn new_v6\(len: u8\) -> Result<Self, PrefixError> \{\s*match len\.cmp\(&([\w:]+)\)', 'nat', ['C13']),
    ('falV6Full', ADDR, r'Ordering::Equal => Ok\(Self\(([\w:]+)\)\)', 'nat', ['C13']),
    ('falXor', ADDR, r'Ordering::Less => Ok\(Self\(len \^ ([\w:]+)\)\)', 'nat', ['C13']),
    ('asnSetDedup', ASN,
     r'impl iter::FromIterator<Asn> for SmallAsnSet \{\s*fn from_iter<T: IntoIterator<Item = Asn>>\(iter: T\) -> Self \{([\s\S]*?)\n    \}',
     _three(r'\.sort(_unstable)?\(\);[\s\S]*?\.dedup\(\);|BTreeSet', r'res\.0\.sort(_unstable)?\(\);\s*res\s*\n', 'SmallAsnSet::from_iter'), ['C13']),
]


# ---- OIDs of the certificate / CMS profiles (src/oid.rs), used by the byte-level decoder models
OIDF = 'src/oid.rs'
_OIDS = [
    ('oidRsaEncryption', 'RSA_ENCRYPTION'), ('oidSha256WithRsa', 'SHA256_WITH_RSA_ENCRYPTION'),
    ('oidEcPublicKey', 'EC_PUBLIC_KEY'), ('oidSecp256r1', 'SECP256R1'), ('oidEcdsaWithSha256', 'ECDSA_WITH_SHA256'),
    ('oidSignedData', 'SIGNED_DATA'), ('oidContentTypeAttr', 'CONTENT_TYPE'), ('oidProtocolContentType', 'PROTOCOL_CONTENT_TYPE'),
    ('oidMessageDigestAttr', 'MESSAGE_DIGEST'), ('oidSigningTimeAttr', 'SIGNING_TIME'),
    ('oidBinarySigningTimeAttr', 'AA_BINARY_SIGNING_TIME'), ('oidSha256', 'SHA256'),
    ('oidAdCaIssuers', 'AD_CA_ISSUERS'), ('oidAdCaRepository', 'AD_CA_REPOSITORY'), ('oidAdRpkiManifest', 'AD_RPKI_MANIFEST'),
    ('oidAdRpkiNotify', 'AD_RPKI_NOTIFY'), ('oidAdSignedObject', 'AD_SIGNED_OBJECT'),
    ('oidCommonName', 'AT_COMMON_NAME'), ('oidSerialNumber', 'AT_SERIAL_NUMBER'),
    ('oidAuthorityKeyId', 'CE_AUTHORITY_KEY_IDENTIFIER'), ('oidBasicConstraints', 'CE_BASIC_CONSTRAINTS'),
    ('oidCertificatePolicies', 'CE_CERTIFICATE_POLICIES'), ('oidCrlDistributionPoints', 'CE_CRL_DISTRIBUTION_POINTS'),
    ('oidCrlNumber', 'CE_CRL_NUMBER'), ('oidExtKeyUsage', 'CE_EXTENDED_KEY_USAGE'), ('oidKeyUsage', 'CE_KEY_USAGE'),
    ('oidSubjectKeyId', 'CE_SUBJECT_KEY_IDENTIFIER'),
    ('oidCpResources', 'CP_IPADDR_ASNUMBER'), ('oidCpResourcesV2', 'CP_IPADDR_ASNUMBER_V2'),
    ('oidKpBgpsecRouter', 'KP_BGPSEC_ROUTER'),
    ('oidAuthorityInfoAccess', 'PE_AUTHORITY_INFO_ACCESS'), ('oidIpAddrBlock', 'PE_IP_ADDR_BLOCK'),
    ('oidIpAddrBlockV2', 'PE_IP_ADDR_BLOCK_V2'), ('oidAsIds', 'PE_AUTONOMOUS_SYS_IDS'), ('oidAsIdsV2', 'PE_AUTONOMOUS_SYS_IDS_V2'),
    ('oidSubjectInfoAccess', 'PE_SUBJECT_INFO_ACCESS'),
    ('oidCtManifest', 'CT_RPKI_MANIFEST'), ('oidCtAspa', 'CT_ASPA'), ('oidCtRoa', 'ROUTE_ORIGIN_AUTHZ'),
    ('oidExtensionRequest', 'EXTENSION_REQUEST'), ('oidCtRta', 'CT_RESOURCE_TAGGED_ATTESTATION'),
]
EXTRA += [(lean, OIDF, r'pub const ' + rust + r':\s*[A-Za-z<>&\[\]0-9 ]+\s*=\s*Oid\(&\[([0-9,\s]*)\]\);', 'natlist',
           ['C01', 'C02', 'C04', 'C05', 'C10']) for lean, rust in _OIDS]
