"""Per-property constant anchors (see extract_consts.py)."""
EXTRA = []
