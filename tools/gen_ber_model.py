#!/usr/bin/env python3
"""Rewrites the octet-level decoder model (DER mode) over the mode-parametrized readers of Model/Ber.lean.

For every listed definition `foo` of the DER model a definition `fooM (ber : Bool)` is written whose body is the
text of `foo` with every reference to a mode-dependent definition `g` replaced by `(gM ber)`.  The mode-dependent
leaves (lengths, indefinite form, BOOLEAN, BIT STRING, OCTET STRING, the skip machine) are hand-written in
Model/Ber.lean; everything else is this mechanical copy, so the two models cannot drift apart.
usage: gen_ber_model.py <lean-project-dir>"""
import re, sys, os
ROOT = sys.argv[1]
# hand-written in Model/Ber.lean: (namespace, name)
HAND = [('Der', 'readLen'), ('Der', 'readTlv'), ('Der', 'takeOptCons'), ('Der', 'takeOptPrim'), ('Der', 'takeCons'), ('Der', 'takePrim'),
        ('CertDer', 'readLenX'), ('CertDer', 'skipLoop'), ('CertDer', 'skipOne'), ('CertDer', 'skipAll'),
        ('CertDer', 'takeOptBool'), ('Manifest', 'bitStringTake')]
# converted: file, namespace, names (in file order)
CONVERT = [
    ('Rpki/Model/Manifest.lean', 'Manifest', ['takeTime']),
    ('Rpki/Model/SigObj.lean', 'SigObj', ['takeSetOfOne', 'takeSetOfTime', 'parseAttr', 'parseLoop', 'parseAttrs']),
    ('Rpki/Model/CertDer.lean', 'CertDer', ['foldCons', 'foldPrim', 'takeOid', 'takeOptNull', 'takeBitString', 'nameAttr', 'nameRdn', 'takeName',
        'lastPrintable', 'lastRouterString', 'inspectAttr', 'inspectName', 'inspectRpkiName', 'inspectRouterName', 'takeSigAlg',
        'takeValidityCivil', 'takeValidity', 'takePublicKey', 'extension', 'decodeTbs', 'certBody', 'takeCert', 'decodeCert', 'toFacts']),
    ('Rpki/Model/CmsDer.lean', 'CmsDer', ['takeDigestAlg', 'takeCmsSigAlg', 'skipU8', 'signerInfo', 'signedData', 'decodeSigObj', 'decodeTyped', 'toObj']),
    ('Rpki/Model/CrlDer.lean', 'CrlDer', ['crlExtension']),
    ('Rpki/Model/SigMsgDer.lean', 'SigMsgDer', ['idExtension', 'idExtsOf', 'decodeTbsId', 'idCertBody', 'decodeIdCert', 'msgCrlExtension', 'takeOptMsgEntry',
        'takeMsgRevoked', 'msgRevokedSerials', 'decodeTbsMsgCrl', 'msgCrlBody', 'msgSignerInfo', 'msgEncap', 'msgCertPart', 'msgCrlPart',
        'msgSignerPart', 'msgHead', 'msgSignedData', 'decodeSigMsg', 'toMsg']),
]
NAMESPACES = ['Der', 'CertDer', 'Manifest', 'SigObj', 'CmsDer', 'CrlDer', 'SigMsgDer', 'Crl', 'AsDer']
names = [n for _, n in HAND] + [n for _, _, ns in CONVERT for n in ns]
assert len(names) == len(set(names)), 'a name is listed twice'
alt = '|'.join(sorted(names, key=len, reverse=True))
nsalt = '|'.join(NAMESPACES)
# a reference: optional `Rpki.` and namespace prefix, the name, not part of a longer identifier and not a field access
REF = re.compile(r"(?<![\w.'])((?:Rpki\.)?(?:(?:%s)\.)?)(%s)(?![\w'])" % (nsalt, alt))

# definitions whose BER behaviour is not the DER text over other readers: written by hand (the DER text is the
# ber = false case of each)
OVERRIDE = {
# `skip_all` inside a value of indefinite length: `skip_one` asks `is_exhausted` (never true there), then demands a
# value and meets the end-of-contents octets - an error, whatever the content
'parseAttr': """def parseAttrM (ber : Bool) (strict : Bool) (p : Parsed) (body : Bytes) (indef : Bool) : Option Parsed :=
  match (takePrimM ber) tagOid body with
  | none => none
  | some (oid, r) =>
    if !oidOk oid then none
    else if oid = oidContentType then
      if p.ct.isSome then none
      else match (takeSetOfOneM ber) tagOid r with
        | some v => if oidOk v then some { p with ct := some v } else none
        | none => none
    else if oid = oidMessageDigest then
      if p.md.isSome then none
      else match (takeSetOfOneM ber) tagOctetString r with
        | some v => some { p with md := some v }
        | none => none
    else if oid = oidSigningTime then
      if p.st.isSome then none
      else match (takeSetOfTimeM ber) r with
        | some t => some { p with st := some t }
        | none => none
    else if !strict then (if !indef ∧ (CertDer.skipAllM ber) r.length r then some p else none)
    else none""",
'parseLoop': """def parseLoopM (ber : Bool) (strict : Bool) : Nat → Bytes → Parsed → Option Parsed
  | 0, b, p => if b = [] then some p else none
  | fuel + 1, b, p =>
    match (takeOptConsIM ber) tagSeq b with
    | .absent => if b = [] then some p else none
    | .bad => none
    | .ok (body, indef) rest =>
      match parseAttrM ber strict p body indef with
      | none => none
      | some p' => parseLoopM ber strict fuel rest p'""",
'takeOptMsgEntry': """def takeOptMsgEntryM (ber : Bool) (b : Bytes) : Take Crl.Entry :=
  match (takeOptConsM ber) tagSeq b with
  | .absent => .absent
  | .bad => .bad
  | .ok c rest =>
    match (takePrimM ber) tagInt c with
    | none => .bad
    | some (sc, c1) =>
      match X509.decodeSerialContent sc with
      | none => .bad
      | some serial =>
        match (Manifest.takeTimeM ber) c1 with
        | none => .bad
        | some (date, c2) =>
          match (takeOptConsIM ber) tagSeq c2 with
          | .absent => if c2 = [] then .ok ⟨serial, date⟩ rest else .bad
          | .bad => .bad
          | .ok (xc, indef) c3 => if !indef ∧ (skipAllM ber) xc.length xc ∧ c3 = [] then .ok ⟨serial, date⟩ rest else .bad""",
# the restricted strings are read as octet strings first, so BER admits their constructed form
'lastRouterString': """def lastRouterStringM (ber : Bool) (r : Bytes) : Bool :=
  match r with
  | [] => false
  | t :: _ =>
    if t % 32 = 31 then false
    else if tagNoCons t = tagPrintable then
      (match (takePrimM ber) tagPrintable r with | some (s, r2) => s.all isPrintable && r2 = [] | none => false)
    else if tagNoCons t = tagUtf8 then
      (match (takePrimM ber) tagUtf8 r with | some (s, r2) => utf8Ok s.length s && r2 = [] | none => false)
    else false""",
}

def blocks(text):
    """top-level items: a line at column 0 starts one, indented or blank lines continue it"""
    out, cur = [], []
    for line in text.split('\n'):
        if line and not line[0].isspace():
            if cur: out.append('\n'.join(cur))
            cur = [line]
        else:
            cur.append(line)
    if cur: out.append('\n'.join(cur))
    return out

def convert(block, name):
    head, _, rest = block.partition(name)
    assert head.strip() == 'def', (name, head)
    body = REF.sub(lambda m: '(%s%sM ber)' % (m.group(1), m.group(2)), rest)
    return 'def %sM (ber : Bool)%s' % (name, body)

out = ['/-', '  GENERATED by tools/gen_ber_model.py from the DER decoder model - do not edit.',
       '  Every definition is the text of the definition of the same name (without the M) in the file named above it,',
       '  with the mode-dependent readers replaced by those of Model/Ber.lean.', '-/',
       'import Rpki.Model.Ber', 'import Rpki.Model.SigMsgDer', 'import Rpki.Model.CmsDer', 'import Rpki.Model.CrlDer', '']
count = 0
for path, ns, wanted in CONVERT:
    text = open(os.path.join(ROOT, path)).read()
    # the `open` lines of the source file, so that unqualified references resolve as they do there
    opens = [l for l in text.split('\n') if l.startswith('open ')]
    found = {}
    for b in blocks(text):
        m = re.match(r'def (\w+)', b)
        if m and m.group(1) in wanted: found[m.group(1)] = b.rstrip()
    missing = [w for w in wanted if w not in found]
    assert not missing, ('not found in ' + path, missing)
    out.append('-- from %s' % path)
    out.append('namespace Rpki.%s' % ns)
    out.extend(dict.fromkeys(opens))
    out.append('')
    for w in wanted:
        out.append(OVERRIDE[w] if w in OVERRIDE else convert(found[w], w)); out.append(''); count += 1
    out.append('end Rpki.%s' % ns); out.append('')
open(os.path.join(ROOT, 'Rpki/Gen/BerModel.lean'), 'w').write('\n'.join(out))

# ---- the equalities `fooM false = foo` (Gen/BerEq.lean): the DER text of every definition is its own BER text at
# ber = false, so each is proved by unfolding both sides and rewriting the readers already shown equal
LEAF = ['Rpki.readLenM_false', 'Rpki.readLenXM_false', 'Rpki.skipLoopM_false', 'Rpki.skipOneM_false', 'Rpki.skipAllM_false',
        'Rpki.readTlvM_false', 'Rpki.takeOptConsM_false', 'Rpki.takeOptPrimM_false', 'Rpki.takeConsM_false', 'Rpki.takePrimM_false',
        'Rpki.bitStringTakeM_false', 'Rpki.takeOptBoolM_false']
PROOF = {
'foldCons': """theorem Rpki.CertDer.foldConsM_false : @Rpki.CertDer.foldConsM false = @Rpki.CertDer.foldCons := by
  funext σ tag f fuel
  induction fuel with
  | zero => funext b s; rfl
  | succ n ih =>
    funext b s
    simp only [Rpki.CertDer.foldConsM, Rpki.CertDer.foldCons, Rpki.takeOptConsM_false, ih]
    rfl""",
'foldPrim': """theorem Rpki.CertDer.foldPrimM_false : @Rpki.CertDer.foldPrimM false = @Rpki.CertDer.foldPrim := by
  funext σ tag f fuel
  induction fuel with
  | zero => funext b s; rfl
  | succ n ih =>
    funext b s
    simp only [Rpki.CertDer.foldPrimM, Rpki.CertDer.foldPrim, Rpki.takeOptPrimM_false, ih]
    rfl""",
'parseAttr': """theorem Rpki.SigObj.parseAttrM_false (strict : Bool) (p : Rpki.SigObj.Parsed) (body : Rpki.Der.Bytes) :
    Rpki.SigObj.parseAttrM false strict p body false = Rpki.SigObj.parseAttr strict p body := by
  unfold Rpki.SigObj.parseAttrM Rpki.SigObj.parseAttr
  simp only [%(L)s, Bool.not_false, true_and]
  rfl""",
'takeOptMsgEntry': """theorem Rpki.SigMsgDer.takeOptMsgEntryM_false : Rpki.SigMsgDer.takeOptMsgEntryM false = Rpki.SigMsgDer.takeOptMsgEntry := by
  funext b
  unfold Rpki.SigMsgDer.takeOptMsgEntryM Rpki.SigMsgDer.takeOptMsgEntry
  simp only [%(L)s, Rpki.takeOptConsIM_false]
  repeat' split
  all_goals first | rfl | simp_all""",
'lastRouterString': """theorem Rpki.CertDer.lastRouterStringM_false : Rpki.CertDer.lastRouterStringM false = Rpki.CertDer.lastRouterString := by
  funext r
  unfold Rpki.CertDer.lastRouterStringM Rpki.CertDer.lastRouterString
  cases r with
  | nil => rfl
  | cons t rest =>
    simp only [Rpki.takePrimM_false, Rpki.Der.takePrim, Rpki.Der.takeOptPrim]
    by_cases ht : t %% 32 = 31
    · simp [ht]
    · simp only [ht, if_false]
      have hne : ¬ Rpki.CertDer.tagUtf8 = Rpki.CertDer.tagPrintable := by decide
      have hne' : ¬ Rpki.CertDer.tagPrintable = Rpki.CertDer.tagUtf8 := by decide
      by_cases h1 : Rpki.Der.tagNoCons t = Rpki.CertDer.tagPrintable
      · have h2 : ¬ Rpki.Der.tagNoCons t = Rpki.CertDer.tagUtf8 := by rw [h1]; exact hne'
        cases hr : Rpki.Der.readTlv (t :: rest) with
        | none => by_cases hc : Rpki.Der.isCons t = true <;> simp [h1, hc]
        | some q =>
          obtain ⟨a, c, r2⟩ := q
          by_cases hc : Rpki.Der.isCons t = true <;> by_cases h3 : r2 = [] <;> simp [h1, hc, h3, hne, hne']
      · by_cases h2 : Rpki.Der.tagNoCons t = Rpki.CertDer.tagUtf8
        · cases hr : Rpki.Der.readTlv (t :: rest) with
          | none => by_cases hc : Rpki.Der.isCons t = true <;> simp [h1, h2, hc, hne]
          | some q =>
            obtain ⟨a, c, r2⟩ := q
            by_cases hc : Rpki.Der.isCons t = true <;> by_cases h3 : r2 = [] <;> simp [h1, h2, hc, h3, hne, hne']
        · cases hr : Rpki.Der.readTlv (t :: rest) with
          | none => simp [h1, h2]
          | some q =>
            obtain ⟨a, c, r2⟩ := q
            by_cases h3 : r2 = [] <;> simp [h1, h2, h3]""",
'parseLoop': """theorem Rpki.SigObj.parseLoopM_false : Rpki.SigObj.parseLoopM false = Rpki.SigObj.parseLoop := by
  funext strict fuel
  induction fuel with
  | zero => funext b p; rfl
  | succ n ih =>
    funext b p
    simp only [Rpki.SigObj.parseLoopM, Rpki.SigObj.parseLoop, Rpki.takeOptConsIM_false, ih]
    cases Rpki.Der.takeOptCons Rpki.Der.tagSeq b with
    | absent => rfl
    | bad => rfl
    | ok body rest => simp only [Rpki.SigObj.parseAttrM_false]; rfl""",
}
eq = ['/-', '  GENERATED by tools/gen_ber_model.py - do not edit.',
      '  Every definition of Gen/BerModel.lean at ber = false is the definition of the DER model it was written from.', '-/',
      'import Rpki.Gen.BerModel', 'import Rpki.Proofs.BerLeaf', '', 'set_option maxRecDepth 4000', '']
lemmas = list(LEAF)
for path, ns, wanted in CONVERT:
    for w in wanted:
        q = 'Rpki.%s.%s' % (ns, w)
        L = ', '.join(lemmas)
        if w in PROOF:
            eq.append(PROOF[w] % {'L': L} if '%(L)s' in PROOF[w] else PROOF[w].replace('%%', '%'))
        else:
            eq.append('theorem %sM_false : @%sM false = @%s := by\n  repeat\' (apply funext; intro)\n  unfold %sM %s\n  try simp only [%s]\n  try rfl' % (q, q, q, q, q, L))
        eq.append('')
        lemmas.append(q + 'M_false')
open(os.path.join(ROOT, 'Rpki/Gen/BerEq.lean'), 'w').write('\n'.join(eq))
print('BerEq.lean: %d theorems' % (len(lemmas) - len(LEAF)))
print('BerModel.lean: %d definitions' % count)

# ---- lemmas of the DER model whose proofs only unfold the definitions and split on their matches carry over to both
# modes by the same rewriting (Gen/BerLemmas.lean): the statement and the proof script of each are the text of the
# DER lemma with `foo` -> `(fooM ber)`, `unfold foo` -> `unfold fooM`, and the lemma names -> `(nameM ber)`
LEMMAS = [
    ('Rpki/Proofs/SkipLemmas.lean', 'CertDer', ['readLen_suffix', 'readLenX_suffix', 'skipLoop_suffix', 'skipOne_suffix', 'skipLoop_fuel', 'skipOne_fuel']),
    ('Rpki/Proofs/CmsDerLemmas.lean', 'CmsDer', ['signerInfo_spec']),
    ('Rpki/Proofs/CrlDerLemmas.lean', 'SigMsgDer', ['takeMsgRevoked_capture', 'decodeTbsMsgCrl_revoked', 'msgCrlBody_revoked', 'msgCrlPart_revoked',
        'msgSignedData_revoked', 'decodeSigMsg_revoked', 'msgSignerInfo_attrs', 'msgSignedData_attrs', 'decodeSigMsg_attrs',
        'msgSignerInfo_spec', 'msgEncap_ct', 'msgSignerPart_spec', 'msgSignedData_spec', 'decodeSigMsg_spec']),
]
# second file, on top of the hand-proved `…_subM` lemmas of Proofs/BerSub.lean
LEMMAS2 = [
    ('Rpki/Proofs/CertDerLemmas.lean', 'CertDer', ['foldCons_inv', 'takeOid_sub', 'extension_canon', 'takeSigAlg_sub', 'takeName_sub',
        'takeValidityCivil_sub', 'takePublicKey_sub', 'decodeTbs_canon', 'takeCert_canon', 'decodeCert_canon']),
    ('Rpki/Proofs/CmsDerLemmas.lean', 'CmsDer', ['skipU8_sub', 'signedData_spec', 'decodeSigObj_spec']),
]
HAND_LEMMAS = ['readTlv_sub', 'takeOptPrim_sub', 'takeOptCons_sub', 'takePrim_sub', 'takeCons_sub', 'takeOptBool_sub']
lemma_names = [n for _, _, ns in LEMMAS + LEMMAS2 for n in ns] + HAND_LEMMAS
LREF = re.compile(r"(?<![\w.'])((?:Rpki\.)?(?:(?:%s)\.)?)(%s)(?![\w'])" % (nsalt, '|'.join(sorted(lemma_names, key=len, reverse=True))))
UNFOLD = re.compile(r"unfold((?: [\w.']+)+)")
# rewrite / simp lists: a definition there is named, not applied
LISTS = re.compile(r"((?:simp only|simp_all|simp|rw|rewrite)\s*\[)([^\]]*)(\])")
DEFNAME = re.compile(r"(?<![\w.'])((?:Rpki\.)?(?:(?:%s)\.)?)(%s)(?![\w'])" % (nsalt, alt))

def convert_lemma(block, name):
    head, _, rest = block.partition(name)
    assert head.strip() == 'theorem', (name, head)
    def unf(m):
        return 'unfold' + ''.join(' ' + (w + 'M' if w.split('.')[-1] in names else w) for w in m.group(1).split())
    def lst(m):
        inner = DEFNAME.sub(lambda k: '%s%sM' % (k.group(1), k.group(2)), m.group(2))
        inner = LREF.sub(lambda k: '(%s%sM ber)' % (k.group(1), k.group(2)), inner)
        return m.group(1) + inner + m.group(3)
    rest = UNFOLD.sub(lambda m: '\x00' + unf(m) + '\x01', rest)
    rest = LISTS.sub(lambda m: '\x00' + lst(m) + '\x01', rest)
    parts = re.split('(\x00.*?\x01)', rest, flags=re.S)
    out = []
    for part in parts:
        if part.startswith('\x00'):
            out.append(part[1:-1])
        else:
            part = REF.sub(lambda m: '(%s%sM ber)' % (m.group(1), m.group(2)), part)
            part = LREF.sub(lambda m: '(%s%sM ber)' % (m.group(1), m.group(2)), part)
            out.append(part)
    return 'theorem %sM (ber : Bool)%s' % (name, ''.join(out))

def emit_lemmas(groups, imports, target):
    lem = ['/-', '  GENERATED by tools/gen_ber_model.py - do not edit.',
           '  Lemmas of the DER decoder model restated and re-proved, by the same textual rewriting, for both decoding modes.', '-/'] + imports + ['']
    lcount = 0
    for path, ns, wanted in groups:
        text = open(os.path.join(ROOT, path)).read()
        found = {}
        for b in blocks(text):
            m = re.match(r"theorem ([\w']+)", b)
            if m and m.group(1) in wanted: found[m.group(1)] = b.rstrip()
        missing = [w for w in wanted if w not in found]
        assert not missing, ('lemma not found in ' + path, missing)
        lem.append('-- from %s' % path)
        lem.append('namespace Rpki.%s' % ns)
        lem.append('open Rpki.Der Rpki.CertDer Rpki.CmsDer Rpki.Chain')
        lem.append('')
        for w in wanted:
            lem.append(convert_lemma(found[w], w)); lem.append(''); lcount += 1
        lem.append('end Rpki.%s' % ns); lem.append('')
    open(os.path.join(ROOT, target), 'w').write('\n'.join(lem))
    print('%s: %d theorems' % (os.path.basename(target), lcount))

emit_lemmas(LEMMAS, ['import Rpki.Gen.BerModel', 'import Rpki.Proofs.SkipLemmas', 'import Rpki.Proofs.CmsDerLemmas', 'import Rpki.Proofs.CrlDerLemmas'],
            'Rpki/Gen/BerLemmas.lean')
emit_lemmas(LEMMAS2, ['import Rpki.Proofs.BerSub', 'import Rpki.Proofs.CertDerLemmas', 'import Rpki.Proofs.CmsDerLemmas'], 'Rpki/Gen/BerLemmas2.lean')

# ---- "the relaxed decoders only admit more" (Gen/BerMonoGen.lean): for every definition with an Option result,
# (foo args).isSome -> fooM true args = foo args, proved by splitting the DER side and rewriting the BER side with the
# equalities already shown; loops and the hand-written BER definitions have hand proofs in the dictionary below
MONO_SKIP = {'toMsg', 'toObj', 'lastPrintable', 'lastRouterString', 'inspectAttr', 'inspectName', 'inspectRpkiName', 'inspectRouterName', 'toFacts',
             'foldCons', 'foldPrim'}
MONO_LEAF = ['Rpki.readTlv_monoEq', 'Rpki.takeOptCons_monoEq', 'Rpki.takeOptPrim_monoEq', 'Rpki.takePrim_monoEq', 'Rpki.takeCons_monoEq',
             'Rpki.takeOptConsIM_monoEq', 'Rpki.takeOptBool_monoEq', 'Rpki.skipOne_monoEq', 'Rpki.skipAll_monoEq', 'Rpki.bitStringTake_monoEq']
MONO_EXTRA = {
    'nameRdn': ['Rpki.foldCons_monoEq Rpki.Der.tagSeq Rpki.CertDer.nameAttr (Rpki.CertDer.nameAttrM true) (fun _ c h => Rpki.CertDer.nameAttr_monoEq c h)'],
    'takeName': ['Rpki.foldCons_monoEq Rpki.Der.tagSet Rpki.CertDer.nameRdn (Rpki.CertDer.nameRdnM true) (fun _ c h => Rpki.CertDer.nameRdn_monoEq c h)'],
    'decodeTbs': ['Rpki.foldCons_monoEq Rpki.Der.tagSeq Rpki.CertDer.extension (Rpki.CertDer.extensionM true) (fun s c h => Rpki.CertDer.extension_monoEq s c h)'],
    'idExtsOf': ['Rpki.foldCons_monoEq Rpki.Der.tagSeq Rpki.SigMsgDer.idExtension (Rpki.SigMsgDer.idExtensionM true) (fun s c h => Rpki.SigMsgDer.idExtension_monoEq s c h)'],
    'decodeTbsMsgCrl': ['Rpki.foldCons_monoEq Rpki.Der.tagSeq Rpki.SigMsgDer.msgCrlExtension (Rpki.SigMsgDer.msgCrlExtensionM true) (fun s c h => Rpki.SigMsgDer.msgCrlExtension_monoEq s c h)'],
    'takeMsgRevoked': ['Rpki.capturePass_monoEq Rpki.SigMsgDer.takeOptMsgEntry (Rpki.SigMsgDer.takeOptMsgEntryM true) (fun _ => true) (fun b h => Rpki.SigMsgDer.takeOptMsgEntry_monoEq b h)'],
    'msgRevokedSerials': ['Rpki.iteratePass_monoEq Rpki.SigMsgDer.takeOptMsgEntry (Rpki.SigMsgDer.takeOptMsgEntryM true) (fun b h => Rpki.SigMsgDer.takeOptMsgEntry_monoEq b h)'],
    'takeSetOfOne': [], 'foldPrim': [],
}
MONO_PROOF = {
'parseAttr': """theorem Rpki.SigObj.parseAttr_monoEq (strict : Bool) (p : Rpki.SigObj.Parsed) (body : Rpki.Der.Bytes)
    (h : (Rpki.SigObj.parseAttr strict p body).isSome) :
    Rpki.SigObj.parseAttrM true strict p body false = Rpki.SigObj.parseAttr strict p body := by
  unfold Rpki.SigObj.parseAttr at h ⊢
  unfold Rpki.SigObj.parseAttrM
  repeat' (split at h <;> try dsimp only at h)
  all_goals first
    | (simp at h; done)
    | (simp_all [%(L)s]; done)""",
'parseLoop': """theorem Rpki.SigObj.parseLoop_monoEq (strict : Bool) : ∀ (fuel : Nat) (b : Rpki.Der.Bytes) (p : Rpki.SigObj.Parsed),
    (Rpki.SigObj.parseLoop strict fuel b p).isSome → Rpki.SigObj.parseLoopM true strict fuel b p = Rpki.SigObj.parseLoop strict fuel b p := by
  intro fuel
  induction fuel with
  | zero => intro b p _; rfl
  | succ n ih =>
    intro b p h
    simp only [Rpki.SigObj.parseLoop] at h ⊢
    simp only [Rpki.SigObj.parseLoopM]
    cases hp : Rpki.Der.takeOptCons Rpki.Der.tagSeq b with
    | bad => simp [hp] at h
    | absent => rw [Rpki.takeOptConsIM_monoEq _ _ (by simp [hp]), hp]
    | ok body rest =>
      rw [Rpki.takeOptConsIM_monoEq _ _ (by simp [hp]), hp]
      simp only [hp] at h ⊢
      cases ha : Rpki.SigObj.parseAttr strict p body with
      | none => simp [ha] at h
      | some p' =>
        rw [Rpki.SigObj.parseAttr_monoEq strict p body (by simp [ha]), ha]
        simp only [ha] at h ⊢
        exact ih rest p' h""",
'takeOptMsgEntry': """theorem Rpki.SigMsgDer.takeOptMsgEntry_monoEq (b : Rpki.Der.Bytes) (h : Rpki.SigMsgDer.takeOptMsgEntry b ≠ .bad) :
    Rpki.SigMsgDer.takeOptMsgEntryM true b = Rpki.SigMsgDer.takeOptMsgEntry b := by
  unfold Rpki.SigMsgDer.takeOptMsgEntry at h ⊢
  unfold Rpki.SigMsgDer.takeOptMsgEntryM
  repeat' split at h
  all_goals first
    | (simp at h; done)
    | (simp_all [%(L)s]; done)""",
}
BINDER = re.compile(r"\(([\w\s]+?) : ([^()]+)\)")
mono = ['/-', '  GENERATED by tools/gen_ber_model.py - do not edit.',
        '  Whatever a DER decoder of the model accepts, its BER counterpart accepts with the same result.', '-/',
        'import Rpki.Gen.BerModel', 'import Rpki.Proofs.BerMono', '', 'set_option maxRecDepth 4000', 'set_option maxHeartbeats 1000000', '']
mlemmas = list(MONO_LEAF)
mcount = 0
for path, ns, wanted in CONVERT:
    text = open(os.path.join(ROOT, path)).read()
    found = {}
    for b in blocks(text):
        m = re.match(r'def (\w+)', b)
        if m and m.group(1) in wanted: found[m.group(1)] = b.rstrip()
    for w in wanted:
        if w in MONO_SKIP: continue
        q = 'Rpki.%s.%s' % (ns, w)
        L = ', '.join(mlemmas + MONO_EXTRA.get(w, []))
        if w in MONO_PROOF:
            mono.append(MONO_PROOF[w] % {'L': L} if '%(L)s' in MONO_PROOF[w] else MONO_PROOF[w])
        else:
            header = found[w][:found[w].index(':=')]
            header = header[header.index(w) + len(w):]
            # binders come first, then `: result type`
            pos, binders = 0, []
            while True:
                m2 = re.match(r"\s*\(([\w\s]+?) : ([^()]+)\)", header[pos:])
                if not m2: break
                binders.append((m2.group(1), m2.group(2))); pos += m2.end()
            args = ' '.join(' '.join(n.split()) for n, _ in binders)
            args = ' '.join('()' if a == '_' else a for a in args.split())
            bind = ' '.join('(%s : %s)' % (' '.join(n.split()), t.strip()) for n, t in binders if n.strip() != '_')
            rtype = header[pos:].strip()
            assert rtype.startswith(':'), (w, header)
            rtype = rtype[1:].strip()
            if rtype.startswith('Option'):
                hyp = '(h : (%s %s).isSome)' % (q, args)
            elif rtype.startswith('Take'):
                hyp = '(h : %s %s ≠ .bad)' % (q, args)
            else:
                raise SystemExit('no monotonicity statement for the result type of ' + w + ': ' + rtype)
            mono.append('open Rpki.Der Rpki.CertDer Rpki.CmsDer Rpki.SigObj Rpki.SigMsgDer Rpki.CrlDer in\ntheorem %s_monoEq %s %s :\n    %sM true %s = %s %s := by\n  unfold %s at h ⊢\n  unfold %sM\n  repeat\' (split at h <;> try dsimp only at h)\n  all_goals first\n    | (simp at h; done)\n    | (simp_all [%s]; done)\n    | ((repeat\' (split at * <;> try dsimp only at *)) <;> first | (simp at h; done) | (simp_all [%s]; done) | (subst_vars; simp_all [%s]; done))' % (q, bind, hyp, q, args, q, args, q, q, L, L, L))
        mono.append('')
        mlemmas.append(q + '_monoEq'); mcount += 1
open(os.path.join(ROOT, 'Rpki/Gen/BerMonoGen.lean'), 'w').write('\n'.join(mono))
print('BerMonoGen.lean: %d theorems' % mcount)
