#!/usr/bin/env python3
"""Run, on the unchanged tree, exactly what the deeper search of `check` runs when a proof / anchor / correspondence
is broken (thorough stream, seeds seed+1000 and seed+2000, the same time budget): it must find nothing, or a
harmless rewrite would be reported with a 'failing input' that is a false alarm.
usage: deep_clean.py [Cxx ...]"""
import importlib.machinery, importlib.util, json, os, sys, time
VERIF = os.path.dirname(os.path.dirname(os.path.abspath(__file__)))
loader = importlib.machinery.SourceFileLoader('vcheck', os.path.join(VERIF, 'check'))
spec = importlib.util.spec_from_loader('vcheck', loader)
c = importlib.util.module_from_spec(spec); loader.exec_module(c)
pids = sys.argv[1:] or sorted(c.PROPS.keys())
c.extract_consts()
ok_d, _ = c.build_driver(); ok_h, _ = c.build_harness()
assert ok_d and ok_h
bad = 0
for pid in pids:
    sp = c.PROPS[pid]
    if not sp.get('deepen', True):
        print(pid, 'deepen disabled'); continue
    for seed in (1001, 2001):
        t0 = time.time()
        r = c.run_cases(pid, 'thorough', seed, sp.get('deepen_budget', 900), None, tag='.deep')
        known = c.load_known(pid)
        O = [(l, w) for l, w in r['O'] if not any(rx.search(l) for rx, _ in known)]
        line = {'pid': pid, 'seed': seed, 'wall_s': round(time.time() - t0, 1), 'lines': r.get('lines'), 'M': len(r['M']), 'O': len(O),
                'known': len(r['O']) - len(O), 'hang': r['hang'][:1], 'crashed': [x[:200] for x in r['crashed'][:1]],
                'first': [(l[:300], w[:200]) for l, w in (O + r['M'])[:2]]}
        if line['M'] or line['O'] or line['hang'] or line['crashed']:
            bad += 1
        print(json.dumps(line), flush=True)
sys.exit(1 if bad else 0)
