#!/usr/bin/env python3
"""Confirm seeded changes in a scratch worktree: with the patch the crate builds with all features, the pinned
35-test suite passes and the demonstration fails; without it the demonstration passes.
usage: confirm_seed.py <seed-dir>...   (writes <seed-dir>/confirm.json)"""
import json, os, shutil, subprocess, sys
FEATURES = {'C16': 'rtr,crypto', 'C13': 'rtr,crypto', 'C12': '', 'C17': 'repository', 'C15': 'slurm,crypto',
            'C07': 'rtr,crypto', 'C08': 'rtr,crypto', 'C06': 'rtr,crypto', 'C03': 'repository,ca', 'C14': 'repository',
            'C09': 'rrdp', 'C11': 'ca,softkeys', 'C01': 'repository,softkeys,ca', 'C02': 'repository,softkeys', 'C10': 'ca,softkeys',
            'C05': 'ca,softkeys', 'C04': 'ca,softkeys'}
ALL = 'ca,crypto,repository,rrdp,rtr,slurm,xml,serde-support,softkeys'
WT = '/tmp/wt_confirm'
ENV = dict(os.environ, CARGO_TARGET_DIR='/tmp/wt_confirm_target', CARGO_NET_OFFLINE='true')

def sh(cmd, **kw):
    return subprocess.run(cmd, cwd=WT, env=ENV, capture_output=True, text=True, **kw)

if not os.path.isdir(WT):
    subprocess.run(['git', '-C', '/repo', 'worktree', 'add', '-q', '--detach', WT, 'HEAD'], check=True)
for d in sys.argv[1:]:
    d = os.path.abspath(d.rstrip('/'))
    name = os.path.basename(d)
    pid = name.split('-')[0]
    feats = FEATURES[pid]
    sh(['git', 'checkout', '-q', '--detach', subprocess.run(['git', '-C', '/repo', 'rev-parse', 'HEAD'], capture_output=True, text=True).stdout.strip()])
    sh(['git', 'checkout', '--', '.']); sh(['git', 'clean', '-fdq', 'tests'])
    test = 'seeded_' + name.replace('-', '_').lower()
    shutil.copy(os.path.join(d, 'demo.rs'), os.path.join(WT, 'tests', test + '.rs'))
    fa = (['--features', feats] if feats else [])
    res = {'seed': name}
    r = sh(['cargo', 'test', '--offline'] + fa + ['--test', test])
    res['demo_clean'] = 'pass' if r.returncode == 0 else 'FAIL'
    r = sh(['git', 'apply', os.path.join(d, 'patch.diff')])
    res['applies'] = r.returncode == 0
    r = sh(['cargo', 'build', '--offline', '--features', ALL])
    res['builds_all_features'] = r.returncode == 0
    r = sh(['cargo', 'test', '--offline', '--lib'])
    m = [l for l in r.stdout.split('\n') if l.startswith('test result')]
    res['pinned_suite'] = m[0] if m else r.stderr[-200:]
    r = sh(['cargo', 'test', '--offline'] + fa + ['--test', test])
    res['demo_with_patch'] = 'fail' if r.returncode != 0 else 'PASSES(unexpected)'
    sh(['git', 'checkout', '--', '.']); os.remove(os.path.join(WT, 'tests', test + '.rs'))
    res['confirmed'] = (res['demo_clean'] == 'pass' and res['applies'] and res['builds_all_features']
                        and '35 passed; 0 failed' in res['pinned_suite'] and res['demo_with_patch'] == 'fail')
    print(json.dumps(res), flush=True)
    json.dump(res, open(os.path.join(d, 'confirm.json'), 'w'), indent=1)
