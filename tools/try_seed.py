#!/usr/bin/env python3
"""Apply a seeded change to /repo, run the property's quick check, undo the change.
usage: try_seed.py <seed-dir>...   (seed dir name = <ID>-<n>)"""
import json, os, re, subprocess, sys, time
VERIF = os.path.dirname(os.path.dirname(os.path.abspath(__file__)))
for d in sys.argv[1:]:
    d = d.rstrip('/')
    pid = os.path.basename(d).split('-')[0]
    patch = os.path.join(d, 'patch.diff')
    assert subprocess.run(['git', '-C', '/repo', 'status', '--porcelain', '--untracked-files=no'], capture_output=True, text=True).stdout.strip() == '', 'repo dirty'
    r = subprocess.run(['git', '-C', '/repo', 'apply', os.path.abspath(patch)], capture_output=True, text=True)
    if r.returncode != 0:
        print(f'{d}: patch does not apply: {r.stderr.strip()[:200]}'); continue
    t0 = time.time()
    try:
        p = subprocess.run([os.path.join(VERIF, 'check'), pid, 'quick'], cwd=VERIF, capture_output=True, text=True, timeout=3600)
        out = p.stdout
        viol = [l for l in out.split('\n') if l.startswith('VIOLATION')]
        why = [l for l in out.split('\n') if 'property fails' in l or 'no longer shown' in l]
        res = {'seed': os.path.basename(d), 'exit': p.returncode, 'violation_line': viol[:1], 'why': [w[:400] for w in why[:3]], 'wall_s': round(time.time() - t0, 1)}
    finally:
        subprocess.run(['git', '-C', '/repo', 'checkout', '--', '.'])
    print(json.dumps(res), flush=True)
    with open(os.path.join(d, 'result.json'), 'w') as f:
        json.dump(res, f, indent=1)
